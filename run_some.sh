#!/bin/bash
# run_some.sh tier id...: like run_all.sh for the listed properties
export GOFLAGS=-mod=mod GOPROXY=off GOSUMDB=off GOTOOLCHAIN=local
T=$1; shift
for c in "$@"; do
  s=$(date +%s); timeout 3000 ${VERIF_ROOT:-/verif}/bin/gosymx check $c --tier $T > /tmp/runsome_$c.log 2>&1; e=$?; echo "$c exit=$e $(( $(date +%s)-s ))s; $(grep -m1 'tier=' /tmp/runsome_$c.log | cut -c1-170)"
  [ $e -ne 0 ] && grep "INCONCL\|VIOLATION\|counterexample" /tmp/runsome_$c.log | cut -c1-300 | head -5
done
