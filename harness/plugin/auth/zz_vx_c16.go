package auth

import (
	erpc "github.com/henrylee2cn/erpc/v6"
	"github.com/henrylee2cn/erpc/v6/socket"
)

func init() {
	vxRegister("VX_C16_Auth", VX_C16_Auth)
}

// vxRec counts message-stage hooks and a later accept hook.
type vxRec struct {
	hooks   int
	accepts int
}

func (r *vxRec) Name() string { return "vxrec" }
func (r *vxRec) PostAccept(erpc.PreSession) *erpc.Status {
	r.accepts++
	return nil
}
func (r *vxRec) PostReadCallHeader(erpc.ReadCtx) *erpc.Status { r.hooks++; return nil }
func (r *vxRec) PostReadPushHeader(erpc.ReadCtx) *erpc.Status { r.hooks++; return nil }
func (r *vxRec) PreReadCallBody(erpc.ReadCtx) *erpc.Status    { r.hooks++; return nil }
func (r *vxRec) PostReadCallBody(erpc.ReadCtx) *erpc.Status   { r.hooks++; return nil }
func (r *vxRec) PreWriteReply(erpc.WriteCtx) *erpc.Status     { r.hooks++; return nil }
func (r *vxRec) PreReadHeader(erpc.PreCtx) error              { r.hooks++; return nil }

// VX_C16_Auth: whatever the client sends first, no handler and no per-message
// hook runs unless the authentication exchange completed successfully.
// args: first(0 AUTH_CALL frame with symbolic token, 1 CALL frame first, 2 frame with symbolic type,
//             3 arbitrary bytes, 4 nothing), nBytes (for 3), pipelined(0/1: a CALL frame follows), otherPluginAfter(0/1),
//       [setID(0/1): the verifier calls SetID before deciding][, retry(0/1): the verifier calls its receive function again after a failed receive][, panics(0/1): the verifier panics on what it rejects][, late(0/1): the checker is appended to the peer's plugins after an earlier connection was accepted]
func VX_C16_Auth(args []int) {
	first, nBytes, pipelined, after := args[0], args[1], args[2], args[3]
	rec := &vxRec{}
	recvCalls := 0
	setID := len(args) > 4 && args[4] == 1
	retry := len(args) > 5 && args[5] == 1
	panics := len(args) > 6 && args[6] == 1 // a verifier that panics (instead of returning a status) on what it rejects
	checker := NewCheckerPlugin(func(sess Session, fn RecvOnce) (interface{}, *erpc.Status) {
		var info []byte
		recvCalls++
		if setID {
			sess.SetID("claimed-user") // the verifier names the session after the claimed identity before checking it
		}
		if stat := fn(&info); !stat.OK() {
			if panics {
				var missing *[]byte
				return *missing, nil // nil dereference
			}
			if retry {
				// a verifier that tries to receive once more after a failed receive
				return nil, fn(&info)
			}
			return nil, stat
		}
		if len(info) == 1 && info[0] == 'T' {
			return []byte("welcome"), nil
		}
		if panics {
			parts := []string{"user"}
			return parts[len(info)+1], nil // index out of range
		}
		return nil, erpc.NewStatus(erpc.CodeUnauthorized, "bad token", "")
	})
	var p erpc.Peer
	late := len(args) > 7 && args[7] == 1 // the checker is installed at run time, after an earlier connection was accepted
	if late {
		p = erpc.NewPeer(erpc.PeerConfig{}, rec)
		c0 := newVxConn("srv:1", "cli:0")
		s0, st0 := p.ServeConn(c0)
		vxAssume(st0.OK())
		if after == 1 {
			p.PluginContainer().AppendLeft(checker)
		} else {
			p.PluginContainer().AppendRight(checker)
		}
		s0.Close()
		vxWaitIdle()
		rec.hooks = 0
	} else if after == 1 {
		p = erpc.NewPeer(erpc.PeerConfig{}, checker, rec)
	} else {
		p = erpc.NewPeer(erpc.PeerConfig{}, rec, checker)
	}
	handled := 0
	p.SetUnknownCall(func(ctx erpc.UnknownCallCtx) (interface{}, *erpc.Status) { handled++; return []byte("secret"), nil })
	p.SetUnknownPush(func(ctx erpc.UnknownPushCtx) *erpc.Status { handled++; return nil })
	conn := newVxConn("srv:1", "cli:2")
	authOK := false
	switch first {
	case 0:
		tok := vxBytes("token", 1)
		conn.feed(vxFrame(erpc.TypeAuthCall, 1, "", tok))
		authOK = tok[0] == 'T'
	case 1:
		conn.feed(vxFrame(erpc.TypeCall, 1, "/steal", []byte("x")))
	case 2:
		mt := vxByte("mtype")
		tok := []byte("T")
		conn.feed(vxFrame(mt, 1, "/steal", tok))
		authOK = mt == erpc.TypeAuthCall
	case 3:
		socket.SetMessageSizeLimit(24) // keeps the announced-size case split small
		defer socket.SetMessageSizeLimit(0)
		conn.feed(vxBytes("junk", nBytes))
	}
	if pipelined == 1 {
		conn.feed(vxFrame(erpc.TypeCall, 2, "/steal", []byte("y")))
		conn.feed(vxFrame(erpc.TypePush, 3, "/steal", []byte("z")))
	}
	if first >= 3 {
		conn.end()
	}
	sess, st := p.ServeConn(conn)
	vxWaitIdle()
	vxAssert(recvCalls == 1, "the exchange happens exactly once per connection")
	if authOK {
		vxCover("c16.accepted")
		vxAssert(st.OK() && sess != nil, "successful authentication yields a session")
		vxAssert(p.CountSession() == 1, "authenticated session listed")
		if pipelined == 1 {
			vxAssert(handled == 2, "application messages processed after authentication")
		}
	} else {
		vxCover("c16.rejected")
		vxAssert(!st.OK() && sess == nil, "failed authentication yields no session")
		vxAssert(handled == 0, "no handler runs on a connection that failed authentication")
		vxAssert(rec.hooks == 0, "no per-message hook runs on a connection that failed authentication")
		vxAssert(conn.isClosed(), "rejected connection is closed")
		vxAssert(p.CountSession() == 0, "rejected connection is not listed as a session")
		_, listed := p.GetSession("claimed-user")
		vxAssert(!listed, "rejected connection is not reachable under the id its verifier gave it")
		for _, w := range conn.writes {
			m, err := vxParse(w)
			vxAssert(err == nil && m.Mtype() == erpc.TypeAuthReply, "only the authentication reply is ever written to a rejected connection")
		}
	}
}
