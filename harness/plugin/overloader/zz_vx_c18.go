package overloader

import (
	"errors"
	"net"
	"fmt"
	"time"

	erpc "github.com/henrylee2cn/erpc/v6"
)

func init() {
	vxRegister("VX_C18_ConnHistory", VX_C18_ConnHistory)
	vxRegister("VX_C18_ConnRace", VX_C18_ConnRace)
	vxRegister("VX_C18_QPS", VX_C18_QPS)
	vxRegister("VX_C18_QPSRace", VX_C18_QPSRace)
}

type vxGate struct{ reject bool }

func (g *vxGate) Name() string { return "vxgate" }
func (g *vxGate) PostAccept(erpc.PreSession) *erpc.Status {
	if g.reject {
		return erpc.NewStatus(403, "gate says no", "")
	}
	return nil
}

// VX_C18_ConnHistory: with a connection limit N, at no point of a
// solver-chosen history of accepts (admitted, rejected by the limiter, or
// rejected by a later plugin) and closes are more than N sessions admitted.
// args: N, steps, gateAfter(0/1: another accept plugin after the overloader that may reject)
func VX_C18_ConnHistory(args []int) {
	N, steps, gateAfter := args[0], args[1], args[2]
	o := New(LimitConfig{MaxConn: int32(N)})
	gate := &vxGate{}
	var p erpc.Peer
	if gateAfter == 1 {
		p = erpc.NewPeer(erpc.PeerConfig{}, o, gate)
	} else {
		p = erpc.NewPeer(erpc.PeerConfig{}, o)
	}
	var live []erpc.Session
	conns := 0
	rejected := 0
	for step := 0; step < steps; step++ {
		op := vxChoose("op", 3)
		switch op {
		case 0, 1: // a connection arrives (op 1: the later plugin rejects it)
			gate.reject = gateAfter == 1 && op == 1
			c := newVxConn("srv:1", fmt.Sprintf("cli:%d", conns))
			conns++
			s, st := p.ServeConn(c)
			if st.OK() {
				live = append(live, s)
			} else {
				rejected++
				vxAssert(c.isClosed(), "a rejected connection is closed")
			}
		case 2: // an admitted session ends
			if len(live) == 0 {
				continue
			}
			k := vxChoose("who", len(live))
			live[k].Close()
			live = append(live[:k:k], live[k+1:]...)
		}
		vxWaitIdle()
		if rejected > 0 {
			// a rejected connection also runs the disconnect hook and gives back a slot it never took (known finding)
			vxAssert(len(live) <= N, "never more than N sessions admitted concurrently (history with an earlier rejected connection)")
		} else {
			vxAssert(len(live) <= N, "never more than N sessions admitted concurrently")
		}
		vxAssert(p.CountSession() == len(live), "admitted sessions are exactly the listed ones")
	}
	vxCover("c18.history")
}

// VX_C18_ConnRace: two connections race for the last free slot.
// args: N (one slot free)
func VX_C18_ConnRace(args []int) {
	N := args[0]
	o := New(LimitConfig{MaxConn: int32(N)})
	for k := 0; k < N-1; k++ {
		vxAssume(o.PostAccept(nil).OK())
	}
	vxSched(1, 2)
	admitted := 0
	done := 0
	for k := 0; k < 2; k++ {
		go func() {
			if o.PostAccept(nil).OK() {
				admitted++
			}
			done++
		}()
	}
	vxWaitIdle()
	vxAssert(done == 2, "both accept hooks returned")
	vxAssert(admitted <= 1, "two concurrent connections never both get the last slot")
	vxAssert(admitted == 1, "the free slot is not lost")
	vxCover("c18.race")
}

// VX_C18_QPS: sequential rate limiting: with capacity C and no tick, exactly C
// messages are admitted and the rest are rejected with an error status.
// args: C, k (attempts)
func VX_C18_QPS(args []int) {
	C, k := args[0], args[1]
	q := newQPSLimiter(int32(C), time.Second)
	adm := 0
	for j := 0; j < k; j++ {
		if q.take() {
			adm++
		}
	}
	want := k
	if C < k {
		want = C
	}
	vxAssert(adm == want, "without a refill exactly min(capacity, attempts) are admitted")
	q.updateToken()
	adm2 := 0
	for j := 0; j < k; j++ {
		if q.take() {
			adm2++
		}
	}
	vxAssert(adm+adm2 <= C+int(q.once)+1, "admitted within the interval <= capacity + refill (+1 slack)")
	vxCover("c18.qps")
}

// VX_C18_QPSRace: a refill tick concurrent with two goroutines issuing a and b
// take() calls: admitted <= tokens at start + refill of the tick + 1.
// args: tokensAtStart, a, b, maxPreemptions
func VX_C18_QPSRace(args []int) {
	T := args[0]
	q := newQPSLimiter(10, 100*time.Millisecond) // limit 10, refill 1 per tick
	q.tokens = int32(T)
	vxSched(1, args[3])
	adm := 0
	done := 0
	for _, n := range []int{args[1], args[2]} {
		n := n
		go func() {
			for j := 0; j < n; j++ {
				if q.take() {
					adm++
				}
			}
			done++
		}()
	}
	go func() {
		q.updateToken()
		done++
	}()
	vxWaitIdle()
	vxAssert(done == 3, "all finished")
	vxAssert(adm <= T+int(q.once)+1, "admitted <= capacity + refill of the tick + 1 slack")
	vxCover("c18.qpsrace")
}

func init() { vxRegister("VX_C18_QPSSession", VX_C18_QPSSession) }

// vxHeaderAudit implements the same header hooks as the overloader and always agrees.
type vxHeaderAudit struct{ seen int }

func (a *vxHeaderAudit) Name() string                                      { return "vxheaderaudit" }
func (a *vxHeaderAudit) PostReadCallHeader(erpc.ReadCtx) *erpc.Status      { a.seen++; return nil }
func (a *vxHeaderAudit) PostReadPushHeader(erpc.ReadCtx) *erpc.Status      { a.seen++; return nil }

// VX_C18_QPSSession: with a total rate limit of C per interval and no refill,
// of k calls/pushes received on a session exactly C are handled; every
// rejected CALL receives an error reply and is not handled. args: C, k, kind(0 calls, 1 pushes)[, otherPluginAfter(0/1)]
func VX_C18_QPSSession(args []int) {
	C, k, kind := args[0], args[1], args[2]
	o := New(LimitConfig{MaxTotalQPS: int32(C), QPSInterval: time.Second})
	var p erpc.Peer
	if len(args) > 3 && args[3] == 1 {
		p = erpc.NewPeer(erpc.PeerConfig{}, o, &vxHeaderAudit{}) // another header plugin registered after the overloader
	} else {
		p = erpc.NewPeer(erpc.PeerConfig{}, o)
	}
	handled := 0
	p.SetUnknownCall(func(ctx erpc.UnknownCallCtx) (interface{}, *erpc.Status) { handled++; return []byte("ok"), nil })
	p.SetUnknownPush(func(ctx erpc.UnknownPushCtx) *erpc.Status { handled++; return nil })
	conn := newVxConn("srv:1", "cli:2")
	_, st := p.ServeConn(conn)
	vxAssume(st.OK())
	for j := 0; j < k; j++ {
		mt := erpc.TypeCall
		if kind == 1 {
			mt = erpc.TypePush
		}
		conn.feed(vxFrame(mt, int32(j+1), "/any", []byte("x")))
		vxWaitIdle()
	}
	want := k
	if C < k {
		want = C
	}
	vxAssert(handled == want, "exactly the admitted messages are handled")
	if kind == 0 {
		vxAssert(conn.nWrites() == k, "[C03] every CALL is answered")
		okN, errN := 0, 0
		for _, w := range conn.writes {
			m, err := vxParse(w)
			if err == nil && m.StatusOK() {
				okN++
			} else if err == nil {
				errN++
			}
		}
		vxAssert(okN == want && errN == k-want, "rejected calls receive an error reply instead of being handled")
	} else {
		vxAssert(conn.nWrites() == 0, "[C03] pushes are never answered")
	}
	vxCover("c18.qps-session")
}

func init() { vxRegister("VX_C18_QPSInvariant", VX_C18_QPSInvariant) }

// VX_C18_QPSInvariant: from an arbitrary bucket state, any sequence of n
// takes and refill ticks (solver-chosen) keeps the bucket within its capacity
// and admits no more than what was in the bucket plus the refills.
// args: n (steps)
func VX_C18_QPSInvariant(args []int) {
	n := args[0]
	limit := vxInt32("limit")
	vxAssume(limit >= 1 && limit <= 1000)
	iv := []time.Duration{time.Second, 500 * time.Millisecond, 100 * time.Millisecond, 10 * time.Millisecond}[vxChoose("interval", 4)]
	q := newQPSLimiter(limit, iv)
	vxAssert(q.once >= 1 && q.once <= limit, "refill per tick between 1 and the capacity")
	t0 := vxInt32("tokens0")
	vxAssume(t0 >= -2 && t0 <= limit) // concurrent takes can leave the counter slightly below zero
	q.tokens = t0
	adm, ticks := int32(0), int32(0)
	for s := 0; s < n; s++ {
		if vxBool("tick") {
			q.updateToken()
			ticks++
			vxAssert(q.tokens <= limit, "after a refill the bucket holds no more than its capacity")
			vxAssert(q.tokens >= 1, "after a refill at least one token is available")
		} else if q.take() {
			adm++
		}
	}
	start := t0
	if start < 0 {
		start = 0
	}
	vxAssert(adm <= start+ticks*q.once, "admitted <= tokens at start + refills")
	vxAssert(adm <= limit*(ticks+1), "admitted <= capacity per interval")
	vxCover("c18.qpsinvariant")
}

func init() { vxRegister("VX_C18_SlotAfterCloseAndLoss", VX_C18_SlotAfterCloseAndLoss) }

func vxClosedChan(c chan struct{}) bool {
	select {
	case <-c:
		return true
	default:
		return false
	}
}

// VX_C18_SlotAfterCloseAndLoss: an admitted session ends in the most tangled
// way (a local Close waiting for a running handler while the remote end drops
// the connection): its slot is released exactly once, so with limit N no more
// than N sessions are admitted afterwards. args: N
func VX_C18_SlotAfterCloseAndLoss(args []int) {
	N := args[0]
	o := New(LimitConfig{MaxConn: int32(N)})
	p := erpc.NewPeer(erpc.PeerConfig{}, o)
	gate := make(chan struct{})
	entered := make(chan struct{}, 1)
	p.SetUnknownCall(func(ctx erpc.UnknownCallCtx) (interface{}, *erpc.Status) {
		entered <- struct{}{}
		<-gate
		return []byte("r"), nil
	})
	var live []erpc.Session
	var conns []*vxConn
	for k := 0; k < N; k++ {
		c := newVxConn("srv:1", fmt.Sprintf("cli:%d", k))
		s, st := p.ServeConn(c)
		vxAssert(st.OK(), "the first N connections are admitted")
		live = append(live, s)
		conns = append(conns, c)
	}
	// session 0: handler parked, local Close waiting, remote end drops, handler finishes
	conns[0].feed(vxFrame(erpc.TypeCall, 1, "/park", []byte("x")))
	vxWaitIdle()
	vxAssert(len(entered) == 1, "handler entered")
	done := make(chan struct{})
	go func() {
		live[0].Close()
		close(done)
	}()
	vxWaitIdle()
	conns[0].end()
	vxWaitIdle()
	close(gate)
	vxWaitIdle()
	vxAssert(vxClosedChan(done), "[C08] Close returned")
	liveN := N - 1
	vxAssert(p.CountSession() == liveN, "the ended session left the index")
	// new connections: exactly one more fits
	admitted := 0
	for k := 0; k < 4; k++ {
		c := newVxConn("srv:1", fmt.Sprintf("new:%d", k))
		_, st := p.ServeConn(c)
		if st.OK() {
			admitted++
		}
		vxWaitIdle()
		vxAssert(liveN+admitted <= N, "never more than N sessions admitted concurrently (the ended session's slot was released exactly once)")
	}
	vxAssert(admitted == 1, "the released slot is usable again")
	vxCover("c18.slot-after-close-and-loss")
}

func init() {
	vxRegister("VX_C18_HandlerQPS", VX_C18_HandlerQPS)
	vxRegister("VX_C18_UpdateLimits", VX_C18_UpdateLimits)
}

// VX_C18_HandlerQPS: per-handler rate limits: of k calls to a limited service
// method no more than its capacity are handled within one interval, the rest
// get an error reply; calls to other methods are bounded only by the total
// limit. args: C (limit of /a), k, total(0 none, else total limit)[, push(0 CALLs, 1 PUSHes)]
func VX_C18_HandlerQPS(args []int) {
	C, k, total := args[0], args[1], args[2]
	cfg := LimitConfig{QPSInterval: time.Second, MaxHandlerQPS: []HandlerLimit{{ServiceMethod: "/a", MaxQPS: int32(C)}}}
	if total > 0 {
		cfg.MaxTotalQPS = int32(total)
	}
	o := New(cfg)
	p := erpc.NewPeer(erpc.PeerConfig{}, o)
	handled := map[string]int{}
	p.SetUnknownCall(func(ctx erpc.UnknownCallCtx) (interface{}, *erpc.Status) {
		handled[ctx.ServiceMethod()]++
		return []byte("ok"), nil
	})
	p.SetUnknownPush(func(ctx erpc.UnknownPushCtx) *erpc.Status {
		handled[ctx.ServiceMethod()]++
		return nil
	})
	push := len(args) > 3 && args[3] == 1
	conn := newVxConn("srv:1", "cli:2")
	_, st := p.ServeConn(conn)
	vxAssume(st.OK())
	for j := 0; j < k; j++ {
		m := "/a"
		if vxBool("other") {
			m = "/b"
		}
		if push {
			conn.feed(vxFrame(erpc.TypePush, int32(j+1), m, []byte("x")))
		} else {
			conn.feed(vxFrame(erpc.TypeCall, int32(j+1), m, []byte("x")))
		}
		vxWaitIdle()
	}
	vxAssert(handled["/a"] <= C, "a limited method is handled no more often than its capacity within one interval")
	if total > 0 {
		vxAssert(handled["/a"]+handled["/b"] <= total, "all methods together stay within the total capacity")
	}
	if push {
		vxAssert(conn.nWrites() == 0, "[C03] pushes are not answered")
		vxCover("c18.handler-qps")
		return
	}
	vxAssert(conn.nWrites() == k, "[C03] every CALL is answered")
	okN := 0
	for _, w := range conn.writes {
		if m, err := vxParse(w); err == nil && m.StatusOK() {
			okN++
		}
	}
	vxAssert(okN == handled["/a"]+handled["/b"], "rejected calls receive an error reply instead of being handled")
	vxCover("c18.handler-qps")
}

// VX_C18_UpdateLimits: the connection limit is lowered at run time: from then
// on no connection is admitted while the number of live sessions is at or
// above the new limit. args: N0, N1 (N1 < N0)
func VX_C18_UpdateLimits(args []int) {
	N0, N1 := args[0], args[1]
	o := New(LimitConfig{MaxConn: int32(N0)})
	p := erpc.NewPeer(erpc.PeerConfig{}, o)
	var live []erpc.Session
	for k := 0; k < N0; k++ {
		s, st := p.ServeConn(newVxConn("srv:1", fmt.Sprintf("cli:%d", k)))
		vxAssert(st.OK(), "the first N0 connections are admitted")
		live = append(live, s)
	}
	o.Update(LimitConfig{MaxConn: int32(N1)})
	// sessions end one by one; after each, one newcomer knocks (admitted or rejected)
	for round := 0; round < N0+2 && len(live) > 0; round++ {
		live[0].Close()
		live = live[1:]
		vxWaitIdle()
		s, st := p.ServeConn(newVxConn("srv:1", fmt.Sprintf("new:%d", round)))
		if st.OK() {
			live = append(live, s)
		}
		vxWaitIdle()
		vxAssert(len(live) <= N1 || len(live) < N0-round, "after the limit was lowered nobody is admitted beyond the new limit")
		if st.OK() {
			vxAssert(len(live) <= N1, "after the limit was lowered nobody is admitted beyond the new limit")
		}
	}
	vxCover("c18.update-limits")
}

func init() { vxRegister("VX_C18_DialSide", VX_C18_DialSide) }

// VX_C18_DialSide: the plugin on a dialling peer with redial enabled and a
// connection limit of N=1: a session whose redial attempts are exhausted ends
// and gives its slot back; another session is dialled and admitted; when the
// server is reachable again a call on the ended session must not bring the
// number of admitted live sessions above N. args: serverBack(0 stays down, 1 comes back before the later call)
func VX_C18_DialSide(args []int) {
	o := New(LimitConfig{MaxConn: 1})
	p := erpc.NewPeer(erpc.PeerConfig{RedialTimes: 1, RedialInterval: vxRedialEvery}, o)
	up := true
	var conns []*vxConn
	erpc.VXSetDialHook(func(addr string) (net.Conn, error) {
		if !up {
			return nil, errors.New("connection refused")
		}
		c := newVxConn(fmt.Sprintf("cli:%d", len(conns)), addr)
		conns = append(conns, c)
		return c, nil
	})
	defer erpc.VXSetDialHook(nil)
	s1, st := p.Dial("srv:1")
	vxAssert(st.OK(), "the first dial is admitted")
	if !st.OK() {
		return
	}
	vxWaitIdle()
	_, st = p.Dial("srv:1")
	vxAssert(!st.OK(), "a second dial beyond the limit is refused")
	up = false
	conns[0].end()
	vxWaitIdle()
	ended := false
	select {
	case <-s1.CloseNotify():
		ended = true
	default:
	}
	vxAssert(ended && p.CountSession() == 0, "[C13] redial attempts exhausted: the session ended (close notification fired, left the index)")
	up = true
	s2, st := p.Dial("srv:1")
	vxAssert(st.OK(), "the ended session's slot was released: a new dial is admitted")
	if !st.OK() {
		return
	}
	vxWaitIdle()
	if args[0] == 0 {
		up = false
	}
	s1.AsyncCall("/x", []byte("q"), new([]byte), make(chan erpc.CallCmd, 1))
	vxWaitIdle()
	_ = s2
	vxAssert(p.CountSession() <= 1, "never more than N sessions are live on the peer (a later call on an ended session must not revive it beside its successor without a slot)")
	vxCover("c18.dial-side")
}

func init() { vxRegister("VX_C18_SlotWhileClosing", VX_C18_SlotWhileClosing) }

// VX_C18_SlotWhileClosing: with the limit reached, one admitted session is
// being closed locally while a handler of it is still running (the graceful
// close waits; the connection is still open, the handler's reply will still
// be written). Connections arriving in that window are refused: the closing
// session holds its slot until it has ended. Afterwards the slot is usable
// exactly once. args: N
func VX_C18_SlotWhileClosing(args []int) {
	N := args[0]
	o := New(LimitConfig{MaxConn: int32(N)})
	p := erpc.NewPeer(erpc.PeerConfig{}, o)
	gate := make(chan struct{})
	entered := make(chan struct{}, 1)
	p.SetUnknownCall(func(ctx erpc.UnknownCallCtx) (interface{}, *erpc.Status) {
		entered <- struct{}{}
		<-gate
		return []byte("r"), nil
	})
	var live []erpc.Session
	var conns []*vxConn
	for k := 0; k < N; k++ {
		c := newVxConn("srv:1", fmt.Sprintf("cli:%d", k))
		s, st := p.ServeConn(c)
		vxAssert(st.OK(), "the first N connections are admitted")
		live = append(live, s)
		conns = append(conns, c)
	}
	conns[0].feed(vxFrame(erpc.TypeCall, 1, "/park", []byte("x")))
	vxWaitIdle()
	vxAssert(len(entered) == 1, "handler entered")
	done := make(chan struct{})
	go func() {
		live[0].Close()
		close(done)
	}()
	vxWaitIdle()
	vxAssert(!vxClosedChan(done) && !conns[0].isClosed(), "[C08] Close waits for the running handler, the connection is still open")
	for k := 0; k < 2; k++ {
		c := newVxConn("srv:1", fmt.Sprintf("early:%d", k))
		_, st := p.ServeConn(c)
		vxWaitIdle()
		vxAssert(!st.OK(), "a connection arriving while an admitted session is still being closed (its handler running, its connection open) is refused: never more than N sessions admitted concurrently")
		vxAssert(st.OK() || c.isClosed(), "and closed")
	}
	close(gate)
	vxWaitIdle()
	vxAssert(vxClosedChan(done) && conns[0].isClosed(), "[C08] Close returned after the handler finished")
	vxAssert(conns[0].nWrites() == 1, "[C08] whose genuine reply was written")
	admitted := 0
	for k := 0; k < 3; k++ {
		c := newVxConn("srv:1", fmt.Sprintf("late:%d", k))
		_, st := p.ServeConn(c)
		if st.OK() {
			admitted++
		}
		vxWaitIdle()
	}
	vxAssert(admitted == 1, "once the session has ended its slot is usable again, exactly once")
	vxCover("c18.slot-while-closing")
}

func init() { vxRegister("VX_C18_LimitHistory", VX_C18_LimitHistory) }

// VX_C18_LimitHistory: solver-chosen histories of k events over {a connection
// arrives, the oldest live session is closed, the limit is switched off, the
// limit is set to 1, the limit is set to 2}, starting from limit 1. Whenever a
// limit N is in force, a newcomer is admitted only if that leaves no more than
// N live sessions; a rejected connection is closed. args: k
func VX_C18_LimitHistory(args []int) {
	o := New(LimitConfig{MaxConn: 1})
	p := erpc.NewPeer(erpc.PeerConfig{}, o)
	var live []erpc.Session
	limit := 1
	n := 0
	for step := 0; step < args[0]; step++ {
		switch vxChoose("ev", 5) {
		case 0:
			c := newVxConn("srv:1", fmt.Sprintf("cli:%d", n))
			n++
			s, st := p.ServeConn(c)
			vxWaitIdle()
			if st.OK() {
				live = append(live, s)
				vxAssert(limit == 0 || len(live) <= limit, "a newcomer is admitted only while that leaves no more than the limit in force of live sessions (whatever limits were in force before)")
			} else {
				vxAssert(limit != 0, "without a limit every connection is admitted")
				vxAssert(c.isClosed(), "a rejected connection is closed")
				vxAssert(len(live) >= limit, "a connection is rejected only when the limit is reached")
			}
		case 1:
			if len(live) > 0 {
				live[0].Close()
				live = live[1:]
				vxWaitIdle()
			}
		case 2:
			limit = 0
			o.Update(LimitConfig{MaxConn: 0})
		case 3:
			limit = 1
			o.Update(LimitConfig{MaxConn: 1})
		case 4:
			limit = 2
			o.Update(LimitConfig{MaxConn: 2})
		}
	}
	vxAssert(p.CountSession() == len(live), "[C07] the index holds exactly the live sessions")
	vxCover("c18.limit-history")
}
