package proxy

import (
	"net"

	erpc "github.com/henrylee2cn/erpc/v6"
	"github.com/henrylee2cn/erpc/v6/socket"
)

func init() {
	vxRegister("VX_C19_ProxyCall", VX_C19_ProxyCall)
	vxRegister("VX_C19_ProxyPush", VX_C19_ProxyPush)
}

// fixed forwarder: always the same backend session
type vxFwd struct{ sess erpc.Session }

func (f *vxFwd) Call(uri string, arg interface{}, result interface{}, setting ...erpc.MessageSetting) erpc.CallCmd {
	return f.sess.Call(uri, arg, result, setting...)
}
func (f *vxFwd) Push(uri string, arg interface{}, setting ...erpc.MessageSetting) *erpc.Status {
	return f.sess.Push(uri, arg, setting...)
}

type vxMetaKV struct{ k, v string }

func vxMetaOf(m socket.Message) []vxMetaKV {
	var out []vxMetaKV
	m.Meta().VisitAll(func(k, v []byte) { out = append(out, vxMetaKV{string(k), string(v)}) })
	return out
}

func vxCountKey(kv []vxMetaKV, k string) int {
	n := 0
	for _, e := range kv {
		if e.k == k {
			n++
		}
	}
	return n
}

func vxGet(kv []vxMetaKV, k string) string {
	for _, e := range kv {
		if e.k == k {
			return e.v
		}
	}
	return ""
}

// VX_C19_ProxyCall: a CALL for a method the proxy peer does not serve is
// forwarded exactly once to the backend with the same method, body and
// metadata (+ real IP iff absent); the caller receives the backend's body,
// status and reply metadata. The harness plays caller and backend on scripted
// connections. args: realIPPresent(0/1), backendMode(0 OK reply, 1 error status reply, 2 backend connection closed),
//                    nBody, nMeta(0/1 extra request pair), replyMeta(0/1)[, nReply (length of the backend's reply body, default nBody)]
func VX_C19_ProxyCall(args []int) {
	realIP, backendMode, nBody, nMeta, replyMeta := args[0], args[1], args[2], args[3], args[4]
	// backend link: a client session of a second peer over a scripted conn
	cli := erpc.NewPeer(erpc.PeerConfig{})
	bconn := newVxConn("proxy:9", "backend:1")
	bsess, st := cli.ServeConn(bconn)
	vxAssume(st.OK())
	fwd := &vxFwd{bsess}
	front := erpc.NewPeer(erpc.PeerConfig{}, NewPlugin(func(*Label) Forwarder { return fwd }))
	fconn := newVxConn("proxy:1", "caller:7")
	body := vxBytes("body", nBody)
	var settings []socket.MessageSetting
	if nMeta == 1 {
		settings = append(settings, socket.WithAddMeta("mk", vxString("mv", 1)))
	}
	if realIP == 1 {
		settings = append(settings, socket.WithAddMeta(erpc.MetaRealIP, "9.9.9.9:1"))
	}
	if backendMode == 2 {
		bsess.Close()
	}
	fconn.feed(vxFrame(erpc.TypeCall, 11, "/back/end", body, settings...))
	_, st = front.ServeConn(fconn)
	vxAssume(st.OK())
	vxWaitIdle()
	var rcode int32
	nReply := nBody
	if len(args) > 5 {
		nReply = args[5]
	}
	rbody := vxBytes("rbody", nReply)
	rmv := vxString("rmv", 1)
	if backendMode != 2 {
		// the proxy handler is blocked in the forwarded call
		vxAssert(bconn.nWrites() == 1, "forwarded exactly once to the backend")
		if bconn.nWrites() != 1 {
			return
		}
		fm, err := vxParse(bconn.writes[0])
		vxAssert(err == nil && fm.Mtype() == erpc.TypeCall, "forwarded frame is a CALL")
		vxAssert(fm.ServiceMethod() == "/back/end", "same service method")
		vxAssert(fm.BodyCodec() == 's', "the call is forwarded with the caller's body codec (the backend decodes the body as it would have on a direct call)")
		fb := vxBodyOf(fm)
		vxAssert(len(fb) == nBody, "same body length")
		for k := range body {
			if k < len(fb) {
				vxAssert(fb[k] == body[k], "same body bytes")
			}
		}
		kv := vxMetaOf(fm)
		vxAssert(vxCountKey(kv, erpc.MetaRealIP) == 1, "exactly one real-IP entry on the forwarded call")
		if realIP == 1 {
			vxAssert(vxGet(kv, erpc.MetaRealIP) == "9.9.9.9:1", "existing real IP kept")
		} else {
			vxAssert(vxGet(kv, erpc.MetaRealIP) == "caller:7", "caller's address added as real IP when absent")
		}
		if nMeta == 1 {
			vxAssert(vxCountKey(kv, "mk") == 1, "request metadata forwarded once")
		}
		// backend's reply
		var rs []socket.MessageSetting
		if backendMode == 1 {
			rcode = vxInt32("rcode")
			vxAssume(rcode != 0)
			rs = append(rs, socket.WithStatus(erpc.NewStatus(rcode, "backend says", "bcause")))
		}
		if replyMeta == 1 {
			rs = append(rs, socket.WithAddMeta("rk", rmv))
		}
		bconn.feed(vxFrame(erpc.TypeReply, fm.Seq(), "", rbody, rs...))
		vxWaitIdle()
		vxAssert(bconn.nWrites() == 1, "still forwarded exactly once")
	}
	vxAssert(fconn.nWrites() == 1, "caller gets exactly one reply")
	if fconn.nWrites() != 1 {
		return
	}
	rm, err := vxParse(fconn.writes[0])
	vxAssert(err == nil && rm.Mtype() == erpc.TypeReply && rm.Seq() == 11, "reply to the proxied call")
	switch backendMode {
	case 0:
		vxAssert(rm.StatusOK(), "backend OK => OK")
		rb := vxBodyOf(rm)
		vxAssert(len(rb) == nReply, "backend's body length")
		for k := range rbody {
			if k < len(rb) {
				vxAssert(rb[k] == rbody[k], "backend's body bytes unchanged")
			}
		}
	case 1:
		// the backend answered: its status reaches the caller unchanged, whatever its code
		// (only a failure of the backend connection surfaces as Bad Gateway)
		vxAssert(rm.Status(true).Code() == rcode, "backend's status code unchanged")
		vxAssert(rm.Status(true).Msg() == "backend says", "backend's status message unchanged")
	case 2:
		vxAssert(rm.Status(true).Code() == erpc.CodeBadGateway, "backend connection failure surfaces as Bad Gateway")
	}
	if replyMeta == 1 && backendMode != 2 {
		kv := vxMetaOf(rm)
		vxAssert(vxCountKey(kv, "rk") == 1 && vxGet(kv, "rk") == rmv, "backend's reply metadata (one value per key) unchanged")
	}
	// [C15] a backend failure affects only this call: a later closed-connection
	// error still reads 102
	probe := erpc.NewPeer(erpc.PeerConfig{})
	pconn := newVxConn("x:1", "y:2")
	ps, st := probe.ServeConn(pconn)
	vxAssume(st.OK())
	ps.Close()
	pst := ps.Push("/p", []byte("z"))
	vxAssert(pst.Code() == erpc.CodeConnClosed, "[C15] closed-connection status still 102 after the proxied failure")
	vxCover("c19.call")
}

// VX_C19_ProxyPush: same for PUSH. args: realIPPresent, backendClosed(0/1), nBody
func VX_C19_ProxyPush(args []int) {
	realIP, backendClosed, nBody := args[0], args[1], args[2]
	cli := erpc.NewPeer(erpc.PeerConfig{})
	bconn := newVxConn("proxy:9", "backend:1")
	bsess, st := cli.ServeConn(bconn)
	vxAssume(st.OK())
	fwd := &vxFwd{bsess}
	front := erpc.NewPeer(erpc.PeerConfig{}, NewPlugin(func(*Label) Forwarder { return fwd }))
	fconn := newVxConn("proxy:1", "caller:7")
	body := vxBytes("body", nBody)
	var settings []socket.MessageSetting
	if realIP == 1 {
		settings = append(settings, socket.WithAddMeta(erpc.MetaRealIP, "9.9.9.9:1"))
	}
	if backendClosed == 1 {
		bsess.Close()
	}
	fconn.feed(vxFrame(erpc.TypePush, 4, "/back/push", body, settings...))
	_, st = front.ServeConn(fconn)
	vxAssume(st.OK())
	vxWaitIdle()
	vxAssert(fconn.nWrites() == 0, "a PUSH is never answered")
	if backendClosed == 0 {
		vxAssert(bconn.nWrites() == 1, "push forwarded exactly once")
		if bconn.nWrites() == 1 {
			fm, err := vxParse(bconn.writes[0])
			vxAssert(err == nil && fm.Mtype() == erpc.TypePush && fm.ServiceMethod() == "/back/push", "forwarded push: type and method")
			vxAssert(err != nil || fm.BodyCodec() == 's', "the push is forwarded with the sender's body codec")
			fb := vxBodyOf(fm)
			vxAssert(len(fb) == nBody, "forwarded push: body length")
			for k := range body {
				if k < len(fb) {
					vxAssert(fb[k] == body[k], "forwarded push: body bytes")
				}
			}
			vxAssert(vxCountKey(vxMetaOf(fm), erpc.MetaRealIP) == 1, "forwarded push: exactly one real-IP entry")
		}
	} else {
		vxAssert(bconn.nWrites() == 0, "nothing written to a closed backend")
	}
	probe := erpc.NewPeer(erpc.PeerConfig{})
	pconn := newVxConn("x:1", "y:2")
	ps, st := probe.ServeConn(pconn)
	vxAssume(st.OK())
	ps.Close()
	pst := ps.Push("/p", []byte("z"))
	vxAssert(pst.Code() == erpc.CodeConnClosed, "[C15] closed-connection status still 102 after the proxied failure")
	vxCover("c19.push")
}

func init() { vxRegister("VX_C19_Sequence", VX_C19_Sequence) }

// VX_C19_Sequence: k proxied calls in a row on one caller session, each with a
// solver-chosen backend outcome (OK with body and metadata / application error
// with metadata / OK with an empty body / sender-side error code): every
// caller reply equals what the backend answered for that very call - nothing
// of an earlier proxied call shows. args: k
func VX_C19_Sequence(args []int) {
	k := args[0]
	cli := erpc.NewPeer(erpc.PeerConfig{})
	bconn := newVxConn("proxy:9", "backend:1")
	bsess, st := cli.ServeConn(bconn)
	vxAssume(st.OK())
	fwd := &vxFwd{bsess}
	front := erpc.NewPeer(erpc.PeerConfig{}, NewPlugin(func(*Label) Forwarder { return fwd }))
	fconn := newVxConn("proxy:1", "caller:7")
	_, st = front.ServeConn(fconn)
	vxAssume(st.OK())
	vxWaitIdle()
	for j := 0; j < k; j++ {
		tag := string(rune('a' + j))
		seq := int32(20 + j)
		kind := vxChoose("outcome", 4)
		fconn.feed(vxFrame(erpc.TypeCall, seq, "/back/"+tag, []byte("req-"+tag), socket.WithAddMeta("q", tag)))
		vxWaitIdle()
		vxAssert(bconn.nWrites() == j+1, "each call is forwarded exactly once")
		if bconn.nWrites() != j+1 {
			return
		}
		fm, err := vxParse(bconn.writes[j])
		vxAssert(err == nil && fm.ServiceMethod() == "/back/"+tag && string(vxBodyOf(fm)) == "req-"+tag, "forwarded with its own method and body")
		if err != nil {
			return
		}
		kv := vxMetaOf(fm)
		vxAssert(vxGet(kv, "q") == tag && vxCountKey(kv, "q") == 1 && vxCountKey(kv, erpc.MetaRealIP) == 1, "forwarded with its own metadata and one real-IP entry")
		var rs []socket.MessageSetting
		body := []byte("ans-" + tag)
		wantCode := int32(0)
		switch kind {
		case 1:
			rs = append(rs, socket.WithStatus(erpc.NewStatus(1400+int32(j), "backend says "+tag, "")))
			wantCode = 1400 + int32(j)
			body = nil
		case 2:
			body = nil
		case 3:
			rs = append(rs, socket.WithStatus(erpc.NewStatus(104, "write failed at the backend "+tag, "")))
			wantCode = 104 // the backend answered: its status reaches the caller unchanged
			body = nil
		}
		rs = append(rs, socket.WithAddMeta("rk", "rv-"+tag))
		bconn.feed(vxFrame(erpc.TypeReply, fm.Seq(), "", body, rs...))
		vxWaitIdle()
		vxAssert(fconn.nWrites() == j+1, "[C03] the caller gets exactly one reply per call")
		if fconn.nWrites() != j+1 {
			return
		}
		rm, err := vxParse(fconn.writes[j])
		vxAssert(err == nil && rm.Seq() == seq && rm.Status(true).Code() == wantCode, "the caller receives the backend's status for this call, unchanged")
		if err != nil {
			return
		}
		vxAssert(string(vxBodyOf(rm)) == string(body), "the caller receives the backend's body bytes for this call, nothing of an earlier one")
		rkv := vxMetaOf(rm)
		vxAssert(vxCountKey(rkv, "rk") == 1 && vxGet(rkv, "rk") == "rv-"+tag, "the caller receives the backend's reply metadata for this call (one value per key)")
	}
	vxCover("c19.sequence")
}

func init() { vxRegister("VX_C19_BackendLoss", VX_C19_BackendLoss) }

// VX_C19_BackendLoss: the forwarder is a dialled session with redial enabled
// (the shipped way of keeping a backend link alive). The backend connection is
// lost after the forwarded call was written / before anything was forwarded:
// the request reaches the backend side at most once per proxied request, and
// the caller gets exactly one reply (502 when the forwarded call was lost).
// args: when(0 lost after the call was written, 1 lost before the call arrives), kind(0 CALL, 1 PUSH)
func VX_C19_BackendLoss(args []int) {
	when, kind := args[0], args[1]
	var conns []*vxConn
	erpc.VXSetDialHook(func(addr string) (net.Conn, error) {
		c := newVxConn("proxy:9", addr)
		conns = append(conns, c)
		return c, nil
	})
	defer erpc.VXSetDialHook(nil)
	cli := erpc.NewPeer(erpc.PeerConfig{RedialTimes: 2, RedialInterval: vxRedialEvery})
	bsess, st := cli.Dial("backend:1")
	vxAssume(st.OK())
	vxWaitIdle()
	front := erpc.NewPeer(erpc.PeerConfig{}, NewPlugin(func(*Label) Forwarder { return &vxFwd{bsess} }))
	fconn := newVxConn("proxy:1", "caller:7")
	_, st = front.ServeConn(fconn)
	vxAssume(st.OK())
	if when == 1 {
		conns[0].end()
		vxWaitIdle()
	}
	mtype := erpc.TypeCall
	if kind == 1 {
		mtype = erpc.TypePush
	}
	fconn.feed(vxFrame(mtype, 11, "/back/end", []byte("once")))
	vxWaitIdle()
	forwarded := func() int {
		n := 0
		for _, c := range conns {
			for _, w := range c.writes {
				if m, err := vxParse(w); err == nil && m.ServiceMethod() == "/back/end" {
					n++
				}
			}
		}
		return n
	}
	vxAssert(forwarded() == 1, "forwarded exactly once to the backend")
	if when == 0 && kind == 0 {
		// the backend received the call and its connection dies before it answers
		conns[0].end()
		vxWaitIdle()
		vxAssert(forwarded() == 1, "a proxied call whose backend connection was lost after it was sent is not sent again")
		vxAssert(fconn.nWrites() == 1, "[C02] the caller gets exactly one reply")
		if fconn.nWrites() == 1 {
			rm, err := vxParse(fconn.writes[0])
			vxAssert(err == nil && rm.Seq() == 11 && rm.Status(true).Code() == erpc.CodeBadGateway, "backend connection failure surfaces as Bad Gateway")
		}
	} else if kind == 0 {
		// redialled link: the backend answers
		last := conns[len(conns)-1]
		vxAssert(last.nWrites() == 1, "forwarded on the re-established link")
		if last.nWrites() == 1 {
			fm, _ := vxParse(last.writes[0])
			last.feed(vxFrame(erpc.TypeReply, fm.Seq(), "", []byte("pong")))
			vxWaitIdle()
			vxAssert(fconn.nWrites() == 1, "[C02] the caller gets exactly one reply")
			if fconn.nWrites() == 1 {
				rm, err := vxParse(fconn.writes[0])
				vxAssert(err == nil && rm.StatusOK() && string(vxBodyOf(rm)) == "pong", "backend's reply reaches the caller")
			}
		}
	}
	vxCover("c19.backend-loss")
}

func init() { vxRegister("VX_C19_RealIPAfterSetID", VX_C19_RealIPAfterSetID) }

// VX_C19_RealIPAfterSetID: the caller's session on the proxy has been given
// an application id (a login handler or accept plugin called SetID): the real
// IP added to a forwarded CALL / PUSH is still the caller's network address,
// added exactly once, and an existing real IP is kept. args: kind(0 CALL, 1 PUSH), realIPPresent(0/1)
func VX_C19_RealIPAfterSetID(args []int) {
	kind, present := args[0], args[1]
	cli := erpc.NewPeer(erpc.PeerConfig{})
	bconn := newVxConn("proxy:9", "backend:1")
	bsess, st := cli.ServeConn(bconn)
	vxAssume(st.OK())
	var labels []string
	front := erpc.NewPeer(erpc.PeerConfig{}, NewPlugin(func(l *Label) Forwarder {
		labels = append(labels, l.SessionID+"|"+l.RealIP)
		return &vxFwd{bsess}
	}))
	fconn := newVxConn("proxy:1", "caller:7")
	fs, st := front.ServeConn(fconn)
	vxAssume(st.OK())
	fs.SetID("user:alice")
	var settings []socket.MessageSetting
	if present == 1 {
		settings = append(settings, socket.WithAddMeta(erpc.MetaRealIP, "9.9.9.9:1"))
	}
	mtype := erpc.TypeCall
	if kind == 1 {
		mtype = erpc.TypePush
	}
	fconn.feed(vxFrame(mtype, 11, "/back/end", []byte("b"), settings...))
	vxWaitIdle()
	vxAssert(bconn.nWrites() == 1, "forwarded exactly once to the backend")
	if bconn.nWrites() != 1 {
		return
	}
	fm, err := vxParse(bconn.writes[0])
	vxAssert(err == nil && fm.ServiceMethod() == "/back/end", "forwarded frame parses")
	kv := vxMetaOf(fm)
	want := "caller:7"
	if present == 1 {
		want = "9.9.9.9:1"
	}
	vxAssert(vxCountKey(kv, erpc.MetaRealIP) == 1 && vxGet(kv, erpc.MetaRealIP) == want, "the real IP on the forwarded message is the caller's address (or the one already present), whatever id the caller's session carries")
	vxAssert(len(labels) == 1 && labels[0] == "user:alice|"+want, "the label handed to the forwarder chooser carries the session id and the caller's real IP")
	vxCover("c19.realip-setid")
}

func init() { vxRegister("VX_C19_OverlappingProxied", VX_C19_OverlappingProxied) }

// vxHold delays the first reply the gateway writes (a slow pre-write hook).
type vxHold struct {
	gate chan struct{}
	n    int
}

func (h *vxHold) Name() string { return "vxhold" }
func (h *vxHold) PreWriteReply(erpc.WriteCtx) *erpc.Status {
	h.n++
	if h.n == 1 {
		<-h.gate
	}
	return nil
}

// VX_C19_OverlappingProxied: two proxied calls overlap in the gateway: the
// first one's backend reply has arrived and its handler has returned, but its
// reply to the caller is still held up when the second call is forwarded,
// answered by the backend and replied. Each caller receives exactly its own
// backend's body bytes. args: nA, nB (lengths of the two backend replies)
func VX_C19_OverlappingProxied(args []int) {
	vxPoolMode(1)
	cli := erpc.NewPeer(erpc.PeerConfig{})
	bconn := newVxConn("proxy:9", "backend:1")
	bsess, st := cli.ServeConn(bconn)
	vxAssume(st.OK())
	fwd := &vxFwd{bsess}
	hold := &vxHold{gate: make(chan struct{})}
	front := erpc.NewPeer(erpc.PeerConfig{}, NewPlugin(func(*Label) Forwarder { return fwd }), hold)
	fconn := newVxConn("proxy:1", "caller:7")
	_, st = front.ServeConn(fconn)
	vxAssume(st.OK())
	ra, rb := vxBytes("ra", args[0]), vxBytes("rb", args[1])
	// call A: forwarded, answered by the backend, its reply to the caller held up
	fconn.feed(vxFrame(erpc.TypeCall, 11, "/back/a", []byte("qa")))
	vxWaitIdle()
	vxAssert(bconn.nWrites() == 1, "A forwarded exactly once")
	fa, err := vxParse(bconn.writes[0])
	vxAssume(err == nil)
	bconn.feed(vxFrame(erpc.TypeReply, fa.Seq(), "", ra))
	vxWaitIdle()
	vxAssert(hold.n == 1 && fconn.nWrites() == 0, "A's reply is being held up by the pre-write hook")
	// call B: complete round trip meanwhile
	fconn.feed(vxFrame(erpc.TypeCall, 12, "/back/b", []byte("qb")))
	vxWaitIdle()
	vxAssert(bconn.nWrites() == 2, "B forwarded exactly once")
	fb, err := vxParse(bconn.writes[1])
	vxAssume(err == nil)
	bconn.feed(vxFrame(erpc.TypeReply, fb.Seq(), "", rb))
	vxWaitIdle()
	vxAssert(fconn.nWrites() == 1, "B's caller is answered while A's reply is still held up")
	close(hold.gate)
	vxWaitIdle()
	vxAssert(fconn.nWrites() == 2, "both callers answered exactly once")
	for _, w := range fconn.writes {
		m, err := vxParse(w)
		vxAssert(err == nil && m.Mtype() == erpc.TypeReply && m.StatusOK(), "OK reply")
		if err != nil {
			continue
		}
		got := vxBodyOf(m)
		want := ra
		if m.Seq() == 12 {
			want = rb
		}
		vxAssert(len(got) == len(want), "each caller receives its own backend's body length")
		for k := range want {
			if k < len(got) {
				vxAssert(got[k] == want[k], "each caller receives its own backend's body bytes, whatever other proxied calls were in flight")
			}
		}
	}
	vxCover("c19.overlapping")
}

func init() { vxRegister("VX_C19_PoolForwarderDown", VX_C19_PoolForwarderDown) }

// vxDownFwd is a forwarder that cannot obtain a backend connection (what a
// connection-pool forwarder returns when the backend is down): the call is
// never sent; the failure comes back as a local command with a status of the
// connection error range.
type vxDownFwd struct{ code int32 }

func (f *vxDownFwd) Call(uri string, arg interface{}, result interface{}, setting ...erpc.MessageSetting) erpc.CallCmd {
	return erpc.NewFakeCallCmd(uri, arg, result, erpc.NewStatus(f.code, "no connection to the backend", "connection refused"))
}
func (f *vxDownFwd) Push(uri string, arg interface{}, setting ...erpc.MessageSetting) *erpc.Status {
	return erpc.NewStatus(f.code, "no connection to the backend", "connection refused")
}

// VX_C19_PoolForwarderDown: the chosen forwarder cannot reach its backend at
// all (the call is never sent; it reports a status of the connection error
// range, code symbolic in 100..199): the proxied call surfaces as Bad Gateway.
// args: kind(0 CALL, 1 PUSH)
func VX_C19_PoolForwarderDown(args []int) {
	code := 100 + vxInt32("code")%100
	vxAssume(code >= 100 && code <= 199)
	fwd := &vxDownFwd{code: code}
	front := erpc.NewPeer(erpc.PeerConfig{}, NewPlugin(func(*Label) Forwarder { return fwd }))
	fconn := newVxConn("proxy:1", "caller:7")
	_, st := front.ServeConn(fconn)
	vxAssume(st.OK())
	if args[0] == 0 {
		fconn.feed(vxFrame(erpc.TypeCall, 11, "/back/end", []byte("q")))
		vxWaitIdle()
		vxAssert(fconn.nWrites() == 1, "[C03] the caller is answered")
		if fconn.nWrites() == 1 {
			rm, err := vxParse(fconn.writes[0])
			vxAssert(err == nil && rm.Status(true).Code() == erpc.CodeBadGateway, "a backend connection failure reported by the forwarder itself (the call was never sent) surfaces as Bad Gateway")
		}
	} else {
		fconn.feed(vxFrame(erpc.TypePush, 12, "/back/push", []byte("q")))
		vxWaitIdle()
		vxAssert(fconn.nWrites() == 0, "a PUSH is never answered")
	}
	vxCover("c19.pool-forwarder-down")
}
