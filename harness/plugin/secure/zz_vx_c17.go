package secure

import (
	"bytes"
	"errors"
	"net"

	erpc "github.com/henrylee2cn/erpc/v6"
)

func init() {
	vxRegister("VX_C17_Call", VX_C17_Call)
	vxRegister("VX_C17_Push", VX_C17_Push)
}

const vxKeyA = "0123456789abcdef"
const vxKeyB = "fedcba9876543210"

func vxHasSecure(m erpc.Message) bool {
	return string(m.Meta().Peek(SECURE_META_KEY)) == "true"
}

// vxAudit is an unrelated plugin registered after the secure plugin; it
// implements the same body hooks and always agrees.
type vxAudit struct{ seen int }

func (a *vxAudit) Name() string                                      { return "vxaudit" }
func (a *vxAudit) PostReadCallBody(erpc.ReadCtx) *erpc.Status         { a.seen++; return nil }
func (a *vxAudit) PostReadPushBody(erpc.ReadCtx) *erpc.Status         { a.seen++; return nil }
func (a *vxAudit) PostReadReplyBody(erpc.ReadCtx) *erpc.Status        { a.seen++; return nil }
func (a *vxAudit) PreWriteCall(erpc.WriteCtx) *erpc.Status            { return nil }
func (a *vxAudit) PreWriteReply(erpc.WriteCtx) *erpc.Status           { return nil }

func vxPlugins(code int32, key string, audit bool) []erpc.Plugin {
	ps := []erpc.Plugin{NewPlugin(code, key)}
	if audit {
		ps = append(ps, &vxAudit{})
	}
	return ps
}

// VX_C17_Call: client and server peers with the secure plugin; the harness
// carries the frames between two scripted connections and inspects them.
// args: secureMark(0 absent, 1 true), accept(0 absent, 1 "true", 2 "false"), sameKey(0/1), nBody[, otherPluginAfter(0/1)[, explicitOKStatus(0/1)[, nilResult(0/1)]]]
func VX_C17_Call(args []int) {
	mark, accept, sameKey, nBody := args[0], args[1], args[2], args[3]
	skey := vxKeyA
	if sameKey == 0 {
		skey = vxKeyB
	}
	audit := len(args) > 4 && args[4] == 1
	cli := erpc.NewPeer(erpc.PeerConfig{DefaultBodyCodec: "protobuf"}, vxPlugins(10001, vxKeyA, audit)...)
	srv := erpc.NewPeer(erpc.PeerConfig{DefaultBodyCodec: "protobuf"}, vxPlugins(10002, skey, audit)...)
	arg := vxBytes("arg", nBody)
	result := vxBytes("res", nBody)
	argCopy := append([]byte{}, arg...)
	resCopy := append([]byte{}, result...)
	handled := 0
	var seen []byte
	srv.SetUnknownCall(func(ctx erpc.UnknownCallCtx) (interface{}, *erpc.Status) {
		handled++
		seen = append([]byte{}, ctx.InputBodyBytes()...)
		if len(args) > 5 && args[5] == 1 {
			return result, erpc.NewStatus(erpc.CodeOK, "", "") // success reported with an explicit OK status
		}
		return result, nil
	})
	cconn := newVxConn("cli:1", "srv:1")
	sconn := newVxConn("srv:1", "cli:1")
	cs, st := cli.ServeConn(cconn)
	vxAssume(st.OK())
	_, st = srv.ServeConn(sconn)
	vxAssume(st.OK())
	var settings []erpc.MessageSetting
	if mark == 1 {
		settings = append(settings, WithSecureMeta())
	}
	switch accept {
	case 1:
		settings = append(settings, WithAcceptSecureMeta(true))
	case 2:
		settings = append(settings, WithAcceptSecureMeta(false))
	}
	var got []byte
	nilResult := len(args) > 6 && args[6] == 1 // the caller is not interested in the result body (nil result)
	var resultArg interface{} = &got
	if nilResult {
		resultArg = nil
	}
	cmd := cs.AsyncCall("/secret/op", arg, resultArg, make(chan erpc.CallCmd, 1), settings...)
	vxAssert(cconn.nWrites() == 1, "call written")
	if cconn.nWrites() != 1 {
		return
	}
	req := cconn.writes[0]
	if mark == 1 {
		vxAssert(!vxMentions(req, argCopy), "argument of a secure call does not appear in clear on the wire")
		vxCover("c17.encrypted-request")
	} else {
		rm, err := vxParse(req)
		vxAssert(err == nil && bytes.Equal(vxBodyOf(rm), argCopy), "unmarked call passes unchanged")
	}
	sconn.feed(req)
	vxWaitIdle()
	vxAssert(sconn.nWrites() == 1, "[C03] server answered once")
	if sconn.nWrites() != 1 {
		return
	}
	rep := sconn.writes[0]
	repMsg, err := vxParse(rep)
	vxAssert(err == nil, "reply parses")
	if mark == 1 && sameKey == 0 {
		vxAssert(handled == 0, "different key: handler not invoked")
		vxAssert(repMsg.Status(true).Code() == 10002, "different key: non-OK status with the configured code")
		vxCover("c17.wrong-key")
	} else {
		vxAssert(handled == 1, "handler invoked")
		vxAssert(bytes.Equal(seen, argCopy), "handler receives the original argument")
		wantEnc := mark == 1 || accept == 1
		if mark == 1 && accept == 2 {
			// an encrypted request that explicitly declines an encrypted reply:
			// the statement says "whenever the request was encrypted"
			vxAssert(vxHasSecure(repMsg) && !vxMentions(rep, resCopy), "reply to an encrypted request that sent X-Accept-Secure:false is encrypted")
		} else if wantEnc {
			vxAssert(vxHasSecure(repMsg), "reply is marked secure when the request was encrypted or asked for an encrypted reply")
			vxAssert(!vxMentions(rep, resCopy), "result does not appear in clear on the wire")
			vxCover("c17.encrypted-reply")
		} else {
			vxAssert(bytes.Equal(vxBodyOf(repMsg), resCopy), "unmarked reply passes unchanged")
		}
	}
	cconn.feed(rep)
	vxWaitIdle()
	done := false
	select {
	case <-cmd.Done():
		done = true
	default:
	}
	vxAssert(done, "[C02] call completed")
	vxAssert(done, "a call through the secure plugin completes: its result or a status is delivered to the caller")
	if nilResult {
		if done && sameKey == 1 {
			vxAssert(cmd.StatusOK(), "caller that asked for no result body sees OK")
		}
		vxCover("c17.call")
		return
	}
	if done && mark == 0 && accept == 1 && sameKey == 0 {
		// the reply was encrypted with a key the caller does not have
		vxAssert(!cmd.StatusOK(), "different key on the caller's side: a non-OK status is reported for the encrypted reply")
		vxAssert(len(resCopy) == 0 || !bytes.Equal(got, resCopy), "different key on the caller's side: the result is not delivered")
		vxCover("c17.wrong-key-reply")
	} else if done && !(mark == 1 && sameKey == 0) {
		vxAssert(cmd.StatusOK(), "caller sees OK")
		vxAssert(bytes.Equal(got, resCopy), "caller receives the original result")
	}
	vxCover("c17.call")
}

// VX_C17_Push: a secure push delivers the original argument; with a different
// key the handler is not invoked. args: secureMark, sameKey, nBody[, otherPluginAfter(0/1)]
func VX_C17_Push(args []int) {
	mark, sameKey, nBody := args[0], args[1], args[2]
	skey := vxKeyA
	if sameKey == 0 {
		skey = vxKeyB
	}
	audit := len(args) > 3 && args[3] == 1
	cli := erpc.NewPeer(erpc.PeerConfig{DefaultBodyCodec: "protobuf"}, vxPlugins(10001, vxKeyA, audit)...)
	srv := erpc.NewPeer(erpc.PeerConfig{DefaultBodyCodec: "protobuf"}, vxPlugins(10002, skey, audit)...)
	arg := vxBytes("arg", nBody)
	argCopy := append([]byte{}, arg...)
	handled := 0
	var seen []byte
	srv.SetUnknownPush(func(ctx erpc.UnknownPushCtx) *erpc.Status {
		handled++
		seen = append([]byte{}, ctx.InputBodyBytes()...)
		return nil
	})
	cconn := newVxConn("cli:1", "srv:1")
	sconn := newVxConn("srv:1", "cli:1")
	cs, st := cli.ServeConn(cconn)
	vxAssume(st.OK())
	_, st = srv.ServeConn(sconn)
	vxAssume(st.OK())
	var settings []erpc.MessageSetting
	if mark == 1 {
		settings = append(settings, WithSecureMeta())
	}
	pst := cs.Push("/secret/push", arg, settings...)
	vxAssert(pst.OK() && cconn.nWrites() == 1, "push written")
	if cconn.nWrites() != 1 {
		return
	}
	if mark == 1 {
		vxAssert(!vxMentions(cconn.writes[0], argCopy), "argument of a secure push does not appear in clear on the wire")
	}
	sconn.feed(cconn.writes[0])
	vxWaitIdle()
	if mark == 1 && sameKey == 0 {
		vxAssert(handled == 0, "different key: push handler not invoked")
	} else {
		vxAssert(handled == 1 && bytes.Equal(seen, argCopy), "push handler receives the original argument")
	}
	vxCover("c17.push")
}

func init() { vxRegister("VX_C17_PushRedial", VX_C17_PushRedial) }

// VX_C17_PushRedial: a secure push issued while the connection is down is
// written after a successful redial; the handler must still receive the
// original argument (the body is encrypted exactly once).
// args: kind(0 push, 1 call), nBody
func VX_C17_PushRedial(args []int) {
	kind, nBody := args[0], args[1]
	cli := erpc.NewPeer(erpc.PeerConfig{DefaultBodyCodec: "protobuf", RedialTimes: 1, RedialInterval: vxRedialEvery}, NewPlugin(10001, vxKeyA))
	srv := erpc.NewPeer(erpc.PeerConfig{DefaultBodyCodec: "protobuf"}, NewPlugin(10002, vxKeyA))
	arg := vxBytes("arg", nBody)
	argCopy := append([]byte{}, arg...)
	handled := 0
	var seen []byte
	srv.SetUnknownPush(func(ctx erpc.UnknownPushCtx) *erpc.Status {
		handled++
		seen = append([]byte{}, ctx.InputBodyBytes()...)
		return nil
	})
	srv.SetUnknownCall(func(ctx erpc.UnknownCallCtx) (interface{}, *erpc.Status) {
		handled++
		seen = append([]byte{}, ctx.InputBodyBytes()...)
		return []byte("r"), nil
	})
	serverUp := true
	var conns []*vxConn
	erpc.VXSetDialHook(func(addr string) (net.Conn, error) {
		if !serverUp {
			return nil, errors.New("connection refused")
		}
		c := newVxConn("cli:1", addr)
		conns = append(conns, c)
		return c, nil
	})
	defer erpc.VXSetDialHook(nil)
	cs, st := cli.Dial("srv:1")
	vxAssume(st.OK())
	vxWaitIdle()
	// the server goes away: redial attempts are exhausted
	serverUp = false
	conns[0].end()
	vxWaitIdle()
	vxAssert(len(conns) == 1, "no connection while the server is down")
	// the server is back; a secure message is sent on the broken session
	serverUp = true
	if kind == 0 {
		pst := cs.Push("/secret/push", arg, WithSecureMeta())
		vxAssert(pst.OK(), "push succeeds after the redial")
	} else {
		cs.AsyncCall("/secret/call", arg, new([]byte), make(chan erpc.CallCmd, 1), WithSecureMeta())
	}
	vxAssert(len(conns) == 2 && conns[1].nWrites() == 1, "message written once on the new connection")
	if len(conns) != 2 || conns[1].nWrites() != 1 {
		return
	}
	frame := conns[1].writes[0]
	vxAssert(!vxMentions(frame, argCopy), "argument does not appear in clear on the wire")
	sconn := newVxConn("srv:1", "cli:1")
	_, st = srv.ServeConn(sconn)
	vxAssume(st.OK())
	sconn.feed(frame)
	vxWaitIdle()
	vxAssert(handled == 1, "handler invoked once")
	vxAssert(bytes.Equal(seen, argCopy), "handler receives the original argument after a redial")
	vxCover("c17.redial")
}

func init() { vxRegister("VX_C17_Sequence", VX_C17_Sequence) }

// VX_C17_Sequence: on one connection a secure call is followed by an unmarked
// one: the unmarked message passes unchanged in both directions whatever the
// earlier call did. args: sameKey(0/1), sessionData(0/1: the serving session carries application data in its Swap), nBody
func VX_C17_Sequence(args []int) {
	sameKey, sessData, nBody := args[0], args[1], args[2]
	skey := vxKeyA
	if sameKey == 0 {
		skey = vxKeyB
	}
	cli := erpc.NewPeer(erpc.PeerConfig{DefaultBodyCodec: "protobuf"}, NewPlugin(10001, vxKeyA))
	srv := erpc.NewPeer(erpc.PeerConfig{DefaultBodyCodec: "protobuf"}, NewPlugin(10002, skey))
	arg1 := vxBytes("arg1", nBody)
	arg2 := vxBytes("arg2", nBody)
	res2 := vxBytes("res2", nBody)
	a2, r2 := append([]byte{}, arg2...), append([]byte{}, res2...)
	handled := 0
	var seen []byte
	srv.SetUnknownCall(func(ctx erpc.UnknownCallCtx) (interface{}, *erpc.Status) {
		handled++
		seen = append([]byte{}, ctx.InputBodyBytes()...)
		return res2, nil
	})
	cconn := newVxConn("cli:1", "srv:1")
	sconn := newVxConn("srv:1", "cli:1")
	cs, st := cli.ServeConn(cconn)
	vxAssume(st.OK())
	ss, st := srv.ServeConn(sconn)
	vxAssume(st.OK())
	if sessData == 1 {
		ss.Swap().Store("uid", "u-1")
	}
	// 1: secure call
	var got1 []byte
	cs.AsyncCall("/op", arg1, &got1, make(chan erpc.CallCmd, 1), WithSecureMeta())
	vxAssume(cconn.nWrites() == 1)
	sconn.feed(cconn.writes[0])
	vxWaitIdle()
	vxAssert(sconn.nWrites() == 1, "[C03] first call answered once")
	h1 := handled
	vxAssert((sameKey == 1) == (h1 == 1), "secure call handled iff the keys match")
	// 2: unmarked call
	var got2 []byte
	cmd2 := cs.AsyncCall("/op", arg2, &got2, make(chan erpc.CallCmd, 1))
	vxAssume(cconn.nWrites() == 2)
	rm, err := vxParse(cconn.writes[1])
	vxAssert(err == nil && !vxHasSecure(rm) && bytes.Equal(vxBodyOf(rm), a2), "unmarked call after a secure one goes out unchanged")
	sconn.feed(cconn.writes[1])
	vxWaitIdle()
	vxAssert(sconn.nWrites() == 2, "[C03] second call answered once")
	if sconn.nWrites() != 2 {
		return
	}
	vxAssert(handled == h1+1 && bytes.Equal(seen, a2), "unmarked call after a secure one reaches its handler with the original argument")
	rep, err := vxParse(sconn.writes[1])
	vxAssert(err == nil && rep.StatusOK(), "unmarked call after a secure one is answered OK")
	vxAssert(err == nil && !vxHasSecure(rep) && bytes.Equal(vxBodyOf(rep), r2), "reply to an unmarked call passes unchanged (not encrypted because of an earlier secure call)")
	cconn.feed(sconn.writes[1])
	vxWaitIdle()
	select {
	case <-cmd2.Done():
		vxAssert(cmd2.StatusOK() && bytes.Equal(got2, r2), "caller of the unmarked call receives the original result")
	default:
		vxFail("[C02] second call completed")
	}
	vxCover("c17.sequence")
}

func init() { vxRegister("VX_C17_TypedArgMismatch", VX_C17_TypedArgMismatch) }

func VxTypedSecret(ctx erpc.CallCtx, arg *int32) ([]byte, *erpc.Status) {
	return []byte("ok"), nil
}

// VX_C17_TypedArgMismatch: a secure call whose decrypted argument does not
// fit the typed handler's parameter is answered with an error; the reply frame
// (status, metadata, body) must not carry the argument in clear.
// args: nSecret (symbolic letters inside the argument)
func VX_C17_TypedArgMismatch(args []int) {
	cli := erpc.NewPeer(erpc.PeerConfig{DefaultBodyCodec: "protobuf"}, NewPlugin(10001, vxKeyA))
	srv := erpc.NewPeer(erpc.PeerConfig{DefaultBodyCodec: "protobuf"}, NewPlugin(10002, vxKeyA))
	srv.RouteCallFunc(VxTypedSecret)
	secret := vxString("s", args[0])
	for k := 0; k < len(secret); k++ {
		vxAssume(secret[k] >= 'a' && secret[k] <= 'z')
	}
	secret = "TOPSECRET" + secret
	arg := []byte(secret) // plain bytes, while the handler takes a number
	cconn := newVxConn("cli:1", "srv:1")
	sconn := newVxConn("srv:1", "cli:1")
	cs, st := cli.ServeConn(cconn)
	vxAssume(st.OK())
	_, st = srv.ServeConn(sconn)
	vxAssume(st.OK())
	cmd := cs.AsyncCall("/vx_typed_secret", arg, new([]byte), make(chan erpc.CallCmd, 1), WithSecureMeta())
	vxAssert(cconn.nWrites() == 1, "call written")
	if cconn.nWrites() != 1 {
		return
	}
	vxAssert(!vxMentions(cconn.writes[0], []byte(secret)), "argument of a secure call does not appear in clear on the wire")
	sconn.feed(cconn.writes[0])
	vxWaitIdle()
	vxAssert(sconn.nWrites() == 1, "[C03] server answered once")
	if sconn.nWrites() != 1 {
		return
	}
	rep := sconn.writes[0]
	m, err := vxParse(rep)
	vxAssert(err == nil && !m.StatusOK(), "[C04] an argument that does not fit is answered with an error status")
	vxAssert(!vxMentions(rep, []byte(secret)), "the error reply to a secure call does not carry the argument in clear")
	cconn.feed(rep)
	vxWaitIdle()
	select {
	case <-cmd.Done():
	default:
		vxAssert(false, "[C02] call completed")
	}
	vxCover("c17.typed-mismatch")
}

func init() { vxRegister("VX_C17_RouteLevel", VX_C17_RouteLevel) }

var vxVaultSeen [][]byte

func VxVaultOp(ctx erpc.CallCtx, arg *[]byte) ([]byte, *erpc.Status) {
	vxVaultSeen = append(vxVaultSeen, append([]byte{}, *arg...))
	return []byte("RESULT-" + string(*arg)), nil
}

func VxPublicOp(ctx erpc.CallCtx, arg *[]byte) ([]byte, *erpc.Status) {
	return *arg, nil
}

// VX_C17_RouteLevel: the secure plugin is registered on a route group (the
// way the package's own example does) next to sibling groups with other
// plugins; the order of group creation and handler registration varies. A
// secure call into the group is decrypted for the handler and answered
// encrypted; a different key is refused. args: order(0 groups first then handlers, 1 each group with its handlers, 2 sibling created first), sameKey(0/1), nBody
func VX_C17_RouteLevel(args []int) {
	order, sameKey, nBody := args[0], args[1], args[2]
	vxVaultSeen = nil
	ckey := vxKeyA
	if sameKey == 0 {
		ckey = vxKeyB
	}
	cli := erpc.NewPeer(erpc.PeerConfig{DefaultBodyCodec: "protobuf"}, NewPlugin(10001, ckey))
	srv := erpc.NewPeer(erpc.PeerConfig{DefaultBodyCodec: "protobuf"})
	audit := &vxAudit{}
	switch order {
	case 0:
		vault := srv.SubRoute("/vault", NewPlugin(10002, vxKeyA))
		public := srv.SubRoute("/public", audit)
		vault.RouteCallFunc(VxVaultOp)
		public.RouteCallFunc(VxPublicOp)
	case 1:
		vault := srv.SubRoute("/vault", NewPlugin(10002, vxKeyA))
		vault.RouteCallFunc(VxVaultOp)
		public := srv.SubRoute("/public", audit)
		public.RouteCallFunc(VxPublicOp)
	case 2:
		public := srv.SubRoute("/public", audit)
		vault := srv.SubRoute("/vault", NewPlugin(10002, vxKeyA))
		public.RouteCallFunc(VxPublicOp)
		vault.RouteCallFunc(VxVaultOp)
	}
	arg := append([]byte("ARG-"), vxBytes("arg", nBody)...)
	argCopy := append([]byte{}, arg...)
	cconn := newVxConn("cli:1", "srv:1")
	sconn := newVxConn("srv:1", "cli:1")
	cs, st := cli.ServeConn(cconn)
	vxAssume(st.OK())
	_, st = srv.ServeConn(sconn)
	vxAssume(st.OK())
	var got []byte
	cmd := cs.AsyncCall("/vault/vx_vault_op", arg, &got, make(chan erpc.CallCmd, 1), WithSecureMeta())
	vxAssert(cconn.nWrites() == 1, "call written")
	if cconn.nWrites() != 1 {
		return
	}
	vxAssert(!vxMentions(cconn.writes[0], argCopy), "argument of a secure call does not appear in clear on the wire")
	sconn.feed(cconn.writes[0])
	vxWaitIdle()
	vxAssert(sconn.nWrites() == 1, "[C03] server answered once")
	if sconn.nWrites() != 1 {
		return
	}
	rep := sconn.writes[0]
	rm, err := vxParse(rep)
	vxAssert(err == nil, "reply parses")
	if sameKey == 1 {
		vxAssert(len(vxVaultSeen) == 1 && bytes.Equal(vxVaultSeen[0], argCopy), "the handler of a route group with the secure plugin receives the original argument")
		vxAssert(err == nil && vxHasSecure(rm), "the reply to an encrypted request is marked secure")
		vxAssert(!vxMentions(rep, []byte("RESULT-ARG-")), "the result does not appear in clear on the wire")
		cconn.feed(rep)
		vxWaitIdle()
		select {
		case <-cmd.Done():
			vxAssert(cmd.StatusOK() && bytes.Equal(got, append([]byte("RESULT-"), argCopy...)), "the caller receives the original result")
		default:
			vxAssert(false, "[C02] call completed")
		}
	} else {
		vxAssert(len(vxVaultSeen) == 0, "different key: handler not invoked")
		vxAssert(err == nil && rm.Status(true).Code() == 10002, "different key: non-OK status with the configured code")
	}
	vxAssert(audit.seen == 0, "[C09] a sibling group's plugin does not see this group's calls")
	vxCover("c17.route-level")
}
