package pbSubProto

import (
	"bytes"
	"io"

	erpc "github.com/henrylee2cn/erpc/v6"
	"github.com/henrylee2cn/erpc/v6/codec"
	"github.com/henrylee2cn/erpc/v6/mixer/websocket/pbSubProto/pb"
	"github.com/henrylee2cn/erpc/v6/socket"
	"github.com/henrylee2cn/erpc/v6/xfer"
)

func init() {
	vxRegister("VX_C05_WSPbRoundTrip", VX_C05_WSPbRoundTrip)
	vxRegister("VX_C04_WSPbStatus", VX_C04_WSPbStatus)
}

// one websocket message = one Read until EOF
type vxMsgBuf struct {
	data   []byte
	off    int
	writes int
}

func (b *vxMsgBuf) Write(p []byte) (int, error) {
	b.writes++
	b.data = append(b.data, p...)
	return len(p), nil
}
func (b *vxMsgBuf) Read(p []byte) (int, error) {
	if b.off >= len(b.data) {
		return 0, io.EOF
	}
	n := copy(p, b.data[b.off:])
	b.off += n
	return n, nil
}

// VX_C05_WSPbRoundTrip: websocket protobuf sub-protocol round trip.
// args: nMethod, nBody, nMetaV, seqMode(0 symbolic int32, else concrete)
func VX_C05_WSPbRoundTrip(args []int) {
	m := socket.NewMessage()
	var seq int32 = int32(args[3])
	if args[3] == 0 {
		seq = vxInt32("seq")
	}
	mtype := vxByte("mtype")
	method := vxString("method", args[0])
	body := vxBytes("body", args[1])
	mv := vxString("mv", args[2])
	codecID := vxByte("codec")
	m.SetSeq(seq)
	m.SetMtype(mtype)
	m.SetServiceMethod(method)
	m.SetBodyCodec(codecID)
	m.SetBody(body)
	m.Meta().Add("k", mv)
	w := &vxMsgBuf{}
	pf := NewPbSubProtoFunc()
	vxAssume(pf(w).Pack(m) == nil)
	vxAssert(w.writes == 1, "Pack performs exactly one Write")
	vxAssert(int(m.Size()) == len(w.data), "reported size matches the frame")
	got := socket.NewMessage(socket.WithNewBody(func(socket.Header) interface{} { return new([]byte) }))
	vxAssert(pf(w).Unpack(got) == nil, "Unpack of a packed frame succeeds")
	vxAssert(got.Seq() == seq && got.Mtype() == mtype && got.BodyCodec() == codecID, "seq/mtype/codec round trip")
	vxAssert(got.ServiceMethod() == method, "service method round trip")
	vxAssert(string(got.Meta().Peek("k")) == mv, "metadata round trip")
	vxAssert(bytes.Equal(*(got.Body().(*[]byte)), body), "body round trip")
	vxAssert(got.Size() == m.Size(), "size round trip")
	vxCover("c05.wspb.roundtrip")
}

// VX_C04_WSPbStatus: an error reply keeps its status over the websocket
// protobuf sub-protocol. args: none
func VX_C04_WSPbStatus(args []int) {
	m := socket.NewMessage()
	m.SetSeq(5)
	m.SetMtype(erpc.TypeReply)
	code := vxInt32("code")
	vxAssume(code != 0)
	m.SetStatus(erpc.NewStatus(code, "handler failed", ""))
	w := &vxMsgBuf{}
	pf := NewPbSubProtoFunc()
	vxAssume(pf(w).Pack(m) == nil)
	got := socket.NewMessage(socket.WithNewBody(func(socket.Header) interface{} { return new([]byte) }))
	vxAssume(pf(w).Unpack(got) == nil)
	vxAssert(!got.StatusOK() && got.Status(true).Code() == code, "[C04] an error reply's status survives the websocket protobuf sub-protocol")
	vxCover("c04.wspb.status")
}

func init() { vxRegister("VX_C12_WSPbUnregistered", VX_C12_WSPbUnregistered) }

// VX_C12_WSPbUnregistered: a frame of the websocket protobuf sub-protocol that
// names a transfer filter which is not registered (any such id) is refused, not passed through with the filter dropped. args: none
func VX_C12_WSPbUnregistered(args []int) {
	id := vxByte("filter")
	_, regErr := xfer.Get(id)
	vxAssume(regErr != nil) // any id that is not registered in this program
	s := &pb.Payload{Seq: 1, Mtype: 1, ServiceMethod: "/a", XferPipe: []byte{id}, Body: []byte("payload")}
	b, err := codec.ProtoMarshal(s)
	vxAssume(err == nil)
	w := &vxMsgBuf{data: b}
	got := socket.NewMessage(socket.WithNewBody(func(socket.Header) interface{} { return new([]byte) }))
	err = NewPbSubProtoFunc()(w).Unpack(got)
	vxAssert(err != nil, "a pipe naming an unregistered filter is refused rather than passed through (websocket protobuf sub-protocol)")
	vxCover("c12.wspb.unregistered")
}
