package jsonSubProto

import (
	"bytes"
	"fmt"
	"io"

	erpc "github.com/henrylee2cn/erpc/v6"
	"github.com/henrylee2cn/erpc/v6/socket"
	"github.com/henrylee2cn/erpc/v6/xfer"
)

func init() {
	vxRegister("VX_C05_WSJsonRoundTrip", VX_C05_WSJsonRoundTrip)
	vxRegister("VX_C04_WSJsonStatus", VX_C04_WSJsonStatus)
}

type vxMsgBuf struct {
	data   []byte
	off    int
	writes int
}

func (b *vxMsgBuf) Write(p []byte) (int, error) {
	b.writes++
	b.data = append(b.data, p...)
	return len(p), nil
}
func (b *vxMsgBuf) Read(p []byte) (int, error) {
	if b.off >= len(b.data) {
		return 0, io.EOF
	}
	n := copy(p, b.data[b.off:])
	b.off += n
	return n, nil
}

// VX_C05_WSJsonRoundTrip: websocket json sub-protocol round trip on concrete
// text fields (its frame is built with fmt.Sprintf, evaluated natively).
// args: variant
func VX_C05_WSJsonRoundTrip(args []int) {
	m := socket.NewMessage()
	m.SetSeq(int32(args[0]) - 3)
	m.SetMtype(erpc.TypePush)
	m.SetServiceMethod("/a/b_c")
	m.SetBodyCodec('s')
	body := []byte("hello world")
	m.SetBody(body)
	m.Meta().Add("k1", "v1")
	m.Meta().Add("k2", "v 2")
	w := &vxMsgBuf{}
	pf := NewJSONSubProtoFunc()
	vxAssume(pf(w).Pack(m) == nil)
	vxAssert(w.writes == 1, "Pack performs exactly one Write")
	got := socket.NewMessage(socket.WithNewBody(func(socket.Header) interface{} { return new([]byte) }))
	vxAssert(pf(w).Unpack(got) == nil, "Unpack of a packed frame succeeds")
	vxAssert(got.Seq() == m.Seq() && got.Mtype() == erpc.TypePush && got.BodyCodec() == 's', "seq/mtype/codec round trip")
	vxAssert(got.ServiceMethod() == "/a/b_c", "service method round trip")
	vxAssert(bytes.Equal(got.Meta().QueryString(), m.Meta().QueryString()), "metadata round trip")
	vxAssert(bytes.Equal(*(got.Body().(*[]byte)), body), "body round trip")
	vxCover("c05.wsjson.roundtrip")
}

// VX_C04_WSJsonStatus: an error reply keeps its status over the websocket json
// sub-protocol. args: none
func VX_C04_WSJsonStatus(args []int) {
	m := socket.NewMessage()
	m.SetSeq(5)
	m.SetMtype(erpc.TypeReply)
	m.SetStatus(erpc.NewStatus(500, "handler failed", ""))
	w := &vxMsgBuf{}
	pf := NewJSONSubProtoFunc()
	vxAssume(pf(w).Pack(m) == nil)
	got := socket.NewMessage(socket.WithNewBody(func(socket.Header) interface{} { return new([]byte) }))
	vxAssume(pf(w).Unpack(got) == nil)
	vxAssert(!got.StatusOK() && got.Status(true).Code() == 500, "[C04] an error reply's status survives the websocket json sub-protocol")
	vxCover("c04.wsjson.status")
}

func init() { vxRegister("VX_C12_WSJsonUnregistered", VX_C12_WSJsonUnregistered) }

// VX_C12_WSJsonUnregistered: a frame of the websocket json sub-protocol that
// names a transfer filter which is not registered is refused, not passed
// through with the filter dropped (concrete ids: the frame is text). args: id
func VX_C12_WSJsonUnregistered(args []int) {
	_, regErr := xfer.Get(byte(args[0]))
	vxAssume(regErr != nil)
	frame := fmt.Sprintf(`{"seq":1,"mtype":1,"serviceMethod":"/a","meta":"","bodyCodec":115,"body":"payload","xferPipe":[%d]}`, args[0])
	w := &vxMsgBuf{data: []byte(frame)}
	got := socket.NewMessage(socket.WithNewBody(func(socket.Header) interface{} { return new([]byte) }))
	err := NewJSONSubProtoFunc()(w).Unpack(got)
	vxAssert(err != nil, "a pipe naming an unregistered filter is refused rather than passed through (websocket json sub-protocol)")
	vxCover("c12.wsjson.unregistered")
}
