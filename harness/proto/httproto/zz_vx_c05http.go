package httproto

import (
	"bytes"
	"io"

	erpc "github.com/henrylee2cn/erpc/v6"
	"github.com/henrylee2cn/erpc/v6/socket"
)

func init() { vxRegister("VX_C05_HTTPRoundTrip", VX_C05_HTTPRoundTrip) }

type vxHRW struct {
	data   []byte
	off    int
	writes int
}

func (b *vxHRW) Write(p []byte) (int, error) {
	b.writes++
	b.data = append(b.data, p...)
	return len(p), nil
}
func (b *vxHRW) Read(p []byte) (int, error) {
	if b.off >= len(b.data) {
		return 0, io.EOF
	}
	n := copy(p, b.data[b.off:])
	b.off += n
	return n, nil
}

// VX_C05_HTTPRoundTrip: the HTTP-style protocol: a request (CALL) and a
// response (REPLY, OK or with an error status) written back to back decode to
// the same seq, type, method (requests), status (responses), body codec and
// body; metadata is mapped onto HTTP headers and is outside this check.
// args: group(0 body bytes, 1 seq, 2 status code+msg), n
func VX_C05_HTTPRoundTrip(args []int) {
	group, n := args[0], args[1]
	body := []byte("bb")
	seq := int32(9)
	var st *erpc.Status
	switch group {
	case 0:
		body = vxBytes("body", n)
	case 1:
		seq = vxInt32("seq")
	case 2:
		code := vxInt32("code")
		vxAssume(code != 0)
		msg := vxString("msg", n)
		for k := 0; k < len(msg); k++ {
			vxAssume(msg[k] >= 0x20 && msg[k] < 0x7f && msg[k] != '"' && msg[k] != '\\' && msg[k] != '<' && msg[k] != '>' && msg[k] != '&')
		}
		st = erpc.NewStatus(code, msg, "")
	}
	call := socket.NewMessage()
	call.SetSeq(seq)
	call.SetMtype(erpc.TypeCall)
	call.SetBodyCodec('s')
	call.SetServiceMethod("/a/b")
	call.SetBody(body)
	reply := socket.NewMessage()
	reply.SetSeq(seq)
	reply.SetMtype(erpc.TypeReply)
	reply.SetBodyCodec('s')
	reply.SetBody(body)
	if st != nil {
		reply.SetStatus(st)
	}
	w := &vxHRW{}
	pf := NewHTTProtoFunc()
	pw, pr := pf(w), pf(w)
	vxAssume(pw.Pack(call) == nil)
	l1 := len(w.data)
	vxAssume(pw.Pack(reply) == nil)
	vxAssert(w.writes == 2, "one Write per frame")
	vxAssert(int(call.Size()) == l1 && int(reply.Size()) == len(w.data)-l1, "reported size is the frame length")
	newGot := func() socket.Message {
		return socket.NewMessage(socket.WithNewBody(func(socket.Header) interface{} { return new([]byte) }))
	}
	g1 := newGot()
	vxAssert(pr.Unpack(g1) == nil, "request decodes")
	vxAssert(g1.Seq() == seq, "request seq round trip")
	vxAssert(g1.Mtype() == erpc.TypeCall && g1.ServiceMethod() == "/a/b" && g1.BodyCodec() == 's', "request header round trip")
	vxAssert(bytes.Equal(*(g1.Body().(*[]byte)), body), "request body round trip")
	g2 := newGot()
	err := pr.Unpack(g2)
	vxAssert(err == nil, "response decodes")
	vxAssert(g2.Mtype() == erpc.TypeReply && g2.Seq() == seq, "response header round trip")
	if st == nil {
		vxAssert(g2.StatusOK() && g2.BodyCodec() == 's' && bytes.Equal(*(g2.Body().(*[]byte)), body), "[C04] OK response: status and body round trip")
	} else {
		vxAssert(g2.Status(true).Code() == st.Code() && g2.Status(true).Msg() == st.Msg(), "[C04] error response: status round trip")
	}
	// the size reported for the response does not depend on the request that preceded it
	alone := &vxHRW{data: append([]byte{}, w.data[l1:]...)}
	g3 := newGot()
	vxAssert(pf(alone).Unpack(g3) == nil && g3.Size() == g2.Size(), "size reported for a received message depends on that message alone")
	vxAssert(w.off == len(w.data), "both frames consumed exactly")
	vxCover("c05.http.roundtrip")
}
