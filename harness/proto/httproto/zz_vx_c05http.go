package httproto

import (
	"bytes"
	"io"

	erpc "github.com/henrylee2cn/erpc/v6"
	"github.com/henrylee2cn/erpc/v6/xfer/gzip"
	"github.com/henrylee2cn/erpc/v6/socket"
)

func init() { vxRegister("VX_C05_HTTPRoundTrip", VX_C05_HTTPRoundTrip) }

type vxHRW struct {
	data   []byte
	off    int
	writes int
}

func (b *vxHRW) Write(p []byte) (int, error) {
	b.writes++
	b.data = append(b.data, p...)
	return len(p), nil
}
func (b *vxHRW) Read(p []byte) (int, error) {
	if b.off >= len(b.data) {
		return 0, io.EOF
	}
	n := copy(p, b.data[b.off:])
	b.off += n
	return n, nil
}

// VX_C05_HTTPRoundTrip: the HTTP-style protocol: a request (CALL) and a
// response (REPLY, OK or with an error status) written back to back decode to
// the same seq, type, method (requests), status (responses), body codec and
// body; metadata is mapped onto HTTP headers and is outside this check.
// args: group(0 body bytes, 1 seq, 2 status code+msg), n
func VX_C05_HTTPRoundTrip(args []int) {
	group, n := args[0], args[1]
	body := []byte("bb")
	seq := int32(9)
	var st *erpc.Status
	switch group {
	case 0:
		body = vxBytes("body", n)
	case 1:
		seq = vxInt32("seq")
	case 2:
		code := vxInt32("code")
		vxAssume(code != 0)
		msg := vxString("msg", n)
		for k := 0; k < len(msg); k++ {
			vxAssume(msg[k] >= 0x20 && msg[k] < 0x7f && msg[k] != '"' && msg[k] != '\\' && msg[k] != '<' && msg[k] != '>' && msg[k] != '&')
		}
		st = erpc.NewStatus(code, msg, "")
	}
	call := socket.NewMessage()
	call.SetSeq(seq)
	call.SetMtype(erpc.TypeCall)
	call.SetBodyCodec('s')
	call.SetServiceMethod("/a/b")
	call.SetBody(body)
	reply := socket.NewMessage()
	reply.SetSeq(seq)
	reply.SetMtype(erpc.TypeReply)
	reply.SetBodyCodec('s')
	reply.SetBody(body)
	if st != nil {
		reply.SetStatus(st)
	}
	w := &vxHRW{}
	pf := NewHTTProtoFunc()
	pw, pr := pf(w), pf(w)
	vxAssume(pw.Pack(call) == nil)
	l1 := len(w.data)
	vxAssume(pw.Pack(reply) == nil)
	vxAssert(w.writes == 2, "one Write per frame")
	vxAssert(int(call.Size()) == l1 && int(reply.Size()) == len(w.data)-l1, "reported size is the frame length")
	newGot := func() socket.Message {
		return socket.NewMessage(socket.WithNewBody(func(socket.Header) interface{} { return new([]byte) }))
	}
	g1 := newGot()
	vxAssert(pr.Unpack(g1) == nil, "request decodes")
	vxAssert(g1.Seq() == seq, "request seq round trip")
	vxAssert(g1.Mtype() == erpc.TypeCall && g1.ServiceMethod() == "/a/b" && g1.BodyCodec() == 's', "request header round trip")
	vxAssert(bytes.Equal(*(g1.Body().(*[]byte)), body), "request body round trip")
	g2 := newGot()
	err := pr.Unpack(g2)
	vxAssert(err == nil, "response decodes")
	vxAssert(g2.Mtype() == erpc.TypeReply && g2.Seq() == seq, "response header round trip")
	if st == nil {
		vxAssert(g2.StatusOK() && g2.BodyCodec() == 's' && bytes.Equal(*(g2.Body().(*[]byte)), body), "[C04] OK response: status and body round trip")
	} else {
		vxAssert(g2.Status(true).Code() == st.Code() && g2.Status(true).Msg() == st.Msg(), "[C04] error response: status round trip")
	}
	// the size reported for the response does not depend on the request that preceded it
	alone := &vxHRW{data: append([]byte{}, w.data[l1:]...)}
	g3 := newGot()
	vxAssert(pf(alone).Unpack(g3) == nil && g3.Size() == g2.Size(), "size reported for a received message depends on that message alone")
	vxAssert(w.off == len(w.data), "both frames consumed exactly")
	vxCover("c05.http.roundtrip")
}

func init() { vxRegister("VX_C02_HTTPErrorReply", VX_C02_HTTPErrorReply) }

// VX_C02_HTTPErrorReply: over the HTTP-style protocol the peer answers a
// pending call with a "299 Business Error" response whose payload is not a
// well-formed status (truncated / arbitrary bytes): the call completes (with
// an error) instead of hanging, exactly once, and the session ends up working
// or cleanly disconnected. args: nSym (symbolic bytes at the start of the payload)
func VX_C02_HTTPErrorReply(args []int) {
	p := erpc.NewPeer(erpc.PeerConfig{})
	conn := newVxConn("cli:1", "srv:2")
	s, st := p.ServeConn(conn, NewHTTProtoFunc())
	vxAssume(st.OK())
	vxWaitIdle()
	var res []byte
	ch := make(chan erpc.CallCmd, 1)
	cmd := s.AsyncCall("/a/b", []byte("q"), &res, ch)
	vxAssert(conn.nWrites() == 1, "request written")
	payload := append(vxBytes("p", args[0]), []byte(`{"code":"7","msg":`)...)
	seq := cmd.Output().Seq()
	hdr := "HTTP/1.1 299 Business Error\r\nContent-Type: application/json\r\nContent-Length: " + string(rune('0'+len(payload)/10)) + string(rune('0'+len(payload)%10)) +
		"\r\nX-Mtype: 2\r\nX-Seq: " + string(rune('0'+seq)) + "\r\n\r\n"
	conn.feed(append([]byte(hdr), payload...))
	vxWaitIdle()
	done := false
	select {
	case <-cmd.Done():
		done = true
	default:
	}
	vxAssert(done, "the call completes once its (malformed) reply has arrived, without any further event")
	conn.end()
	vxWaitIdle()
	vxAssert(len(ch) == 1, "delivered exactly once")
	if done {
		vxAssert(!cmd.StatusOK(), "a reply that is not a well-formed status is not reported as OK")
	}
	vxAssert(vxBlockedThreads() == 0, "nobody left blocked")
	vxCover("c02.http.error-reply")
}

func init() {
	vxRegister("VX_C05_HTTPGzipStream", VX_C05_HTTPGzipStream)
	gzip.Reg('g', "gzip", 5)
}

// VX_C05_HTTPGzipStream: three responses back to back over the HTTP-style
// protocol - an OK reply through the gzip filter, an error reply through the
// gzip filter, a plain OK reply - decode to the same frames, the stream stays
// in sync (real compress/gzip interpreted; statuses concrete). args: nBody
func VX_C05_HTTPGzipStream(args []int) {
	vxStepBudget(60)
	body := make([]byte, 0, args[0])
	for len(body) < args[0] {
		body = append(body, []byte("payload payload payload ")...)
	}
	body = body[:args[0]]
	mk := func(seq int32, pipe bool, st *erpc.Status) socket.Message {
		m := socket.NewMessage()
		m.SetSeq(seq)
		m.SetMtype(erpc.TypeReply)
		m.SetBodyCodec('s')
		m.SetBody(body)
		if pipe {
			m.XferPipe().Append('g')
		}
		if st != nil {
			m.SetStatus(st)
		}
		return m
	}
	w := &vxHRW{}
	pf := NewHTTProtoFunc()
	pw, pr := pf(w), pf(w)
	msgs := []socket.Message{mk(11, true, nil), mk(12, true, erpc.NewStatus(1429, "quota exceeded", "")), mk(13, false, nil)}
	for _, m := range msgs {
		vxAssume(pw.Pack(m) == nil)
	}
	for k := range msgs {
		g := socket.NewMessage(socket.WithNewBody(func(socket.Header) interface{} { return new([]byte) }))
		err := pr.Unpack(g)
		vxAssert(err == nil, "response decodes")
		vxAssert(g.Seq() == int32(11+k) && g.Mtype() == erpc.TypeReply, "seq and type round trip")
		switch k {
		case 0:
			vxAssert(g.StatusOK() && bytes.Equal(*(g.Body().(*[]byte)), body) && g.XferPipe().Len() == 1, "OK reply through gzip round trips with its filter list")
		case 1:
			vxAssert(g.Status(true).Code() == 1429 && g.Status(true).Msg() == "quota exceeded", "[C04] error reply through gzip: status round trip")
		case 2:
			vxAssert(g.StatusOK() && bytes.Equal(*(g.Body().(*[]byte)), body) && g.XferPipe().Len() == 0, "the plain reply after them decodes: stream in sync")
		}
	}
	vxAssert(w.off == len(w.data), "stream consumed exactly")
	vxCover("c05.http.gzip-stream")
}

func init() { vxRegister("VX_C15_HTTPStrayReply", VX_C15_HTTPStrayReply) }

// VX_C15_HTTPStrayReply: a client session speaking the HTTP-style protocol
// receives business-error responses ("299" + a status document) for a pending
// call and then the same response again (nothing pending any more), or for a
// sequence number that was never used; afterwards an unknown route on another
// peer (default protocol) is still answered with the documented 404 status and
// an oversized frame with the documented 107. args: nSym (symbolic characters in the stray status' message)
func VX_C15_HTTPStrayReply(args []int) {
	unknown := func(when string) {
		p := erpc.NewPeer(erpc.PeerConfig{})
		c := newVxConn("srv:1", "cli:"+when)
		c.feed(vxFrame(erpc.TypeCall, 5, "/no/such/route", []byte("x")))
		_, st := p.ServeConn(c)
		vxAssume(st.OK())
		vxWaitIdle()
		vxAssert(c.nWrites() == 1, "[C03] unknown route answered")
		if c.nWrites() == 1 {
			m, err := vxParse(c.writes[0])
			vxAssert(err == nil, "reply parses")
			if err == nil {
				s := m.Status(true)
				vxAssert(s.Code() == erpc.CodeNotFound && s.Msg() == "Not Found" && s.Cause().Error() == "", "an unknown route is answered 404 Not Found whatever other sessions received before ("+when+")")
			}
		}
	}
	unknown("before")
	p := erpc.NewPeer(erpc.PeerConfig{})
	conn := newVxConn("cli:1", "backend:2")
	s, st := p.ServeConn(conn, NewHTTProtoFunc())
	vxAssume(st.OK())
	vxWaitIdle()
	cmd := s.AsyncCall("/a/b", []byte("q"), new([]byte), make(chan erpc.CallCmd, 1))
	msg := vxString("m", args[0])
	for k := 0; k < len(msg); k++ {
		vxAssume(msg[k] >= 'a' && msg[k] <= 'z')
	}
	payload := `{"code":7,"msg":"biz` + msg + `","cause":"remote"}`
	resp := func(seq int32) []byte {
		return []byte("HTTP/1.1 299 Business Error\r\nContent-Type: application/json\r\nContent-Length: " + string(rune('0'+len(payload)/10)) + string(rune('0'+len(payload)%10)) +
			"\r\nX-Mtype: 2\r\nX-Seq: " + string(rune('0'+seq)) + "\r\n\r\n" + payload)
	}
	seq := cmd.Output().Seq()
	conn.feed(resp(seq))
	vxWaitIdle()
	select {
	case <-cmd.Done():
		vxAssert(cmd.Status().Code() == 7, "[C04] the caller sees the business status")
	default:
		vxAssert(false, "[C02] the call completes with its reply")
	}
	conn.feed(resp(seq))     // the same response again: nothing is pending
	conn.feed(resp(seq + 3)) // and one for a sequence number never used
	vxWaitIdle()
	unknown("after")
	vxCover("c15.http.stray-reply")
}
