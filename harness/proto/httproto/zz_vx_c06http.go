package httproto

import (
	"io"

	erpc "github.com/henrylee2cn/erpc/v6"
	"github.com/henrylee2cn/erpc/v6/socket"
)

func init() {
	vxRegister("VX_C06_HTTPContentLength", VX_C06_HTTPContentLength)
	vxRegister("VX_C06_HTTPBytes", VX_C06_HTTPBytes)
}

type vxHBuf struct {
	data []byte
	off  int
}

func (b *vxHBuf) Write(p []byte) (int, error) { return len(p), nil }
func (b *vxHBuf) Read(p []byte) (int, error) {
	if b.off >= len(b.data) {
		return 0, io.EOF
	}
	n := copy(p, b.data[b.off:])
	b.off += n
	return n, nil
}

// VX_C06_HTTPContentLength: an HTTP response announcing a body far larger than
// the per-message read limit must not make the receiver buffer that much.
// args: nDigits, limit
func VX_C06_HTTPContentLength(args []int) {
	nd, limit := args[0], args[1]
	socket.SetMessageSizeLimit(uint32(limit))
	defer socket.SetMessageSizeLimit(0)
	digits := vxBytes("cl", nd)
	cl := 0
	for _, d := range digits {
		vxAssume(d >= '0' && d <= '9')
		cl = cl*10 + int(d-'0')
	}
	vxAssume(cl >= 1<<20) // announced size well above the limit (and above the native measurement slack)
	stream := []byte("HTTP/1.1 200 OK\r\nContent-Length: ")
	stream = append(stream, digits...)
	stream = append(stream, []byte("\r\n\r\nxy")...)
	w := &vxHBuf{data: stream}
	got := socket.NewMessage(socket.WithNewBody(func(socket.Header) interface{} { return new([]byte) }))
	vxAllocGuard(limit, "http protocol buffers no more than the per-message read limit for an announced Content-Length")
	err := NewHTTProtoFunc()(w).Unpack(got)
	vxAllocGuardEnd()
	vxAssert(err != nil, "oversized announcement is refused")
	vxCover("c06.http.contentlength")
}

// VX_C06_HTTPBytes: arbitrary bytes after a fixed 5-byte prefix: the parser
// terminates and never consumes more than was sent. args: prefixKind(0 "HTTP/", 1 "POST "), n
func VX_C06_HTTPBytes(args []int) {
	socket.SetMessageSizeLimit(64)
	defer socket.SetMessageSizeLimit(0)
	pre := "HTTP/"
	if args[0] == 1 {
		pre = "POST "
	}
	stream := append([]byte(pre), vxBytes("in", args[1])...)
	w := &vxHBuf{data: stream}
	got := socket.NewMessage(socket.WithNewBody(func(socket.Header) interface{} { return new([]byte) }))
	func() {
		defer func() {
			if r := recover(); r != nil {
				if s, ok := r.(string); ok && len(s) > 9 && s[:9] == "VXASSERT:" {
					panic(r)
				}
				if _, ok := r.(vxAssumeFailed); ok {
					panic(r)
				}
				vxCover("c06.http.panic-recovered")
			}
		}()
		NewHTTProtoFunc()(w).Unpack(got)
	}()
	vxAssert(w.off <= len(stream), "never consumed more than was sent")
	vxCover("c06.http.bytes")
}

func init() { vxRegister("VX_C06_HTTPOversizeOnSession", VX_C06_HTTPOversizeOnSession) }

// VX_C06_HTTPOversizeOnSession: on a session speaking the HTTP-style protocol
// a request announces a body far above the read limit; what follows on the
// connection (the start of that payload) happens to look like another request.
// The session is disconnected before the payload is consumed: the embedded
// request is never handled. Header order as the framework writes it (variant
// 0) or with the content type first (variant 1). args: variant
func VX_C06_HTTPOversizeOnSession(args []int) {
	socket.SetMessageSizeLimit(64)
	defer socket.SetMessageSizeLimit(0)
	p := erpc.NewPeer(erpc.PeerConfig{})
	handled := 0
	p.SetUnknownCall(func(ctx erpc.UnknownCallCtx) (interface{}, *erpc.Status) {
		handled++
		return []byte("r"), nil
	})
	conn := newVxConn("srv:1", "cli:2")
	s, st := p.ServeConn(conn, NewHTTProtoFunc())
	vxAssume(st.OK())
	hdr := "POST /big HTTP/1.1\r\n"
	if args[0] == 0 {
		hdr += "Content-Length: 9000000\r\nContent-Type: application/json;charset=utf-8\r\n"
	} else {
		hdr += "Content-Type: application/json;charset=utf-8\r\nContent-Length: 9000000\r\n"
	}
	hdr += "X-Seq: 1\r\nX-Mtype: 1\r\n\r\n"
	payload := "POST /steal HTTP/1.1\r\nContent-Type: application/json;charset=utf-8\r\nContent-Length: 1\r\nX-Seq: 2\r\nX-Mtype: 1\r\n\r\n1"
	conn.feed([]byte(hdr + payload))
	vxWaitIdle()
	vxAssert(handled == 0, "the payload of a frame announcing more than the read limit is not consumed (what it contains is never handled as a message)")
	vxAssert(conn.isClosed() && !s.Health(), "a frame announcing a larger size than the read limit causes disconnection")
	vxCover("c06.http.oversize-session")
}
