package httproto

import (
	"io"

	"github.com/henrylee2cn/erpc/v6/socket"
)

func init() {
	vxRegister("VX_C06_HTTPContentLength", VX_C06_HTTPContentLength)
	vxRegister("VX_C06_HTTPBytes", VX_C06_HTTPBytes)
}

type vxHBuf struct {
	data []byte
	off  int
}

func (b *vxHBuf) Write(p []byte) (int, error) { return len(p), nil }
func (b *vxHBuf) Read(p []byte) (int, error) {
	if b.off >= len(b.data) {
		return 0, io.EOF
	}
	n := copy(p, b.data[b.off:])
	b.off += n
	return n, nil
}

// VX_C06_HTTPContentLength: an HTTP response announcing a body far larger than
// the per-message read limit must not make the receiver buffer that much.
// args: nDigits, limit
func VX_C06_HTTPContentLength(args []int) {
	nd, limit := args[0], args[1]
	socket.SetMessageSizeLimit(uint32(limit))
	defer socket.SetMessageSizeLimit(0)
	digits := vxBytes("cl", nd)
	cl := 0
	for _, d := range digits {
		vxAssume(d >= '0' && d <= '9')
		cl = cl*10 + int(d-'0')
	}
	vxAssume(cl >= 1<<20) // announced size well above the limit (and above the native measurement slack)
	stream := []byte("HTTP/1.1 200 OK\r\nContent-Length: ")
	stream = append(stream, digits...)
	stream = append(stream, []byte("\r\n\r\nxy")...)
	w := &vxHBuf{data: stream}
	got := socket.NewMessage(socket.WithNewBody(func(socket.Header) interface{} { return new([]byte) }))
	vxAllocGuard(limit, "http protocol buffers no more than the per-message read limit for an announced Content-Length")
	err := NewHTTProtoFunc()(w).Unpack(got)
	vxAllocGuardEnd()
	vxAssert(err != nil, "oversized announcement is refused")
	vxCover("c06.http.contentlength")
}

// VX_C06_HTTPBytes: arbitrary bytes after a fixed 5-byte prefix: the parser
// terminates and never consumes more than was sent. args: prefixKind(0 "HTTP/", 1 "POST "), n
func VX_C06_HTTPBytes(args []int) {
	socket.SetMessageSizeLimit(64)
	defer socket.SetMessageSizeLimit(0)
	pre := "HTTP/"
	if args[0] == 1 {
		pre = "POST "
	}
	stream := append([]byte(pre), vxBytes("in", args[1])...)
	w := &vxHBuf{data: stream}
	got := socket.NewMessage(socket.WithNewBody(func(socket.Header) interface{} { return new([]byte) }))
	func() {
		defer func() {
			if r := recover(); r != nil {
				if s, ok := r.(string); ok && len(s) > 9 && s[:9] == "VXASSERT:" {
					panic(r)
				}
				if _, ok := r.(vxAssumeFailed); ok {
					panic(r)
				}
				vxCover("c06.http.panic-recovered")
			}
		}()
		NewHTTProtoFunc()(w).Unpack(got)
	}()
	vxAssert(w.off <= len(stream), "never consumed more than was sent")
	vxCover("c06.http.bytes")
}
