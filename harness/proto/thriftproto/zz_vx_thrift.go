package thriftproto

import (
	"bytes"
	"io"

	"git.apache.org/thrift.git/lib/go/thrift"
	erpc "github.com/henrylee2cn/erpc/v6"
	"github.com/henrylee2cn/erpc/v6/socket"
	"github.com/henrylee2cn/erpc/v6/xfer/gzip"
)

func init() {
	vxRegister("VX_C05_ThriftBinary", VX_C05_ThriftBinary)
	vxRegister("VX_C04_ThriftBinarySeq", VX_C04_ThriftBinarySeq)
}

type vxTBuf struct {
	data   []byte
	off    int
	writes int
}

func (b *vxTBuf) Write(p []byte) (int, error) {
	b.writes++
	b.data = append(b.data, p...)
	return len(p), nil
}

func (b *vxTBuf) Read(p []byte) (int, error) {
	if b.off >= len(b.data) {
		return 0, io.EOF
	}
	n := copy(p, b.data[b.off:])
	b.off += n
	return n, nil
}

func vxNewGot() socket.Message {
	return socket.NewMessage(socket.WithNewBody(func(socket.Header) interface{} { return new([]byte) }))
}

// VX_C05_ThriftBinary: Unpack(Pack(m)) preserves every field (thrift binary
// protocol over THeader). args: group(0 method, 1 body, 2 meta value, 3 status msg, 4 seq), n
func VX_C05_ThriftBinary(args []int) {
	group, n := args[0], args[1]
	m := socket.NewMessage()
	seq := int32(77)
	m.SetMtype(erpc.TypeCall)
	m.SetBodyCodec('s')
	method, body, mv, smsg := "/m", []byte("b"), "v", ""
	sym := vxBytes("sym", n)
	switch group {
	case 0:
		method = string(sym)
	case 1:
		body = sym
	case 2:
		mv = string(sym)
	case 3:
		smsg = string(sym)
		m.SetStatus(erpc.NewStatus(400, smsg, ""))
	case 4:
		seq = vxInt32("seq")
	}
	m.SetSeq(seq)
	m.SetServiceMethod(method)
	m.SetBody(body)
	m.Meta().Add("k", mv)
	w := &vxTBuf{}
	pf := NewBinaryProtoFunc()
	pr := pf(w)
	vxAssume(pr.Pack(m) == nil)
	got := vxNewGot()
	err := pr.Unpack(got)
	vxAssert(err == nil, "Unpack of a packed frame succeeds")
	vxAssert(got.Seq() == seq && got.Mtype() == erpc.TypeCall && got.BodyCodec() == 's', "seq/mtype/codec round trip")
	vxAssert(got.ServiceMethod() == method, "service method round trip")
	vxAssert(string(got.Meta().Peek("k")) == mv && got.Meta().Len() == 1, "metadata round trip")
	if group == 3 {
		vxAssert(got.Status(true).Code() == 400 && got.Status(true).Msg() == smsg, "[C04] status round trip over the thrift binary protocol")
	} else {
		vxAssert(got.StatusOK(), "[C04] OK status round trip")
	}
	gb := *(got.Body().(*[]byte))
	vxAssert(bytes.Equal(gb, body), "body round trip")
	vxAssert(w.off == len(w.data), "frame consumed exactly")
	vxCover("c05.thrift.roundtrip")
}

// VX_C04_ThriftBinarySeq: replies written one after the other on one
// connection each carry their own status: a failed reply followed by a
// successful one (and the reverse). args: nMsg
func VX_C04_ThriftBinarySeq(args []int) {
	w := &vxTBuf{}
	pw := NewBinaryProtoFunc()(w)
	pr := NewBinaryProtoFunc()(w)
	code := vxInt32("code")
	vxAssume(code != 0)
	msg := vxString("msg", args[0])
	mk := func(seq int32, st *erpc.Status) socket.Message {
		m := socket.NewMessage()
		m.SetSeq(seq)
		m.SetMtype(erpc.TypeReply)
		m.SetBodyCodec('s')
		m.SetServiceMethod("/m")
		m.SetBody([]byte("b"))
		if st != nil {
			m.SetStatus(st)
		}
		return m
	}
	order := vxChoose("order", 2)
	sts := []*erpc.Status{erpc.NewStatus(code, msg, "why"), nil, erpc.NewStatus(code, msg, "why"), nil}
	if order == 1 {
		sts = []*erpc.Status{nil, erpc.NewStatus(code, msg, "why"), nil, nil}
	}
	for k, st := range sts {
		vxAssume(pw.Pack(mk(int32(k+1), st)) == nil)
	}
	for k, st := range sts {
		got := vxNewGot()
		vxAssert(pr.Unpack(got) == nil, "reply decodes")
		vxAssert(got.Seq() == int32(k+1), "in order")
		if st == nil {
			vxAssert(got.StatusOK(), "a successful reply is received as OK whatever was sent before it on the connection")
		} else {
			vxAssert(got.Status(true).Code() == code && got.Status(true).Msg() == msg && got.Status(true).Cause().Error() == "why", "a failed reply carries the status it was given")
		}
	}
	vxCover("c04.thrift.seq")
}

func init() {
	vxRegister("VX_C05_ThriftSize", VX_C05_ThriftSize)
	vxRegister("VX_C06_ThriftOversize", VX_C06_ThriftOversize)
	vxRegister("VX_C06_ThriftBytes", VX_C06_ThriftBytes)
}

func vxTMsg(seq int32, body []byte) socket.Message {
	m := socket.NewMessage()
	m.SetSeq(seq)
	m.SetMtype(erpc.TypeCall)
	m.SetBodyCodec('s')
	m.SetServiceMethod("/m")
	m.SetBody(body)
	return m
}

// VX_C05_ThriftSize: the size reported for a message depends on that message
// alone: the same frame sent twice back to back reports the same size on both
// sides, equal to the bytes of the frame. args: nBody, struct(0 binary, 1 n/a)
func VX_C05_ThriftSize(args []int) {
	body := vxBytes("body", args[0])
	w := &vxTBuf{}
	pw := NewBinaryProtoFunc()(w)
	pr := NewBinaryProtoFunc()(w)
	m1, m2 := vxTMsg(1, body), vxTMsg(1, body)
	vxAssume(pw.Pack(m1) == nil)
	l1 := len(w.data)
	vxAssert(int(m1.Size()) == l1, "packed size of the first message is its frame length")
	g1 := vxNewGot()
	vxAssert(pr.Unpack(g1) == nil, "first frame decodes")
	vxAssert(int(g1.Size()) == l1, "received size of the first message is its frame length")
	vxAssume(pw.Pack(m2) == nil)
	l2 := len(w.data) - l1
	vxAssert(l1 == l2, "identical messages produce frames of identical length")
	vxAssert(int(m2.Size()) == l2, "packed size of the second message is its own frame length (not cumulative)")
	g2 := vxNewGot()
	vxAssert(pr.Unpack(g2) == nil, "second frame decodes")
	vxAssert(g1.Size() == g2.Size(), "size reported for a received message does not depend on the traffic that preceded it (thrift binary protocol)")
	vxCover("c05.thrift.size")
}

// VX_C06_ThriftOversize: a frame larger than the per-message read limit is
// refused, without consuming or buffering its payload. args: limit, bodyLen
func VX_C06_ThriftOversize(args []int) {
	limit, n := args[0], args[1]
	body := make([]byte, n)
	w := &vxTBuf{}
	vxAssume(NewBinaryProtoFunc()(w).Pack(vxTMsg(1, body)) == nil)
	vxAssume(len(w.data) > limit)
	socket.SetMessageSizeLimit(uint32(limit))
	defer socket.SetMessageSizeLimit(0)
	got := vxNewGot()
	vxAllocGuard(limit, "thrift protocol buffers no more than the per-message read limit (a frame larger than the limit is read whole before it is refused)")
	err := NewBinaryProtoFunc()(w).Unpack(got)
	vxAllocGuardEnd()
	vxAssert(err != nil, "frame beyond the read limit is refused")
	vxAssert(w.off <= limit, "payload of an oversized frame is not consumed")
	vxCover("c06.thrift.oversize")
}

// VX_C06_ThriftBytes: arbitrary bytes into the thrift protocol's Unpack:
// terminates; a panic (if any) is one the read loop recovers. args: n
func VX_C06_ThriftBytes(args []int) {
	n := args[0]
	w := &vxTBuf{data: vxBytes("in", n)}
	got := vxNewGot()
	if len(args) > 1 {
		vxAllocGuard(args[1], "thrift protocol buffers no more than the per-message read limit (arbitrary bytes)")
		defer vxAllocGuardEnd()
	}
	func() {
		defer func() {
			if r := recover(); r != nil {
				if s, ok := r.(string); ok && len(s) > 9 && s[:9] == "VXASSERT:" {
					panic(r)
				}
				if _, ok := r.(vxAssumeFailed); ok {
					panic(r)
				}
				vxCover("c06.thrift.panic-recovered")
			}
		}()
		if NewBinaryProtoFunc()(w).Unpack(got) == nil {
			vxCover("c06.thrift.decoded")
		}
	}()
	vxAssert(w.off <= n, "never consumed more than was sent")
	vxCover("c06.thrift.end")
}

func init() {
	vxRegister("VX_C05_ThriftStruct", VX_C05_ThriftStruct)
}

// vxTBody is a hand-written thrift struct: 1: string text, 2: i32 num.
type vxTBody struct {
	Text string
	Num  int32
}

func (s *vxTBody) Write(p thrift.TProtocol) error {
	if err := p.WriteStructBegin("vx"); err != nil {
		return err
	}
	p.WriteFieldBegin("text", thrift.STRING, 1)
	if err := p.WriteString(s.Text); err != nil {
		return err
	}
	p.WriteFieldEnd()
	p.WriteFieldBegin("num", thrift.I32, 2)
	if err := p.WriteI32(s.Num); err != nil {
		return err
	}
	p.WriteFieldEnd()
	if err := p.WriteFieldStop(); err != nil {
		return err
	}
	return p.WriteStructEnd()
}

func (s *vxTBody) Read(p thrift.TProtocol) error {
	if _, err := p.ReadStructBegin(); err != nil {
		return err
	}
	for {
		_, tp, id, err := p.ReadFieldBegin()
		if err != nil {
			return err
		}
		if tp == thrift.STOP {
			break
		}
		switch {
		case id == 1 && tp == thrift.STRING:
			if s.Text, err = p.ReadString(); err != nil {
				return err
			}
		case id == 2 && tp == thrift.I32:
			if s.Num, err = p.ReadI32(); err != nil {
				return err
			}
		default:
			if err = p.Skip(tp); err != nil {
				return err
			}
		}
		if err = p.ReadFieldEnd(); err != nil {
			return err
		}
	}
	return p.ReadStructEnd()
}

// VX_C05_ThriftStruct: the thrift struct protocol (body written directly as
// a thrift struct): Unpack(Pack(m)) preserves seq, type, method, status,
// metadata and body; two frames back to back stay in sync.
// args: group(0 method, 1 body text, 2 meta value, 3 status msg, 4 seq+num), n
func VX_C05_ThriftStruct(args []int) {
	group, n := args[0], args[1]
	sym := vxString("sym", n)
	method, text, mv, smsg := "/m", "t", "v", ""
	seq, num := int32(77), int32(5)
	switch group {
	case 0:
		method = sym
	case 1:
		text = sym
	case 2:
		mv = sym
	case 3:
		smsg = sym
	case 4:
		seq, num = vxInt32("seq"), vxInt32("num")
	}
	mk := func(seq int32) socket.Message {
		m := socket.NewMessage()
		m.SetSeq(seq)
		m.SetMtype(erpc.TypeReply)
		m.SetServiceMethod(method)
		m.SetBody(&vxTBody{Text: text, Num: num})
		m.Meta().Add("k", mv)
		if group == 3 {
			m.SetStatus(erpc.NewStatus(400, smsg, ""))
		}
		return m
	}
	w := &vxTBuf{}
	pw := NewStructProtoFunc()(w)
	pr := NewStructProtoFunc()(w)
	vxAssume(pw.Pack(mk(seq)) == nil && pw.Pack(mk(seq+1)) == nil)
	for k := int32(0); k < 2; k++ {
		got := socket.NewMessage(socket.WithNewBody(func(socket.Header) interface{} { return new(vxTBody) }))
		vxAssert(pr.Unpack(got) == nil, "Unpack of a packed frame succeeds (thrift struct protocol)")
		vxAssert(got.Seq() == seq+k && got.Mtype() == erpc.TypeReply && got.BodyCodec() == 't', "seq/mtype/codec round trip")
		vxAssert(got.ServiceMethod() == method, "service method round trip")
		vxAssert(string(got.Meta().Peek("k")) == mv && got.Meta().Len() == 1, "metadata round trip")
		if group == 3 {
			vxAssert(got.Status(true).Code() == 400 && got.Status(true).Msg() == smsg, "[C04] status round trip over the thrift struct protocol")
		} else {
			vxAssert(got.StatusOK(), "[C04] OK status round trip")
		}
		b, ok := got.Body().(*vxTBody)
		vxAssert(ok && b.Text == text && b.Num == num, "body round trip")
	}
	vxAssert(w.off == len(w.data), "both frames consumed exactly")
	vxCover("c05.thriftstruct.roundtrip")
}

func init() { vxRegister("VX_C05_ThriftRetained", VX_C05_ThriftRetained) }

// VX_C05_ThriftRetained: three thrift-binary frames back to back decoded into
// retained messages: each still holds what was packed after all were decoded.
// args: n
func VX_C05_ThriftRetained(args []int) {
	vxPoolMode(1)
	sm, sb := vxString("m", args[0]), vxBytes("b", args[0])
	methods := []string{"/alpha/" + sm, "/beta/second_one", "/gamma/third_reply_x"}
	bodies := [][]byte{append([]byte("first-"), sb...), []byte("2nd"), []byte("the third body")}
	w := &vxTBuf{}
	pw := NewBinaryProtoFunc()(w)
	for k := range methods {
		m := socket.NewMessage()
		m.SetSeq(int32(10 + k))
		m.SetMtype(erpc.TypeCall)
		m.SetBodyCodec('s')
		m.SetServiceMethod(methods[k])
		m.SetBody(bodies[k])
		m.Meta().Add("k", "v"+methods[k])
		vxAssume(pw.Pack(m) == nil)
	}
	pr := NewBinaryProtoFunc()(w)
	var got []socket.Message
	for range methods {
		g := vxNewGot()
		vxAssert(pr.Unpack(g) == nil, "frame decodes")
		got = append(got, g)
	}
	for k, g := range got {
		vxAssert(g.Seq() == int32(10+k) && g.Mtype() == erpc.TypeCall && g.BodyCodec() == 's', "retained message keeps its seq/type/codec")
		vxAssert(g.ServiceMethod() == methods[k], "retained message keeps its service method after later frames were decoded")
		vxAssert(string(g.Meta().Peek("k")) == "v"+methods[k], "retained message keeps its metadata")
		vxAssert(string(*(g.Body().(*[]byte))) == string(bodies[k]), "retained message keeps its body")
	}
	vxCover("c05.thrift.retained")
}

func init() {
	vxRegister("VX_C05_ThriftPipeSeq", VX_C05_ThriftPipeSeq)
	gzip.Reg('g', "gzip", 5)
}

// VX_C05_ThriftPipeSeq: frames with and without a transfer filter alternate on
// one thrift-binary connection: each decodes to its own filter list and body
// (nothing carried over from the frame before). args: nBody
func VX_C05_ThriftPipeSeq(args []int) {
	vxStepBudget(80)
	body := make([]byte, 0, args[0])
	for len(body) < args[0] {
		body = append(body, []byte("thrift payload ")...)
	}
	body = body[:args[0]]
	w := &vxTBuf{}
	pw := NewBinaryProtoFunc()(w)
	pr := NewBinaryProtoFunc()(w)
	pipes := []bool{false, true, false, true, false}
	for k, piped := range pipes {
		m := vxTMsg(int32(k+1), body)
		if piped {
			m.XferPipe().Append('g')
		}
		vxAssume(pw.Pack(m) == nil)
	}
	for k, piped := range pipes {
		g := vxNewGot()
		err := pr.Unpack(g)
		vxAssert(err == nil, "frame decodes")
		want := 0
		if piped {
			want = 1
		}
		vxAssert(g.Seq() == int32(k+1) && g.XferPipe().Len() == want, "each frame decodes to its own transfer-filter list")
		vxAssert(err != nil || bytes.Equal(*(g.Body().(*[]byte)), body), "and to its own body")
	}
	vxCover("c05.thrift.pipeseq")
}

func init() { vxRegister("VX_C05_ThriftConcurrentPack", VX_C05_ThriftConcurrentPack) }

// VX_C05_ThriftConcurrentPack: two goroutines write one message each through
// the same protocol instance (socket.WriteMessage allows concurrent writers);
// for every schedule within the preemption bound each message reports the
// size it reports when it is packed alone, the two frames are on the wire one
// after the other and both decode. args: proto(0 binary, 1 struct), preemptions
func VX_C05_ThriftConcurrentPack(args []int) {
	which, pre := args[0], args[1]
	pf := NewBinaryProtoFunc()
	mk := func(seq int32, txt string) socket.Message {
		if which == 1 {
			m := socket.NewMessage()
			m.SetSeq(seq)
			m.SetMtype(erpc.TypeCall)
			m.SetServiceMethod("/m")
			m.SetBody(&vxTBody{Text: txt, Num: seq})
			return m
		}
		return vxTMsg(seq, []byte(txt))
	}
	newGot := vxNewGot
	if which == 1 {
		pf = NewStructProtoFunc()
		newGot = func() socket.Message {
			return socket.NewMessage(socket.WithNewBody(func(socket.Header) interface{} { return new(vxTBody) }))
		}
	}
	alone := func(m socket.Message) uint32 {
		vxAssume(pf(&vxTBuf{}).Pack(m) == nil)
		return m.Size()
	}
	sa, sb := alone(mk(1, "first-message-longer")), alone(mk(2, "second"))
	w := &vxTBuf{}
	p := pf(w)
	ma, mb := mk(1, "first-message-longer"), mk(2, "second")
	vxRaceDetect(true)
	if pre > 0 {
		vxSched(1, pre)
	}
	done := make(chan error, 2)
	go func() { done <- p.Pack(ma) }()
	go func() { done <- p.Pack(mb) }()
	e1, e2 := <-done, <-done
	vxSched(0, 0)
	vxAssert(e1 == nil && e2 == nil, "both concurrent packs succeed")
	vxAssert(ma.Size() == sa && mb.Size() == sb, "the size reported for a message written concurrently with another depends on that message alone")
	vxAssert(len(w.data) == int(sa+sb) || which == 0, "the wire carries exactly the two frames")
	pr := pf(w)
	seen := [3]bool{}
	for k := 0; k < 2; k++ {
		got := newGot()
		vxAssert(pr.Unpack(got) == nil, "frames written concurrently are not interleaved: each decodes")
		if s := got.Seq(); s == 1 || s == 2 {
			seen[s] = true
		}
	}
	vxAssert(seen[1] && seen[2], "both messages arrive")
	vxCover("c05.thrift.concurrent-pack")
}

func init() { vxRegister("VX_C01_ThriftMetaSeq", VX_C01_ThriftMetaSeq) }

// VX_C01_ThriftMetaSeq: four messages in sequence through one thrift-binary
// protocol instance; whether each carries metadata is chosen per message (all
// 16 patterns), the values are symbolic. Every message decodes to exactly the
// metadata it was given - nothing of an earlier message on the connection
// shows up in a later one. args: nVal (symbolic bytes of the first value, the others are distinct literals)
func VX_C01_ThriftMetaSeq(args []int) {
	vxStepBudget(80)
	w := &vxTBuf{}
	pw := NewBinaryProtoFunc()(w)
	pr := NewBinaryProtoFunc()(w)
	var has [4]bool
	var val [4]string
	for k := range has {
		has[k] = vxChoose("hasmeta", 2) == 1
		val[k] = "value-" + string(rune('a'+k))
	}
	if args[0] > 0 {
		val[0] = vxString("val", args[0])
	}
	for k := range has {
		m := vxTMsg(int32(k+1), []byte("b"))
		if has[k] {
			m.Meta().Add("tag", val[k])
		}
		vxAssume(pw.Pack(m) == nil)
	}
	for k := range has {
		g := vxNewGot()
		vxAssert(pr.Unpack(g) == nil, "frame decodes")
		vxAssert(g.Seq() == int32(k+1), "in order")
		if has[k] {
			vxAssert(g.Meta().Len() == 1 && string(g.Meta().Peek("tag")) == val[k], "a message decodes to the metadata it was given")
		} else {
			vxAssert(g.Meta().Len() == 0, "a message sent without metadata is received without metadata, whatever was sent before it on the connection")
		}
	}
	vxCover("c01.thrift.metaseq")
}
