package jsonproto

import (
	"bytes"
	"io"

	erpc "github.com/henrylee2cn/erpc/v6"
	"github.com/henrylee2cn/erpc/v6/socket"
)

func init() {
	vxRegister("VX_C05_JSONRoundTrip", VX_C05_JSONRoundTrip)
}

type vxJBuf struct {
	data   []byte
	off    int
	writes int
}

func (b *vxJBuf) Write(p []byte) (int, error) {
	b.writes++
	b.data = append(b.data, p...)
	return len(p), nil
}

func (b *vxJBuf) Read(p []byte) (int, error) {
	if b.off >= len(b.data) {
		return 0, io.EOF
	}
	n := copy(p, b.data[b.off:])
	b.off += n
	return n, nil
}

func vxTextClass(b []byte) {
	for _, c := range b {
		vxAssume(c >= 0x20 && c < 0x7f && c != '"' && c != '\\')
	}
}

// VX_C05_JSONRoundTrip: Unpack(Pack(m)) preserves every field (json protocol).
// args: group(0 method, 1 body, 2 meta value, 3 status msg), n,
//       class(0 any byte, 1 printable ASCII without quote/backslash)
func VX_C05_JSONRoundTrip(args []int) {
	group, n, class := args[0], args[1], args[2]
	note := ""
	if class == 0 {
		// the JSON text frame escapes only '"' in bodies and uses strconv.Quote (\x.. escapes gjson does
		// not undo) elsewhere: bytes outside printable ASCII are a recorded finding
		note = " (arbitrary bytes incl. control, backslash, non-UTF-8)"
	}
	m := socket.NewMessage()
	m.SetSeq(77)
	m.SetMtype(erpc.TypeCall)
	m.SetBodyCodec('s')
	method, body, mv, smsg := "/m", []byte("b"), "v", ""
	sym := vxBytes("sym", n)
	if class == 1 {
		vxTextClass(sym)
	}
	switch group {
	case 0:
		method = string(sym)
	case 1:
		body = sym
	case 2:
		mv = string(sym)
	case 3:
		smsg = string(sym)
		m.SetStatus(erpc.NewStatus(400, smsg, ""))
	}
	m.SetServiceMethod(method)
	m.SetBody(body)
	m.Meta().Add("k", mv)
	w := &vxJBuf{}
	pf := NewJSONProtoFunc()
	vxAssume(pf(w).Pack(m) == nil)
	vxAssert(w.writes == 1, "Pack performs exactly one Write")
	vxAssert(int(m.Size())+4 == len(w.data), "reported size matches the frame")
	got := socket.NewMessage(socket.WithNewBody(func(socket.Header) interface{} { return new([]byte) }))
	err := pf(w).Unpack(got)
	vxAssert(err == nil, "Unpack of a packed frame succeeds"+note)
	vxAssert(got.Seq() == 77 && got.Mtype() == erpc.TypeCall && got.BodyCodec() == 's', "seq/mtype/codec round trip"+note)
	vxAssert(got.ServiceMethod() == method, "service method round trip"+note)
	vxAssert(string(got.Meta().Peek("k")) == mv && got.Meta().Len() == 1, "metadata round trip"+note)
	if group == 3 {
		vxAssert(got.Status(true).Code() == 400 && got.Status(true).Msg() == smsg, "[C04] status round trip over the json protocol"+note)
	}
	gb := *(got.Body().(*[]byte))
	vxAssert(bytes.Equal(gb, body), "body round trip"+note)
	vxAssert(w.off == len(w.data), "frame consumed exactly")
	vxCover("c05.json.roundtrip")
}

func init() { vxRegister("VX_C06_JSONUnpackBytes", VX_C06_JSONUnpackBytes) }

// VX_C06_JSONUnpackBytes: arbitrary bytes into the json protocol's Unpack:
// terminates, buffers no more than the limit, a panic (if any) is one the
// session's read loop recovers. args: n, limit
func VX_C06_JSONUnpackBytes(args []int) {
	n, limit := args[0], args[1]
	socket.SetMessageSizeLimit(uint32(limit))
	defer socket.SetMessageSizeLimit(0)
	w := &vxJBuf{data: vxBytes("in", n)}
	got := socket.NewMessage(socket.WithNewBody(func(socket.Header) interface{} { return new([]byte) }))
	vxAllocGuard(limit, "[C06] json protocol buffers no more than the per-message read limit")
	func() {
		defer func() {
			if r := recover(); r != nil {
				if s, ok := r.(string); ok && len(s) > 9 && s[:9] == "VXASSERT:" {
					panic(r)
				}
				if _, ok := r.(vxAssumeFailed); ok {
					panic(r)
				}
				vxCover("c06.json.panic-recovered")
			}
		}()
		if pf := NewJSONProtoFunc(); pf(w).Unpack(got) == nil {
			vxCover("c06.json.decoded")
		}
	}()
	vxAllocGuardEnd()
	vxAssert(w.off <= n, "[C06] never consumed more than was sent")
	vxCover("c06.json.end")
}

func init() { vxRegister("VX_C05_JSONRetained", VX_C05_JSONRetained) }

// VX_C05_JSONRetained: three frames back to back are decoded into three
// messages that stay alive (as in a session whose handlers are still running
// while the next frame is read): after all three are decoded, each still holds
// exactly what was packed. args: n (symbolic bytes in the first method)
func VX_C05_JSONRetained(args []int) {
	vxPoolMode(1)
	sym := vxBytes("sym", args[0])
	vxTextClass(sym)
	methods := []string{"/alpha/" + string(sym), "/beta/second_one", "/gamma/third_reply_x"}
	bodies := []string{"first-body", "2nd", "the third body"}
	w := &vxJBuf{}
	pf := NewJSONProtoFunc()
	pw := pf(w)
	for k := range methods {
		m := socket.NewMessage()
		m.SetSeq(int32(10 + k))
		m.SetMtype(erpc.TypeCall)
		m.SetBodyCodec('s')
		m.SetServiceMethod(methods[k])
		m.SetBody([]byte(bodies[k]))
		m.Meta().Add("k", "v"+methods[k])
		vxAssume(pw.Pack(m) == nil)
	}
	pr := pf(w)
	var got []socket.Message
	for range methods {
		g := socket.NewMessage(socket.WithNewBody(func(socket.Header) interface{} { return new([]byte) }))
		vxAssert(pr.Unpack(g) == nil, "frame decodes")
		got = append(got, g)
	}
	for k, g := range got {
		vxAssert(g.Seq() == int32(10+k) && g.Mtype() == erpc.TypeCall && g.BodyCodec() == 's', "retained message keeps its seq/type/codec")
		vxAssert(g.ServiceMethod() == methods[k], "retained message keeps its service method after later frames were decoded")
		vxAssert(string(g.Meta().Peek("k")) == "v"+methods[k], "retained message keeps its metadata")
		vxAssert(string(*(g.Body().(*[]byte))) == bodies[k], "retained message keeps its body")
	}
	vxAssert(w.off == len(w.data), "stream consumed exactly")
	vxCover("c05.json.retained")
}
