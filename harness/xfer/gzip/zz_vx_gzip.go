package gzip

import (
	"bytes"

	"github.com/henrylee2cn/erpc/v6/xfer"
)

func init() {
	vxRegister("VX_C12_GzipPipe", VX_C12_GzipPipe)
	Reg('y', "vxgzip-y", 5)
	Reg('z', "vxgzip-z", 1)
}

// VX_C12_GzipPipe: pipes made of the shipped gzip filter (repeats included)
// restore a compressible payload exactly (real compress/gzip interpreted on a
// concrete payload). args: pipe(0 [y], 1 [y,y], 2 [y,z], 3 [z,y,y]), nPayload
func VX_C12_GzipPipe(args []int) {
	vxStepBudget(60)
	vxPoolMode(1)
	pipes := [][]byte{{'y'}, {'y', 'y'}, {'y', 'z'}, {'z', 'y', 'y'}}
	ids := pipes[args[0]]
	payload := make([]byte, 0, args[1])
	for len(payload) < args[1] {
		payload = append(payload, []byte("the quick brown fox jumps over the lazy dog; ")...)
	}
	payload = payload[:args[1]]
	orig := append([]byte{}, payload...)
	p := xfer.NewXferPipe()
	vxAssert(p.Append(ids...) == nil, "gzip filters accepted")
	packed, err := p.OnPack(payload)
	vxAssert(err == nil, "OnPack ok")
	keep := append([]byte{}, packed...)
	back, err := p.OnUnpack(packed)
	vxAssert(err == nil, "a pipe of gzip stages unpacks what it packed")
	vxAssert(bytes.Equal(back, orig), "payload restored exactly")
	// a second round trip on the same goroutine (pooled buffers recycled)
	back2, err := p.OnUnpack(keep)
	vxAssert(err == nil && bytes.Equal(back2, orig), "and again")
	vxCover("c12.gzip.pipe")
}
