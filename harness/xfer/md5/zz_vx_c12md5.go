package md5

import (
	"bytes"

	"github.com/henrylee2cn/erpc/v6/xfer"
)

func init() {
	vxRegister("VX_C12_MD5", VX_C12_MD5)
	Reg('5', "vxmd5")
}

// VX_C12_MD5: the integrity filter restores an untouched payload and rejects
// a payload whose content (checksum untouched) or whose checksum (content
// untouched) was altered. args: n, mode(0 untouched, 1 content altered, 2 checksum altered, 3 truncated)
func VX_C12_MD5(args []int) {
	n, mode := args[0], args[1]
	f, err := xfer.Get('5')
	vxAssume(err == nil)
	x := vxBytes("x", n)
	orig := append([]byte{}, x...)
	packed, err := f.OnPack(x)
	vxAssert(err == nil && len(packed) == n+16, "packing appends a 16-byte checksum")
	wire := append([]byte{}, packed...)
	switch mode {
	case 1:
		y := vxBytes("y", n)
		vxAssume(!bytes.Equal(y, orig))
		copy(wire, y)
	case 2:
		s := vxBytes("s", 16)
		vxAssume(!bytes.Equal(s, packed[n:]))
		copy(wire[n:], s)
	case 3:
		k := vxChoose("cut", n+16)
		wire = wire[:k]
	}
	back, err := f.OnUnpack(wire)
	if mode == 0 {
		vxAssert(err == nil && bytes.Equal(back, orig), "untouched payload is restored exactly")
	} else if mode == 3 && len(wire) >= 16 {
		// a truncated payload is a different content with the tail read as checksum
		vxAssert(err != nil || !bytes.Equal(back, orig), "a truncated payload is not accepted as the original")
	} else {
		vxAssert(err == errDataCheck, "altered payload is rejected")
		vxAssert(back == nil, "nothing is passed through for a rejected payload")
	}
	vxCover("c12.md5")
}

func init() { vxRegister("VX_C12_MD5Pipe", VX_C12_MD5Pipe) }

// VX_C12_MD5Pipe: the integrity filter inside a transfer pipe (one or two
// integrity stages): whatever is cut off the packed payload - down to nothing -
// the pipe does not hand out the original or an empty payload as valid.
// args: stages(1/2), n
func VX_C12_MD5Pipe(args []int) {
	stages, n := args[0], args[1]
	p := xfer.NewXferPipe()
	for k := 0; k < stages; k++ {
		vxAssume(p.Append('5') == nil)
	}
	x := vxBytes("x", n)
	orig := append([]byte{}, x...)
	packed, err := p.OnPack(x)
	vxAssert(err == nil && len(packed) == n+16*stages, "each integrity stage appends a 16-byte checksum")
	back, err := p.OnUnpack(append([]byte{}, packed...))
	vxAssert(err == nil && bytes.Equal(back, orig), "untouched payload is restored exactly")
	cut := vxChoose("cut", len(packed)) // keep cut bytes: 0 .. len-1
	wire := append([]byte{}, packed[:cut]...)
	back, err = p.OnUnpack(wire)
	if cut < 16 {
		vxAssert(err != nil, "a payload too short to carry its checksum (down to nothing) is rejected")
	} else {
		vxAssert(err != nil || !bytes.Equal(back, orig), "a truncated payload is not accepted as the original")
	}
	vxCover("c12.md5pipe")
}
