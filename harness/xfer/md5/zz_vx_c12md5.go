package md5

import (
	"bytes"
	"crypto/md5"

	"github.com/henrylee2cn/erpc/v6/xfer"
)

func init() {
	vxRegister("VX_C12_MD5", VX_C12_MD5)
	Reg('5', "vxmd5")
}

// VX_C12_MD5: the integrity filter restores an untouched payload and rejects
// a payload whose content (checksum untouched) or whose checksum (content
// untouched) was altered. args: n, mode(0 untouched, 1 content altered, 2 checksum altered, 3 truncated)
func VX_C12_MD5(args []int) {
	n, mode := args[0], args[1]
	f, err := xfer.Get('5')
	vxAssume(err == nil)
	x := vxBytes("x", n)
	orig := append([]byte{}, x...)
	packed, err := f.OnPack(x)
	vxAssert(err == nil && len(packed) == n+16, "packing appends a 16-byte checksum")
	wire := append([]byte{}, packed...)
	switch mode {
	case 1:
		y := vxBytes("y", n)
		vxAssume(!bytes.Equal(y, orig))
		copy(wire, y)
	case 2:
		s := vxBytes("s", 16)
		vxAssume(!bytes.Equal(s, packed[n:]))
		copy(wire[n:], s)
	case 3:
		k := vxChoose("cut", n+16)
		wire = wire[:k]
	}
	back, err := f.OnUnpack(wire)
	if mode == 0 {
		vxAssert(err == nil && bytes.Equal(back, orig), "untouched payload is restored exactly")
	} else if mode == 3 && len(wire) >= 16 {
		// a truncated payload is a different content with the tail read as checksum
		vxAssert(err != nil || !bytes.Equal(back, orig), "a truncated payload is not accepted as the original")
	} else {
		vxAssert(err == errDataCheck, "altered payload is rejected")
		vxAssert(back == nil, "nothing is passed through for a rejected payload")
	}
	vxCover("c12.md5")
}

func init() { vxRegister("VX_C12_MD5Pipe", VX_C12_MD5Pipe) }

// VX_C12_MD5Pipe: the integrity filter inside a transfer pipe (one or two
// integrity stages): whatever is cut off the packed payload - down to nothing -
// the pipe does not hand out the original or an empty payload as valid.
// args: stages(1/2), n
func VX_C12_MD5Pipe(args []int) {
	stages, n := args[0], args[1]
	p := xfer.NewXferPipe()
	for k := 0; k < stages; k++ {
		vxAssume(p.Append('5') == nil)
	}
	x := vxBytes("x", n)
	orig := append([]byte{}, x...)
	packed, err := p.OnPack(x)
	vxAssert(err == nil && len(packed) == n+16*stages, "each integrity stage appends a 16-byte checksum")
	back, err := p.OnUnpack(append([]byte{}, packed...))
	vxAssert(err == nil && bytes.Equal(back, orig), "untouched payload is restored exactly")
	cut := vxChoose("cut", len(packed)) // keep cut bytes: 0 .. len-1
	wire := append([]byte{}, packed[:cut]...)
	back, err = p.OnUnpack(wire)
	if cut < 16 {
		vxAssert(err != nil, "a payload too short to carry its checksum (down to nothing) is rejected")
	} else {
		vxAssert(err != nil || !bytes.Equal(back, orig), "a truncated payload is not accepted as the original")
	}
	vxCover("c12.md5pipe")
}

func init() { vxRegister("VX_C12_MD5Sequence", VX_C12_MD5Sequence) }

// VX_C12_MD5Sequence: frames through the integrity filter one after the other
// (concrete payloads, real crypto/md5): an honest frame, an altered frame
// (rejected), then honest frames again - every honest frame is restored, every
// frame whose checksum is not the md5 of its content is rejected, whatever was
// processed before. args: rounds
func VX_C12_MD5Sequence(args []int) {
	vxPoolMode(1)
	f, err := xfer.Get('5')
	vxAssume(err == nil)
	for r := 0; r < args[0]; r++ {
		a := []byte("honest payload number " + string(rune('0'+r)))
		pa, err := f.OnPack(append([]byte{}, a...))
		vxAssert(err == nil && len(pa) == len(a)+16, "pack appends the checksum")
		back, err := f.OnUnpack(append([]byte{}, pa...))
		vxAssert(err == nil && bytes.Equal(back, a), "an honest frame is restored, whatever was processed before")
		// altered in transit: content changed, checksum kept
		bad := append([]byte{}, pa...)
		bad[0] ^= 0x20
		_, err = f.OnUnpack(bad)
		vxAssert(err != nil, "a frame whose content was altered is rejected")
		// a forged frame whose checksum is the md5 of (rejected content || its content)
		y := []byte("forged-" + string(rune('0'+r)))
		sum := md5.Sum(append(append([]byte{}, bad[:len(bad)-16]...), y...))
		forged := append(append([]byte{}, y...), sum[:]...)
		_, err = f.OnUnpack(forged)
		vxAssert(err != nil, "a frame whose checksum is not the md5 of its content is rejected, whatever was processed before")
		// and an honest frame right after the rejected ones
		b := []byte("after the fault " + string(rune('0'+r)))
		pb, err := f.OnPack(append([]byte{}, b...))
		vxAssert(err == nil, "pack after a rejected frame")
		want := md5.Sum(b)
		vxAssert(bytes.Equal(pb[len(b):], want[:]), "the checksum written is the md5 of this payload alone")
		back, err = f.OnUnpack(pb)
		vxAssert(err == nil && bytes.Equal(back, b), "an honest frame after a rejected one is restored")
	}
	vxCover("c12.md5.sequence")
}
