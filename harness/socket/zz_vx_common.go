package socket

import (
	"bufio"
	"errors"
	"io"

	"github.com/henrylee2cn/erpc/v6/xfer"
)

// Three invertible, mutually non-commuting transfer filters defined by the
// harness (the shipped gzip/md5 filters wrap library code outside reach).
type vxMarkFilter struct{}

func (vxMarkFilter) ID() byte     { return 'A' }
func (vxMarkFilter) Name() string { return "vxmark" }
func (vxMarkFilter) OnPack(b []byte) ([]byte, error) {
	r := make([]byte, 0, len(b)+1)
	r = append(r, 0xA5)
	return append(r, b...), nil
}
func (vxMarkFilter) OnUnpack(b []byte) ([]byte, error) {
	if len(b) == 0 || b[0] != 0xA5 {
		return nil, errors.New("vxmark: bad marker")
	}
	return b[1:], nil
}

type vxXorFilter struct{}

func (vxXorFilter) ID() byte     { return 'B' }
func (vxXorFilter) Name() string { return "vxxor" }
func (vxXorFilter) OnPack(b []byte) ([]byte, error) {
	r := make([]byte, len(b))
	for i := range b {
		r[i] = b[i] ^ 0x5C
	}
	return r, nil
}
func (f vxXorFilter) OnUnpack(b []byte) ([]byte, error) { return f.OnPack(b) }

type vxRevFilter struct{}

func (vxRevFilter) ID() byte     { return 'C' }
func (vxRevFilter) Name() string { return "vxrev" }
func (vxRevFilter) OnPack(b []byte) ([]byte, error) {
	r := make([]byte, len(b))
	for i := range b {
		r[len(b)-1-i] = b[i]
	}
	return r, nil
}
func (f vxRevFilter) OnUnpack(b []byte) ([]byte, error) { return f.OnPack(b) }

func init() {
	xfer.Reg(vxMarkFilter{})
	xfer.Reg(vxXorFilter{})
	xfer.Reg(vxRevFilter{})
}

// vxBuf is an in-memory io.ReadWriter; every Write is recorded; Read delivers
// at most up to the next cut position (short reads), or chunk bytes.
type vxBuf struct {
	data   []byte
	off    int
	writes int
	reads  int
	chunk  int   // 0 = as much as fits
	cuts   []int // absolute stream offsets at which a Read stops short
}

func (b *vxBuf) Write(p []byte) (int, error) {
	b.writes++
	b.data = append(b.data, p...)
	return len(p), nil
}

func (b *vxBuf) Read(p []byte) (int, error) {
	b.reads++
	if b.off >= len(b.data) {
		return 0, io.EOF
	}
	if len(p) == 0 {
		return 0, nil
	}
	n := len(p)
	if b.chunk > 0 && n > b.chunk {
		n = b.chunk
	}
	if n > len(b.data)-b.off {
		n = len(b.data) - b.off
	}
	for _, c := range b.cuts {
		if c > b.off && c < b.off+n {
			n = c - b.off
		}
	}
	copy(p, b.data[b.off:b.off+n])
	b.off += n
	return n, nil
}

// vxRW glues a (possibly buffered) reader and a writer into an IOWithReadBuffer.
type vxRW struct {
	io.Reader
	io.Writer
}

func vxBuffered(b *vxBuf, size int) IOWithReadBuffer {
	return vxRW{bufio.NewReaderSize(b, size), b}
}

func vxBytesBody() MessageSetting {
	return WithNewBody(func(Header) interface{} { return new([]byte) })
}
