package socket

import (
	"io"
	"net"
	"time"
)

func init() { vxRegister("VX_C20_Socket", VX_C20_Socket) }

type vxSAddr string

func (a vxSAddr) Network() string { return "tcp" }
func (a vxSAddr) String() string  { return string(a) }

// vxSConn is a minimal in-memory net.Conn for socket-level harnesses.
type vxSConn struct {
	in     []byte
	off    int
	out    []byte
	closed bool
	remote string
}

func (c *vxSConn) Read(p []byte) (int, error) {
	if c.off >= len(c.in) {
		return 0, io.EOF
	}
	n := copy(p, c.in[c.off:])
	c.off += n
	return n, nil
}
func (c *vxSConn) Write(p []byte) (int, error)        { c.out = append(c.out, p...); return len(p), nil }
func (c *vxSConn) Close() error                       { c.closed = true; return nil }
func (c *vxSConn) LocalAddr() net.Addr                { return vxSAddr("local:1") }
func (c *vxSConn) RemoteAddr() net.Addr               { return vxSAddr(c.remote) }
func (c *vxSConn) SetDeadline(t time.Time) error      { return nil }
func (c *vxSConn) SetReadDeadline(t time.Time) error  { return nil }
func (c *vxSConn) SetWriteDeadline(t time.Time) error { return nil }

func vxPackFrame(seq int32, method string, body []byte) []byte {
	m := NewMessage()
	m.SetSeq(seq)
	m.SetMtype(1)
	m.SetServiceMethod(method)
	m.SetBody(body)
	w := &vxBuf{}
	if RawProtoFunc(w).Pack(m) != nil {
		panic("vxPackFrame")
	}
	return w.data
}

// VX_C20_Socket: a pooled socket that was used (id set, swap entries stored,
// input partly consumed with bytes left in its read buffer) and closed is
// handed out again for another connection: it behaves like a fresh one - no
// id, swap entry or buffered input byte of the previous use shows.
// args: nSecret, leftover(0 none, 1 previous connection had unread buffered bytes)[, lateAccess(0/1: the previous owner uses Swap/SetID after Close)]
func VX_C20_Socket(args []int) {
	vxPoolMode(1)
	secret := vxBytes("secret", args[0])
	c1 := &vxSConn{remote: "alice:1"}
	c1.in = append(c1.in, vxPackFrame(1, "/a", []byte("first"))...)
	if args[1] == 1 {
		c1.in = append(c1.in, vxPackFrame(2, "/secret", secret)...)
		c1.in = append(c1.in, 0, 0) // and a partial third frame
	}
	s := GetSocket(c1)
	s.SetID("alice")
	s.Swap().Store("token", string(secret))
	m := NewMessage(vxBytesBody())
	vxAssume(s.ReadMessage(m) == nil && m.Seq() == 1)
	vxAssume(s.Close() == nil)
	vxAssert(c1.closed, "closing the pooled socket closes its connection")
	if len(args) > 2 && args[2] == 1 {
		// the previous owner touches the socket once more after closing it
		s.Swap().Store("late", string(secret))
		s.SetID("alice-again")
	}
	// next user
	c2 := &vxSConn{remote: "bob:2"}
	c2.in = vxPackFrame(7, "/b", []byte("bob's"))
	r := GetSocket(c2)
	vxAssert(r == s, "pool hands the recycled socket out again")
	f := NewSocket(&vxSConn{remote: "bob:2", in: vxPackFrame(7, "/b", []byte("bob's"))})
	vxAssert(r.ID() == f.ID() && r.ID() == "bob:2", "recycled socket has the default id of its new connection")
	vxAssert(r.SwapLen() == 0 && r.Swap().Len() == 0, "recycled socket carries no swap entry")
	_, had := r.Swap().Load("token")
	_, had2 := r.Swap().Load("late")
	vxAssert(!had && !had2, "previous user's swap entry is not observable")
	vxAssert(r.Raw() == net.Conn(c2) && r.RemoteAddr().String() == "bob:2", "recycled socket is bound to the new connection")
	rm, fm := NewMessage(vxBytesBody()), NewMessage(vxBytesBody())
	re, fe := r.ReadMessage(rm), f.ReadMessage(fm)
	vxAssert(re == nil && fe == nil, "first frame of the new connection decodes")
	vxAssert(rm.Seq() == 7 && rm.ServiceMethod() == "/b" && string(*(rm.Body().(*[]byte))) == "bob's", "recycled socket reads the new connection's bytes only (nothing buffered from the previous one)")
	out := NewMessage()
	out.SetSeq(9)
	out.SetMtype(1)
	out.SetServiceMethod("/w")
	out.SetBody([]byte("w"))
	vxAssert(r.WriteMessage(out) == nil && len(c2.out) > 0 && len(c1.out) == 0, "recycled socket writes to the new connection only")
	vxAssert(!vxMentions(c2.out, secret), "nothing of the previous use is transmitted")
	vxCover("c20.socket")
}
