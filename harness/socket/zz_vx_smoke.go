package socket

import "strconv"

func init() {
	vxRegister("VX_Smoke_Minus", VX_Smoke_Minus)
}

// VX_Smoke_Minus: minus(a,b) returns a non-negative difference or an error.
func VX_Smoke_Minus(args []int) {
	a := vxInt("a")
	b := vxInt("b")
	vxAssume(a >= 0)
	r, err := minus(a, b)
	if err == nil {
		vxCover("minus.ok")
		vxAssert(r >= 0 && r == a-b && b >= 0, "minus result")
	} else {
		vxCover("minus.err")
		vxAssert(b < 0 || a < b, "minus error only when b<0 or a<b")
	}
}

func init() { vxRegister("VX_Smoke_NumError", VX_Smoke_NumError) }

// VX_Smoke_NumError: the error text of a failed numeric parse of symbolic
// text can be built (engine self-test for strconv.Quote on symbolic strings).
func VX_Smoke_NumError(args []int) {
	s := vxString("s", 2)
	_, err := strconv.Atoi(s)
	if err != nil {
		msg := err.Error()
		vxAssert(len(msg) > 10, "error text built")
		vxCover("smoke.numerror")
	}
}
