package socket

func init() {
	vxRegister("VX_Smoke_Minus", VX_Smoke_Minus)
}

// VX_Smoke_Minus: minus(a,b) returns a non-negative difference or an error.
func VX_Smoke_Minus(args []int) {
	a := vxInt("a")
	b := vxInt("b")
	vxAssume(a >= 0)
	r, err := minus(a, b)
	if err == nil {
		vxCover("minus.ok")
		vxAssert(r >= 0 && r == a-b && b >= 0, "minus result")
	} else {
		vxCover("minus.err")
		vxAssert(b < 0 || a < b, "minus error only when b<0 or a<b")
	}
}
