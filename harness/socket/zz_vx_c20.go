package socket

import (
	"bytes"

	"github.com/henrylee2cn/erpc/v6/utils"
	"github.com/henrylee2cn/erpc/v6/xfer"
)

func init() {
	vxRegister("VX_C20_Message", VX_C20_Message)
	vxRegister("VX_C20_Args", VX_C20_Args)
	vxRegister("VX_C20_XferPipe", VX_C20_XferPipe)
	vxRegister("VX_C20_ByteBuffer", VX_C20_ByteBuffer)
}

// vxDirtyMessage makes every field of m differ from its default.
func vxDirtyMessage(m Message, nMeta, nStr int) {
	m.SetSeq(vxInt32("d.seq"))
	m.SetMtype(vxByte("d.mtype"))
	m.SetServiceMethod(vxString("d.method", nStr))
	m.SetStatus(NewStatus(vxInt32("d.code"), vxString("d.msg", nStr), vxString("d.cause", nStr)))
	for k := 0; k < nMeta; k++ {
		m.Meta().Add(vxString("d.mk", nStr), vxString("d.mv", nStr))
	}
	m.SetBodyCodec(vxByte("d.codec"))
	m.SetBody(vxBytes("d.body", nStr))
	m.XferPipe().Append('A', 'C')
	m.SetSize(vxUint32("d.size"))
}

// vxSameMessage compares every observable field and the packed bytes.
func vxSameMessage(a, b Message, what string) {
	vxAssert(a.Seq() == b.Seq(), what+": seq")
	vxAssert(a.Mtype() == b.Mtype(), what+": mtype")
	vxAssert(a.ServiceMethod() == b.ServiceMethod(), what+": service method")
	vxAssert(a.StatusOK() == b.StatusOK(), what+": status ok")
	vxAssert(a.Status(true).Code() == b.Status(true).Code(), what+": status code")
	vxAssert(a.Status(true).Msg() == b.Status(true).Msg(), what+": status msg")
	vxAssert(a.BodyCodec() == b.BodyCodec(), what+": body codec")
	vxAssert(a.Size() == b.Size(), what+": size")
	vxAssert(a.Meta().Len() == b.Meta().Len(), what+": meta count")
	vxAssert(bytes.Equal(a.Meta().QueryString(), b.Meta().QueryString()), what+": meta content")
	vxAssert(a.XferPipe().Len() == b.XferPipe().Len(), what+": transfer pipe")
	vxAssert((a.Body() == nil) == (b.Body() == nil), what+": body presence")
	vxAssert(a.Context() == b.Context(), what+": context")
	wa, wb := &vxBuf{}, &vxBuf{}
	ea, eb := RawProtoFunc(wa).Pack(a), RawProtoFunc(wb).Pack(b)
	vxAssert((ea == nil) == (eb == nil), what+": pack outcome")
	if ea == nil && eb == nil {
		vxAssert(bytes.Equal(wa.data, wb.data), what+": transmitted bytes")
	}
}

// VX_C20_Message: a message that went through the pool (after an arbitrary
// previous use) is indistinguishable from a fresh one, before and after the
// next user's operations. args: nMeta (dirty), nStr, nextOp, nWire
func VX_C20_Message(args []int) {
	nMeta, nStr, nextOp, nWire := args[0], args[1], args[2], args[3]
	vxPoolMode(1)
	m := GetMessage()
	vxDirtyMessage(m, nMeta, nStr)
	PutMessage(m)
	r := GetMessage()
	vxAssert(r == m, "pool hands the recycled message out again")
	f := NewMessage()
	vxSameMessage(r, f, "recycled vs fresh (defaults)")
	// the next user's operations, applied to both
	switch nextOp {
	case 0: // parse metadata from the wire
		wire := vxBytes("n.wire", nWire)
		r.Meta().ParseBytes(append([]byte{}, wire...))
		f.Meta().ParseBytes(append([]byte{}, wire...))
	case 1: // ordinary setters
		k, v := vxString("n.k", nWire), vxString("n.v", nWire)
		r.Meta().Set(k, v)
		f.Meta().Set(k, v)
		s := vxInt32("n.seq")
		r.SetSeq(s)
		f.SetSeq(s)
	case 2: // status auto-init and pipe append
		r.Status(true).SetCode(vxInt32("n.code"))
		f.Status(true).SetCode(r.Status().Code())
		r.XferPipe().Append('B')
		f.XferPipe().Append('B')
	case 3: // body through the wire into the recycled message
		src := NewMessage()
		src.SetSeq(9)
		src.SetMtype(2)
		src.SetServiceMethod("/r")
		src.Meta().Add(vxString("n.k", nWire), "")
		src.SetBody(vxBytes("n.body", nWire))
		w := &vxBuf{}
		vxAssume(RawProtoFunc(w).Pack(src) == nil)
		w2 := &vxBuf{data: append([]byte{}, w.data...)}
		r.SetNewBody(func(Header) interface{} { return new([]byte) })
		f.SetNewBody(func(Header) interface{} { return new([]byte) })
		vxAssert(RawProtoFunc(w).Unpack(r) == nil, "unpack into recycled")
		vxAssert(RawProtoFunc(w2).Unpack(f) == nil, "unpack into fresh")
		rb, fb := *(r.Body().(*[]byte)), *(f.Body().(*[]byte))
		vxAssert(bytes.Equal(rb, fb), "body decoded into recycled equals fresh")
	}
	vxSameMessage(r, f, "recycled vs fresh (after next use)")
	vxCover("c20.message")
}

// VX_C20_Args: a released/reset metadata container behaves like a new one.
// args: nDirtyPairs, nStr (<0: concrete leftovers), nWire
func VX_C20_Args(args []int) {
	vxPoolMode(1)
	a := utils.AcquireArgs()
	for k := 0; k < args[0]; k++ {
		if args[1] < 0 { // concrete leftovers
			a.Add("k"+string(rune('0'+k)), "val"+string(rune('0'+k)))
		} else {
			a.Add(vxString("d.k", args[1]), vxString("d.v", args[1]))
		}
	}
	a.QueryString()
	utils.ReleaseArgs(a)
	r := utils.AcquireArgs()
	vxAssert(r == a, "pool hands the recycled Args out again")
	f := new(utils.Args)
	vxAssert(r.Len() == 0, "recycled Args empty")
	wire := vxBytes("n.wire", args[2])
	// (a malformed escape can make the parser panic - the session read loop
	// recovers that; here only "same as fresh" is judged)
	rp := vxParsePanics(r, append([]byte{}, wire...))
	fp := vxParsePanics(f, append([]byte{}, wire...))
	vxAssert(rp == fp, "recycled Args accepts what a fresh one accepts")
	if rp || fp {
		return
	}
	vxAssert(r.Len() == f.Len(), "same number of pairs as fresh")
	vxAssert(bytes.Equal(r.QueryString(), f.QueryString()), "same content as fresh")
	var rk, rv, fk, fv [][]byte
	r.VisitAll(func(k, v []byte) { rk = append(rk, append([]byte{}, k...)); rv = append(rv, append([]byte{}, v...)) })
	f.VisitAll(func(k, v []byte) { fk = append(fk, append([]byte{}, k...)); fv = append(fv, append([]byte{}, v...)) })
	for k := range fk {
		if k < len(rk) {
			vxAssert(bytes.Equal(rk[k], fk[k]), "same keys as fresh")
			vxAssert(bytes.Equal(rv[k], fv[k]), "same values as fresh")
		}
	}
	vxCover("c20.args")
}

func vxParsePanics(a *utils.Args, b []byte) (panicked bool) {
	defer func() {
		if recover() != nil {
			panicked = true
		}
	}()
	a.ParseBytes(b)
	return false
}

// VX_C20_XferPipe: Reset forgets every filter. args: nDirty
func VX_C20_XferPipe(args []int) {
	p := xfer.NewXferPipe()
	p.Append(vxChoosePipe(args[0])...)
	p.Reset()
	vxAssert(p.Len() == 0 && len(p.IDs()) == 0, "reset pipe is empty")
	x := vxBytes("x", 2)
	y, err := p.OnPack(x)
	vxAssert(err == nil && bytes.Equal(x, y), "reset pipe is the identity")
	p.Append('C')
	vxAssert(p.Len() == 1 && p.IDs()[0] == 'C', "only the new filter present")
	vxCover("c20.pipe")
}

// VX_C20_ByteBuffer: a recycled buffer exposes no earlier content. args: nDirty, nNew
func VX_C20_ByteBuffer(args []int) {
	vxPoolMode(1)
	b := utils.AcquireByteBuffer()
	b.Write(vxBytes("d", args[0]))
	utils.ReleaseByteBuffer(b)
	r := utils.AcquireByteBuffer()
	vxAssert(r.Len() == 0, "recycled buffer empty")
	n := vxBytes("n", args[1])
	r.Write(n)
	vxAssert(bytes.Equal(r.Bytes(), n), "recycled buffer holds exactly what was written")
	vxCover("c20.bytebuffer")
}

func init() { vxRegister("VX_C20_GetMessagePanic", VX_C20_GetMessagePanic) }

// VX_C20_GetMessagePanic: GetMessage is given settings of which a later one
// panics (WithXferPipe with an unregistered filter id is documented to); the
// caller recovers. The next message taken from the pool is indistinguishable
// from a fresh one. args: nStr, badSetting(0 unregistered filter id, 1 a user setting that panics)
func VX_C20_GetMessagePanic(args []int) {
	nStr := args[0]
	vxPoolMode(1)
	warm := GetMessage()
	PutMessage(warm)
	panicked := false
	func() {
		defer func() {
			if recover() != nil {
				panicked = true
			}
		}()
		bad := WithXferPipe(0xEE)
		if args[1] == 1 {
			bad = func(Message) { panic("user setting failed") }
		}
		GetMessage(
			WithServiceMethod(vxString("p.method", nStr)),
			WithAddMeta(vxString("p.k", nStr), vxString("p.v", nStr)),
			WithBody(vxBytes("p.body", nStr)),
			WithStatus(NewStatus(vxInt32("p.code"), "leftover", "")),
			bad,
		)
	}()
	vxAssert(panicked, "the bad setting panics")
	r := GetMessage()
	f := NewMessage()
	vxSameMessage(r, f, "message taken after a failed GetMessage vs fresh")
	vxCover("c20.getmessage-panic")
}

func init() { vxRegister("VX_C20_ArgsAfterDelete", VX_C20_ArgsAfterDelete) }

// VX_C20_ArgsAfterDelete: the previous user of a metadata container added
// pairs and deleted one of them (which one: solver's choice; also a key that
// occurs twice); the container is recycled. The next user adds its own pairs
// (values symbolic): the container then reads and encodes exactly like a fresh
// one given the same pairs. args: nPrev (pairs before the delete), nNext, nStr
func VX_C20_ArgsAfterDelete(args []int) {
	vxPoolMode(1)
	nPrev, nNext, nStr := args[0], args[1], args[2]
	a := utils.AcquireArgs()
	for k := 0; k < nPrev; k++ {
		a.Add("key"+string(rune('0'+k)), "value"+string(rune('0'+k)))
	}
	del := vxChoose("del", nPrev+1)
	if del == nPrev {
		a.Add("key0", "again") // a key that occurs twice, both deleted
		del = 0
	}
	a.Del("key" + string(rune('0'+del)))
	vxAssert(!a.Has("key"+string(rune('0'+del))), "a deleted key is gone")
	utils.ReleaseArgs(a)
	r := utils.AcquireArgs()
	vxAssert(r == a, "pool hands the recycled Args out again")
	f := new(utils.Args)
	vxAssert(r.Len() == 0, "recycled Args empty")
	for k := 0; k < nNext; k++ {
		key, val := "k"+string(rune('a'+k)), vxString("v", nStr)
		r.Add(key, val)
		f.Add(key, val)
	}
	vxAssert(r.Len() == f.Len(), "same number of pairs as a fresh container given the same pairs")
	vxAssert(bytes.Equal(r.QueryString(), f.QueryString()), "a recycled container (whose previous user deleted a pair) encodes like a fresh one")
	for k := 0; k < nNext; k++ {
		key := "k" + string(rune('a'+k))
		vxAssert(bytes.Equal(r.Peek(key), f.Peek(key)), "and reads like a fresh one")
	}
	vxCover("c20.args-after-delete")
}
