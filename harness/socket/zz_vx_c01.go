package socket

import "bytes"

func init() {
	vxRegister("VX_C01_BodyStableAcrossFrames", VX_C01_BodyStableAcrossFrames)
	vxRegister("VX_C04_ResetLeavesSharedStatus", VX_C04_ResetLeavesSharedStatus)
}

// VX_C01_BodyStableAcrossFrames: a raw-bytes body handed out for one frame is
// not affected by the protocol reading the next frame on the same connection
// (pooled receive buffers are reused). args: nBody1, nBody2, presized(0/1), pipeCode
func VX_C01_BodyStableAcrossFrames(args []int) {
	vxPoolMode(1)
	mk := func(tag string, n int) (Message, []byte) {
		m := NewMessage()
		m.SetSeq(1)
		m.SetMtype(2)
		m.SetServiceMethod("/r")
		b := vxBytes(tag, n)
		m.SetBody(b)
		vxAssume(m.XferPipe().Append(vxPipeOf(args[3])...) == nil)
		return m, append([]byte{}, b...)
	}
	m1, b1 := mk("one", args[0])
	m2, b2 := mk("two", args[1])
	w := &vxBuf{}
	p := RawProtoFunc(w)
	vxAssume(p.Pack(m1) == nil && p.Pack(m2) == nil)
	var res1 []byte
	if args[2] == 1 {
		res1 = make([]byte, 0, 64)
	}
	g1 := NewMessage(WithNewBody(func(Header) interface{} { return &res1 }))
	vxAssert(p.Unpack(g1) == nil, "first frame decodes")
	snapshot := append([]byte{}, res1...)
	vxAssert(bytes.Equal(snapshot, b1), "first body is what was sent")
	var res2 []byte
	g2 := NewMessage(WithNewBody(func(Header) interface{} { return &res2 }))
	vxAssert(p.Unpack(g2) == nil, "second frame decodes")
	vxAssert(bytes.Equal(res2, b2), "second body is what was sent")
	vxAssert(bytes.Equal(res1, snapshot), "first body unchanged after the next frame was read")
	vxAssert(!vxSameBacking(res1, res2) || len(res1) == 0 || len(res2) == 0, "bodies of different frames do not share storage")
	vxCover("c01.body-stable")
}

// VX_C04_ResetLeavesSharedStatus: resetting/recycling a message never writes
// into the Status object it was given (statuses are shared between calls).
// args: nStr
func VX_C04_ResetLeavesSharedStatus(args []int) {
	code := vxInt32("code")
	msg := vxString("msg", args[0])
	shared := NewStatus(code, msg, "cause")
	cause0 := shared.Cause()
	m := GetMessage()
	m.SetStatus(shared)
	m.SetSeq(3)
	PutMessage(m)
	vxAssert(shared.Code() == code, "shared status code untouched by message recycling")
	vxAssert(shared.Msg() == msg, "shared status msg untouched by message recycling")
	vxAssert(shared.Cause() == cause0, "shared status cause untouched by message recycling")
	m2 := NewMessage()
	m2.SetStatus(shared)
	m2.Reset()
	vxAssert(shared.Code() == code && shared.Msg() == msg, "shared status untouched by Reset")
	vxCover("c04.reset-status")
}
