package socket

import (
	"bytes"

	"github.com/henrylee2cn/erpc/v6/xfer"
)

func init() {
	vxRegister("VX_C12_PipeInverts", VX_C12_PipeInverts)
	vxRegister("VX_C12_PipeOnWire", VX_C12_PipeOnWire)
	vxRegister("VX_C12_Unregistered", VX_C12_Unregistered)
	vxRegister("VX_C12_TooLong", VX_C12_TooLong)
}

func vxChoosePipe(n int) []byte {
	ids := make([]byte, n)
	for k := range ids {
		ids[k] = byte('A' + vxChoose("filter", 3))
	}
	return ids
}

// VX_C12_PipeInverts: for every pipe of length n over the three registered
// harness filters (repeats allowed) and every payload, OnUnpack(OnPack(x))==x.
// args: pipeLen, nPayload
func VX_C12_PipeInverts(args []int) {
	ids := vxChoosePipe(args[0])
	p := xfer.NewXferPipe()
	vxAssert(p.Append(ids...) == nil, "registered filters accepted")
	vxAssert(p.Len() == len(ids), "pipe length")
	got := p.IDs()
	for k := range ids {
		vxAssert(got[k] == ids[k], "pipe ids in order")
	}
	x := vxBytes("x", args[1])
	orig := append([]byte{}, x...)
	packed, err := p.OnPack(x)
	vxAssert(err == nil, "OnPack ok")
	back, err := p.OnUnpack(packed)
	vxAssert(err == nil, "OnUnpack ok")
	vxAssert(len(back) == len(orig), "payload length restored")
	for k := range orig {
		if k < len(back) {
			vxAssert(back[k] == orig[k], "payload restored exactly")
		}
	}
	vxCover("c12.pipe.inverts")
}

// VX_C12_PipeOnWire: the receiver learns the pipe from the frame itself.
// args: pipeLen, nBody
func VX_C12_PipeOnWire(args []int) {
	ids := vxChoosePipe(args[0])
	m := NewMessage()
	m.SetSeq(3)
	m.SetMtype(1)
	m.SetServiceMethod("/p")
	body := vxBytes("body", args[1])
	m.SetBody(body)
	vxAssume(m.XferPipe().Append(ids...) == nil)
	w := &vxBuf{}
	vxAssume(RawProtoFunc(w).Pack(m) == nil)
	got := NewMessage(vxBytesBody())
	vxAssert(RawProtoFunc(w).Unpack(got) == nil, "frame with pipe decodes")
	gi := got.XferPipe().IDs()
	vxAssert(len(gi) == len(ids), "receiver's pipe length")
	for k := range ids {
		if k < len(gi) {
			vxAssert(gi[k] == ids[k], "receiver's pipe ids")
		}
	}
	gb := *(got.Body().(*[]byte))
	vxAssert(len(gb) == len(body), "body length through pipe")
	for k := range body {
		if k < len(gb) {
			vxAssert(gb[k] == body[k], "body through pipe")
		}
	}
	vxCover("c12.pipe.wire")
}

// VX_C12_Unregistered: a pipe naming an unregistered filter is refused, both
// by Append and by Unpack of a frame naming it. args: none
func VX_C12_Unregistered(args []int) {
	id := vxByte("id")
	vxAssume(id != 'A' && id != 'B' && id != 'C')
	p := xfer.NewXferPipe()
	vxAssert(p.Append(id) != nil, "Append of unregistered id fails")
	vxAssert(p.Len() == 0, "nothing appended")
	// frame: size, pipe len 1, id, then a valid remainder
	m := NewMessage()
	m.SetSeq(3)
	m.SetMtype(1)
	m.SetServiceMethod("/p")
	w := &vxBuf{}
	vxAssume(RawProtoFunc(w).Pack(m) == nil)
	frame := w.data
	// splice a pipe of one unknown id into the frame
	n := len(frame) + 1
	evil := []byte{byte(n >> 24), byte(n >> 16), byte(n >> 8), byte(n), 1, id}
	evil = append(evil, frame[5:]...)
	w2 := &vxBuf{data: evil}
	got := NewMessage(vxBytesBody())
	vxAssert(RawProtoFunc(w2).Unpack(got) != nil, "frame naming an unregistered filter is refused")
	vxCover("c12.unregistered")
}

// VX_C12_TooLong: the 256th filter is refused. args: none
func VX_C12_TooLong(args []int) {
	p := xfer.NewXferPipe()
	for k := 0; k < 255; k++ {
		vxAssert(p.Append('B') == nil, "up to 255 filters accepted")
	}
	vxAssert(p.Append('B') == xfer.ErrXferPipeTooLong, "256th filter refused")
	vxCover("c12.toolong")
}

func init() { vxRegister("VX_C12_PipeLengthOnWire", VX_C12_PipeLengthOnWire) }

// VX_C12_PipeLengthOnWire: a frame whose pipe has n filters (up to the
// documented 255) round-trips and leaves the stream in sync for the frame that
// follows it. args: n, nBody
func VX_C12_PipeLengthOnWire(args []int) {
	n := args[0]
	ids := make([]byte, n)
	for k := range ids {
		ids[k] = byte('A' + k%3)
	}
	m := NewMessage()
	m.SetSeq(3)
	m.SetMtype(1)
	m.SetServiceMethod("/p")
	body := vxBytes("body", args[1])
	orig := append([]byte{}, body...)
	m.SetBody(body)
	vxAssume(m.XferPipe().Append(ids...) == nil)
	w := &vxBuf{}
	vxAssume(RawProtoFunc(w).Pack(m) == nil)
	m2 := NewMessage()
	m2.SetSeq(4)
	m2.SetMtype(3)
	m2.SetServiceMethod("/next")
	m2.SetBody([]byte("nx"))
	vxAssume(RawProtoFunc(w).Pack(m2) == nil)
	got := NewMessage(vxBytesBody())
	pr := RawProtoFunc(w)
	vxAssert(pr.Unpack(got) == nil, "frame with a pipe of the documented length decodes")
	gi := got.XferPipe().IDs()
	vxAssert(len(gi) == n, "receiver's pipe length")
	for k := range ids {
		if k < len(gi) {
			vxAssert(gi[k] == ids[k], "receiver's pipe ids")
		}
	}
	gb := *(got.Body().(*[]byte))
	vxAssert(len(gb) == len(orig), "body length through pipe")
	for k := range orig {
		if k < len(gb) {
			vxAssert(gb[k] == orig[k], "body through pipe")
		}
	}
	got2 := NewMessage(vxBytesBody())
	vxAssert(pr.Unpack(got2) == nil && got2.Seq() == 4 && got2.ServiceMethod() == "/next" && string(*(got2.Body().(*[]byte))) == "nx", "the following frame decodes: stream still in sync")
	vxAssert(w.off == len(w.data), "both frames consumed exactly")
	vxCover("c12.pipe.length")
}

func init() { vxRegister("VX_C12_UnregisteredInPipe", VX_C12_UnregisteredInPipe) }

// VX_C12_UnregisteredInPipe: a pipe of up to three filters in which ONE
// position (any) names an unregistered filter and the others are registered:
// Append refuses it (and appends nothing of that call), and a frame announcing
// that pipe is refused instead of being passed through the remaining filters.
// args: n (pipe length 1..3), pos (position of the unregistered id)
func VX_C12_UnregisteredInPipe(args []int) {
	n, pos := args[0], args[1]
	id := vxByte("id")
	vxAssume(id != 'A' && id != 'B' && id != 'C')
	good := []byte{'A', 'B', 'C'}
	ids := make([]byte, n)
	for k := range ids {
		ids[k] = good[k%3]
	}
	ids[pos] = id
	p := xfer.NewXferPipe()
	vxAssert(p.Append(ids...) != nil, "Append of a pipe containing an unregistered id fails, wherever the id stands")
	// frame with that pipe: payload is what the registered filters would produce for an honest sender
	m := NewMessage()
	m.SetSeq(3)
	m.SetMtype(1)
	m.SetServiceMethod("/p")
	m.SetBody([]byte("bb"))
	for k := range ids {
		if k != pos {
			m.XferPipe().Append(ids[k])
		}
	}
	w := &vxBuf{}
	vxAssume(RawProtoFunc(w).Pack(m) == nil)
	frame := w.data
	// splice the full pipe (with the unknown id at pos) in place of the honest one
	honest := n - 1
	rest := frame[5+honest:]
	total := 4 + 1 + n + len(rest)
	evil := []byte{byte(total >> 24), byte(total >> 16), byte(total >> 8), byte(total), byte(n)}
	evil = append(evil, ids...)
	evil = append(evil, rest...)
	got := NewMessage(vxBytesBody())
	err := RawProtoFunc(&vxBuf{data: evil}).Unpack(got)
	vxAssert(err != nil, "a frame whose pipe names an unregistered filter at any position is refused")
	vxCover("c12.unregistered-in-pipe")
}

func init() { vxRegister("VX_C12_RecycledPipe", VX_C12_RecycledPipe) }

// VX_C12_RecycledPipe: one message object is used for two frames in a row
// (recycled through Reset, as the pools do): first with pipe P1, then with a
// pipe P2 chosen by the solver among the registered filters (same length or
// not). The second frame names exactly P2 on the wire, the receiver learns P2
// from the frame and restores the payload. args: pipeCode1, len2, nBody
func VX_C12_RecycledPipe(args []int) {
	p1, n2, nBody := vxPipeOf(args[0]), args[1], args[2]
	var p2 []byte
	for k := 0; k < n2; k++ {
		p2 = append(p2, byte('A'+vxChoose("f", 3)))
	}
	w := &vxBuf{}
	p := RawProtoFunc(w)
	m := GetMessage()
	fill := func(seq int32, pipe []byte, body []byte) {
		m.SetSeq(seq)
		m.SetMtype(1)
		m.SetServiceMethod("/r")
		m.SetBody(body)
		vxAssume(m.XferPipe().Append(pipe...) == nil)
	}
	b1, b2 := vxBytes("one", nBody), vxBytes("two", nBody)
	fill(1, p1, b1)
	vxAssert(bytes.Equal(m.XferPipe().IDs(), p1), "a message names the pipe it was given")
	vxAssume(p.Pack(m) == nil)
	m.Reset()
	fill(2, p2, b2)
	vxAssert(bytes.Equal(m.XferPipe().IDs(), p2), "a recycled message names the pipe of its present use, not of the previous one")
	vxAssume(p.Pack(m) == nil)
	for k, want := range [][]byte{p1, p2} {
		var res []byte
		g := NewMessage(WithNewBody(func(Header) interface{} { return &res }))
		err := p.Unpack(g)
		vxAssert(err == nil, "frame of a recycled message decodes")
		vxAssert(err != nil || bytes.Equal(g.XferPipe().IDs(), want), "the receiver learns the pipe from the frame itself")
		wb := b1
		if k == 1 {
			wb = b2
		}
		vxAssert(err != nil || bytes.Equal(res, wb), "and the payload is restored exactly")
	}
	vxCover("c12.recycled-pipe")
}
