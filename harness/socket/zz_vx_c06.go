package socket

import (
	"io"
)

func init() {
	vxRegister("VX_C06_RawUnpackBytes", VX_C06_RawUnpackBytes)
	vxRegister("VX_C06_RawOversize", VX_C06_RawOversize)
}

// vxUnpackRecover runs Unpack the way the session read loop does: a panic is
// caught (the read loop's recover turns it into a disconnect).
func vxUnpackRecover(p Proto, m Message) (err error, panicked bool) {
	defer func() {
		if r := recover(); r != nil {
			panicked = true
		}
	}()
	return p.Unpack(m), false
}

// VX_C06_RawUnpackBytes: an arbitrary byte stream of n bytes followed by EOF.
// The raw parser must terminate, never allocate more than the configured
// limit for the message, and a second, well-formed frame on a fresh protocol
// instance must still decode (pooled buffers carry nothing over).
// args: n (stream length), limit
func VX_C06_RawUnpackBytes(args []int) {
	n, limit := args[0], args[1]
	SetMessageSizeLimit(uint32(limit))
	defer SetMessageSizeLimit(0)
	stream := vxBytes("in", n)
	w := &vxBuf{data: stream}
	got := NewMessage(vxBytesBody())
	vxAllocGuard(limit, "receiver buffers no more than the per-message read limit")
	err, panicked := vxUnpackRecover(RawProtoFunc(w), got)
	vxAllocGuardEnd()
	SetMessageSizeLimit(0)
	if panicked {
		vxCover("c06.raw.panic-recovered")
	} else if err != nil {
		vxCover("c06.raw.error")
	} else {
		vxCover("c06.raw.decoded")
		vxAssert(int(got.Size()) <= limit, "accepted frame within limit")
		vxAssert(int(got.Size()) <= n, "accepted frame not larger than the input")
	}
	vxAssert(w.off <= n, "reader never consumed more than was sent")
	// another session of the process: fresh proto, well-formed frame
	m := NewMessage()
	m.SetSeq(5)
	m.SetMtype(1)
	m.SetServiceMethod("/ok")
	m.SetBody([]byte("zz"))
	w2 := &vxBuf{}
	vxAssume(RawProtoFunc(w2).Pack(m) == nil)
	g2 := NewMessage(vxBytesBody())
	vxAssert(RawProtoFunc(w2).Unpack(g2) == nil, "other session still decodes after hostile input")
	vxAssert(g2.Seq() == 5 && g2.ServiceMethod() == "/ok" && string(*(g2.Body().(*[]byte))) == "zz", "other session's frame intact")
}

// VX_C06_RawOversize: a frame announcing more than the limit is refused after
// the 4-byte prefix, before any payload byte is consumed or buffered.
// args: limit, nTail
func VX_C06_RawOversize(args []int) {
	limit, nTail := args[0], args[1]
	SetMessageSizeLimit(uint32(limit))
	defer SetMessageSizeLimit(0)
	size := vxUint32("size")
	vxAssume(size > uint32(limit))
	stream := []byte{byte(size >> 24), byte(size >> 16), byte(size >> 8), byte(size)}
	stream = append(stream, vxBytes("tail", nTail)...)
	w := &vxBuf{data: stream}
	got := NewMessage(vxBytesBody())
	vxAllocGuard(limit, "oversize frame: nothing buffered beyond the limit")
	err := RawProtoFunc(w).Unpack(got)
	vxAllocGuardEnd()
	vxAssert(err != nil, "oversize frame refused")
	vxAssert(err != io.EOF && err != io.ErrUnexpectedEOF, "refused by the size check, not by running out of input")
	vxAssert(w.off == 4, "payload not consumed")
	vxCover("c06.raw.oversize-refused")
}
