package socket

import "io"


func init() {
	vxRegister("VX_C05_RawRoundTrip", VX_C05_RawRoundTrip)
}

// VX_C05_RawRoundTrip: Unpack(Pack(m)) preserves every field (raw protocol).
// args: nMethod, nBody, nMetaPairs, nMetaKV, statusMode(0 none,1 symbolic), nStatusStr, seqMode
func VX_C05_RawRoundTrip(args []int) {
	nMethod, nBody, nMeta, nKV, statusMode, nStat := args[0], args[1], args[2], args[3], args[4], args[5]
	m := NewMessage()
	var seq int32
	switch args[6] {
	case 0:
		seq = vxInt32("seq")
	case 1:
		seq = int32(vxByte("seq8"))
	default:
		seq = int32(args[6])
	}
	mtype := vxByte("mtype")
	method := vxString("method", nMethod)
	codecID := vxByte("codec")
	body := vxBytes("body", nBody)
	m.SetSeq(seq)
	m.SetMtype(mtype)
	m.SetServiceMethod(method)
	m.SetBodyCodec(codecID)
	m.SetBody(body)
	var keys, vals []string
	for k := 0; k < nMeta; k++ {
		key := vxString("mk", nKV)
		val := vxString("mv", nKV)
		keys = append(keys, key)
		vals = append(vals, val)
		m.Meta().Add(key, val)
	}
	var code int32
	var smsg, scause string
	if statusMode == 1 {
		code = vxInt32("code")
		smsg = vxString("smsg", nStat)
		scause = vxString("scause", nStat)
		m.SetStatus(NewStatus(code, smsg, scause))
	}
	w := &vxBuf{}
	err := RawProtoFunc(w).Pack(m)
	vxAssume(err == nil)
	vxAssert(w.writes == 1, "Pack performs exactly one Write")
	vxAssert(int(m.Size()) == len(w.data), "Pack: reported size equals frame length")

	got := NewMessage(WithNewBody(func(Header) interface{} { return new([]byte) }))
	err = RawProtoFunc(w).Unpack(got)
	vxAssert(err == nil, "Unpack of a packed frame succeeds")
	vxCover("c05.raw.unpacked")
	vxAssert(got.Seq() == seq, "seq round trip")
	vxAssert(got.Mtype() == mtype, "mtype round trip")
	vxAssert(got.ServiceMethod() == method, "service method round trip")
	vxAssert(got.BodyCodec() == codecID, "body codec round trip")
	vxAssert(got.Size() == m.Size(), "size round trip")
	gb := got.Body().(*[]byte)
	vxAssert(len(*gb) == nBody, "body length round trip")
	for k := 0; k < nBody && k < len(*gb); k++ {
		vxAssert((*gb)[k] == body[k], "body byte round trip")
	}
	if nKV == 0 && nMeta > 0 {
		// a pair whose key and value are both empty has no representation in
		// the urlencoded metadata field (recorded as a known finding)
		vxAssert(got.Meta().Len() == nMeta, "meta count round trip (pairs with empty key and empty value)")
	} else {
		vxAssert(got.Meta().Len() == nMeta, "meta count round trip")
	}
	idx := 0
	got.Meta().VisitAll(func(k, v []byte) {
		if idx < nMeta {
			vxAssert(string(k) == keys[idx], "meta key round trip (order)")
			vxAssert(string(v) == vals[idx], "meta value round trip (order)")
		}
		idx++
	})
	if statusMode == 1 {
		st := got.Status()
		vxAssert(st != nil, "status present")
		vxAssert(st.Code() == code, "status code round trip")
		vxAssert(st.Msg() == smsg, "status msg round trip")
		if code != 0 {
			vxAssert(st.Cause() != nil && st.Cause().Error() == scause || scause == "" , "status cause round trip")
		}
	} else {
		vxAssert(got.StatusOK(), "no status => OK")
	}
	vxAssert(w.off == len(w.data), "Unpack consumed exactly the frame")
}

func init() {
	vxRegister("VX_C05_RawStream", VX_C05_RawStream)
	vxRegister("VX_C05_RawSizeIndependent", VX_C05_RawSizeIndependent)
}

// vxPipeOf maps a small code to a transfer pipe: digits of code in base 4
// (1='A', 2='B', 3='C'), least significant first.
func vxPipeOf(code int) []byte {
	var ids []byte
	for code > 0 {
		d := code % 4
		code /= 4
		if d > 0 {
			ids = append(ids, byte('A'+d-1))
		}
	}
	return ids
}

// VX_C05_RawStream: two back-to-back frames delivered with short reads at
// solver-chosen stream offsets decode to the same two messages and consume
// exactly the two frames. args: pipeCode1, pipeCode2, nBody, nCuts, bufSize
func VX_C05_RawStream(args []int) {
	p1, p2, nBody, nCuts, bufSize := vxPipeOf(args[0]), vxPipeOf(args[1]), args[2], args[3], args[4]
	mk := func(tag string, seq int32, pipe []byte) (Message, []byte) {
		m := NewMessage()
		m.SetSeq(seq)
		m.SetMtype(vxByte(tag + "mtype"))
		m.SetServiceMethod("/a/" + tag)
		m.SetBodyCodec('s')
		body := vxBytes(tag+"body", nBody)
		m.SetBody(body)
		m.Meta().Add("k"+tag, "v")
		vxAssume(m.XferPipe().Append(pipe...) == nil)
		return m, body
	}
	m1, b1 := mk("x", 7, p1)
	m2, b2 := mk("y", -9, p2)
	w := &vxBuf{}
	pw := RawProtoFunc(w)
	vxAssume(pw.Pack(m1) == nil)
	l1 := len(w.data)
	vxAssume(pw.Pack(m2) == nil)
	total := len(w.data)
	vxAssert(w.writes == 2, "one Write per frame")
	for k := 0; k < nCuts; k++ {
		w.cuts = append(w.cuts, 1+vxChoose("cut", total-1))
	}
	var rw IOWithReadBuffer = w
	if bufSize > 0 {
		rw = vxBuffered(w, bufSize)
	}
	pr := RawProtoFunc(rw)
	check := func(want Message, wantBody []byte, what string) {
		got := NewMessage(vxBytesBody())
		err := pr.Unpack(got)
		vxAssert(err == nil, what+": Unpack succeeds under chunked delivery")
		vxAssert(got.Seq() == want.Seq() && got.Mtype() == want.Mtype(), what+": seq/mtype")
		vxAssert(got.ServiceMethod() == want.ServiceMethod(), what+": service method")
		vxAssert(got.Size() == want.Size(), what+": size depends on the message alone")
		gi, wi := got.XferPipe().IDs(), want.XferPipe().IDs()
		vxAssert(len(gi) == len(wi), what+": transfer pipe length")
		for k := range wi {
			if k < len(gi) {
				vxAssert(gi[k] == wi[k], what+": transfer pipe ids")
			}
		}
		gb := *(got.Body().(*[]byte))
		vxAssert(len(gb) == len(wantBody), what+": body length")
		for k := range wantBody {
			if k < len(gb) {
				vxAssert(gb[k] == wantBody[k], what+": body bytes")
			}
		}
		vxAssert(got.Meta().Len() == 1, what+": meta count")
	}
	check(m1, b1, "frame1")
	if bufSize == 0 {
		vxAssert(w.off == l1, "frame1 consumed exactly")
	}
	check(m2, b2, "frame2")
	vxCover("c05.stream.two-frames")
	// end of stream: next Unpack reports EOF, nothing left over
	got := NewMessage(vxBytesBody())
	err := pr.Unpack(got)
	vxAssert(err == io.EOF, "EOF exactly after the two frames")
	vxAssert(w.off == total, "stream consumed exactly")
}

// VX_C05_RawSizeIndependent: the size reported for a frame does not depend on
// what the protocol instance handled before. args: nBodyPrev, nBody
func VX_C05_RawSizeIndependent(args []int) {
	mk := func(tag string, n int) Message {
		m := NewMessage()
		m.SetSeq(vxInt32(tag + "seq"))
		vxAssume(m.Seq() >= 0 && m.Seq() < 36)
		m.SetMtype(vxByte(tag + "mtype"))
		m.SetServiceMethod("/m")
		m.SetBody(vxBytes(tag+"body", n))
		return m
	}
	prev := mk("p", args[0])
	m := mk("m", args[1])
	// fresh instance
	w0 := &vxBuf{}
	vxAssume(RawProtoFunc(w0).Pack(m) == nil)
	size0 := m.Size()
	g0 := NewMessage(vxBytesBody())
	vxAssume(RawProtoFunc(w0).Unpack(g0) == nil)
	// instance with history
	w1 := &vxBuf{}
	p1 := RawProtoFunc(w1)
	vxAssume(p1.Pack(prev) == nil)
	gp := NewMessage(vxBytesBody())
	vxAssume(p1.Unpack(gp) == nil)
	vxAssume(p1.Pack(m) == nil)
	vxAssert(m.Size() == size0, "Pack size independent of earlier traffic")
	g1 := NewMessage(vxBytesBody())
	vxAssert(p1.Unpack(g1) == nil, "unpack after history")
	vxAssert(g1.Size() == g0.Size() && g1.Size() == size0, "Unpack size independent of earlier traffic")
	vxCover("c05.size.independent")
}

func init() { vxRegister("VX_C05_ReusedMessage", VX_C05_ReusedMessage) }

// VX_C05_ReusedMessage: what a frame decodes to does not depend on the frames
// decoded before into the same (reset) message: two back-to-back frames are
// decoded into one reused message and into fresh ones. args: nVal
func VX_C05_ReusedMessage(args []int) {
	mk := func(seq int32, kv ...string) Message {
		m := NewMessage()
		m.SetSeq(seq)
		m.SetMtype(1)
		m.SetServiceMethod("/m")
		for k := 0; k+1 < len(kv); k += 2 {
			m.Meta().Add(kv[k], kv[k+1])
		}
		return m
	}
	v := vxString("v", args[0])
	m1 := mk(1, "flag", v, "trace", "xyz", "debug", "t"+v)
	m2 := mk(2, "flag", "", "trace", "xyz", "debug", "")
	w := &vxBuf{}
	p := RawProtoFunc(w)
	vxAssume(p.Pack(m1) == nil && p.Pack(m2) == nil)
	reused := NewMessage(vxBytesBody())
	vxAssert(p.Unpack(reused) == nil, "frame 1 decodes")
	reused.Reset(vxBytesBody())
	vxAssert(p.Unpack(reused) == nil, "frame 2 decodes into the reused message")
	vxAssert(reused.Seq() == 2 && reused.Meta().Len() == 3, "frame 2 header")
	vxAssert(string(reused.Meta().Peek("flag")) == "" && string(reused.Meta().Peek("debug")) == "" && string(reused.Meta().Peek("trace")) == "xyz", "frame 2's metadata does not depend on the frame decoded before")
	vxAssert(string(reused.Meta().QueryString()) == string(m2.Meta().QueryString()), "re-encoding the decoded metadata gives frame 2's metadata")
	vxCover("c05.reused")
}

func init() { vxRegister("VX_C05_RawRetained", VX_C05_RawRetained) }

// VX_C05_RawRetained: three raw-protocol frames back to back are decoded into
// three messages that stay alive; after all are decoded each still holds what
// was packed (no field of an earlier message lives in a recycled buffer).
// args: n (symbolic bytes per field of the first frame)
func VX_C05_RawRetained(args []int) {
	vxPoolMode(1)
	sm, sv, sb, ss := vxString("m", args[0]), vxString("v", args[0]), vxBytes("b", args[0]), vxString("s", args[0])
	methods := []string{"/alpha/" + sm, "/beta/second_one", "/gamma/third_reply_x"}
	bodies := [][]byte{append([]byte("first-"), sb...), []byte("2nd"), []byte("the third body")}
	vals := []string{"v1" + sv, "second-value", "3"}
	msgs := []string{"why-" + ss, "", "third failed"}
	w := &vxBuf{}
	pw := RawProtoFunc(w)
	for k := range methods {
		m := NewMessage()
		m.SetSeq(int32(10 + k))
		m.SetMtype(2)
		m.SetBodyCodec('s')
		m.SetServiceMethod(methods[k])
		m.SetBody(bodies[k])
		m.Meta().Add("k", vals[k])
		if msgs[k] != "" {
			m.SetStatus(NewStatus(int32(400+k), msgs[k], ""))
		}
		vxAssume(pw.Pack(m) == nil)
	}
	pr := RawProtoFunc(w)
	var got []Message
	for range methods {
		g := NewMessage(vxBytesBody())
		vxAssert(pr.Unpack(g) == nil, "frame decodes")
		got = append(got, g)
	}
	for k, g := range got {
		vxAssert(g.Seq() == int32(10+k) && g.Mtype() == 2 && g.BodyCodec() == 's', "retained message keeps its seq/type/codec")
		vxAssert(g.ServiceMethod() == methods[k], "retained message keeps its service method after later frames were decoded")
		vxAssert(string(g.Meta().Peek("k")) == vals[k] && g.Meta().Len() == 1, "retained message keeps its metadata")
		vxAssert(string(*(g.Body().(*[]byte))) == string(bodies[k]), "retained message keeps its body")
		if msgs[k] != "" {
			vxAssert(g.Status(true).Code() == int32(400+k) && g.Status(true).Msg() == msgs[k], "retained message keeps its status")
		} else {
			vxAssert(g.StatusOK(), "retained message keeps its OK status")
		}
	}
	vxAssert(w.off == len(w.data), "stream consumed exactly")
	vxCover("c05.raw.retained")
}

func init() { vxRegister("VX_C05_RawLongFields", VX_C05_RawLongFields) }

// VX_C05_RawLongFields: status text and metadata of the documented boundary
// lengths (around 255/256 and beyond, independently of each other), with one
// symbolic byte in each, round-trip through the raw protocol and leave the
// stream in sync for the next frame. args: statusMsgLen, metaValueLen
func VX_C05_RawLongFields(args []int) {
	mk := func(n int, c byte, sym byte) string {
		b := make([]byte, n)
		for k := range b {
			b[k] = c
		}
		if n > 0 {
			b[n/2] = sym
		}
		return string(b)
	}
	s1, s2 := vxByte("s1"), vxByte("s2")
	vxAssume(s1 >= 'a' && s1 <= 'z' && s2 >= 'a' && s2 <= 'z')
	msg, mv := mk(args[0], 'm', s1), mk(args[1], 'v', s2)
	m := NewMessage()
	m.SetSeq(9)
	m.SetMtype(2)
	m.SetBodyCodec('s')
	m.SetServiceMethod("/long")
	m.SetBody([]byte("body"))
	if args[0] > 0 {
		m.SetStatus(NewStatus(1001, msg, ""))
	}
	if args[1] > 0 {
		m.Meta().Add("k", mv)
	}
	w := &vxBuf{}
	pw := RawProtoFunc(w)
	vxAssume(pw.Pack(m) == nil)
	next := NewMessage()
	next.SetSeq(10)
	next.SetMtype(1)
	next.SetServiceMethod("/next")
	next.SetBody([]byte("nx"))
	vxAssume(pw.Pack(next) == nil)
	pr := RawProtoFunc(w)
	got := NewMessage(vxBytesBody())
	uerr, panicked := vxUnpackRecover(pr, got)
	decoded := uerr == nil && !panicked
	if args[0] > 0 {
		vxAssert(decoded && got.Status(true).Code() == 1001 && got.Status(true).Msg() == msg, "[C04] a long status is received exactly as sent (raw protocol)")
	} else {
		vxAssert(decoded && got.StatusOK(), "[C04] an OK status next to long metadata is received as OK (raw protocol)")
	}
	vxAssert(decoded, "frame with long status/metadata decodes")
	vxAssert(got.Seq() == 9 && got.ServiceMethod() == "/long" && got.BodyCodec() == 's' && string(*(got.Body().(*[]byte))) == "body", "header and body round trip next to long fields")
	if args[1] > 0 {
		vxAssert(string(got.Meta().Peek("k")) == mv && got.Meta().Len() == 1, "long metadata round trip")
	} else {
		vxAssert(got.Meta().Len() == 0, "empty metadata round trip")
	}
	g2 := NewMessage(vxBytesBody())
	vxAssert(pr.Unpack(g2) == nil && g2.Seq() == 10 && g2.ServiceMethod() == "/next", "the following frame decodes: stream in sync")
	vxAssert(w.off == len(w.data), "both frames consumed exactly")
	vxCover("c05.raw.longfields")
}

func init() { vxRegister("VX_C01_OverlappingPacks", VX_C01_OverlappingPacks) }

// vxSlowW is a writer whose Write takes time: another Pack runs in the
// meantime (nested call), then the bytes are taken.
type vxSlowW struct {
	vxBuf
	during func()
}

func (w *vxSlowW) Write(p []byte) (int, error) {
	if f := w.during; f != nil {
		w.during = nil
		f()
	}
	return w.vxBuf.Write(p)
}

// VX_C01_OverlappingPacks: after earlier Packs failed at various points
// (body cannot be marshalled, transfer filter fails, message too big, write
// error), two Packs on two different connections overlap in time: each
// connection carries exactly its own message. args: failure(0 none, 1 body marshal, 2 unregistered codec, 3 oversize, 4 write error), nBody
func VX_C01_OverlappingPacks(args []int) {
	vxPoolMode(1)
	mk := func(seq int32, method string, body []byte) Message {
		m := NewMessage()
		m.SetSeq(seq)
		m.SetMtype(1)
		m.SetServiceMethod(method)
		m.SetBodyCodec('s')
		m.SetBody(body)
		return m
	}
	switch args[0] {
	case 1:
		bad := mk(9, "/bad", nil)
		bad.SetBody(make(chan int)) // the string/plain codec cannot marshal a channel
		vxAssert(RawProtoFunc(&vxBuf{}).Pack(bad) != nil, "a body that cannot be marshalled fails the Pack")
	case 2:
		bad := mk(9, "/bad", nil)
		bad.SetBodyCodec(0xEE)
		bad.SetBody(&struct{ A int }{1})
		vxAssert(RawProtoFunc(&vxBuf{}).Pack(bad) != nil, "an unregistered body codec fails the Pack")
	case 3:
		SetMessageSizeLimit(40)
		vxAssert(RawProtoFunc(&vxBuf{}).Pack(mk(9, "/bad", make([]byte, 64))) != nil, "an oversized message fails the Pack")
		SetMessageSizeLimit(0)
	case 4:
		vxAssert(RawProtoFunc(vxFailW{}).Pack(mk(9, "/bad", []byte("x"))) != nil, "a write error fails the Pack")
	}
	bodyA, bodyB := append([]byte("SECRET-OF-A-"), vxBytes("a", args[1])...), append([]byte("hello-from-B-"), vxBytes("b", args[1])...)
	wantA, wantB := string(bodyA), string(bodyB)
	wA, wB := &vxSlowW{}, &vxBuf{}
	var errB error
	wA.during = func() { errB = RawProtoFunc(wB).Pack(mk(3, "/method/of/b", bodyB)) }
	errA := RawProtoFunc(wA).Pack(mk(3, "/method/of/a", bodyA))
	vxAssert(errA == nil && errB == nil, "both Packs succeed")
	check := func(data []byte, method, body, who string) {
		got := NewMessage(vxBytesBody())
		r := &vxBuf{data: append([]byte{}, data...)}
		err := RawProtoFunc(r).Unpack(got)
		vxAssert(err == nil && r.off == len(r.data), "connection "+who+" carries exactly one well-formed frame")
		if err == nil {
			vxAssert(got.ServiceMethod() == method && got.Seq() == 3, "connection "+who+" carries its own header")
			b, _ := got.Body().(*[]byte)
			vxAssert(b != nil && string(*b) == body, "connection "+who+" carries its own body and nothing of the other message")
		}
	}
	check(wA.data, "/method/of/a", wantA, "A")
	check(wB.data, "/method/of/b", wantB, "B")
	vxCover("c01.overlapping-packs")
}

type vxFailW struct{}

func (vxFailW) Write(p []byte) (int, error) { return 0, errVxWrite }
func (vxFailW) Read(p []byte) (int, error)  { return 0, errVxWrite }

var errVxWrite = vxErr("write failed")

type vxErr string

func (e vxErr) Error() string { return string(e) }
