package socket

import (
	"io"
)

func init() {
	vxRegister("VX_C05_RawRoundTrip", VX_C05_RawRoundTrip)
}

// vxBuf is an in-memory io.ReadWriter; Write appends one record per call so
// that "one Write per frame" is observable; Read delivers at most chunk bytes.
type vxBuf struct {
	data   []byte
	off    int
	writes int
	chunk  int // 0 = as much as fits
}

func (b *vxBuf) Write(p []byte) (int, error) {
	b.writes++
	b.data = append(b.data, p...)
	return len(p), nil
}

func (b *vxBuf) Read(p []byte) (int, error) {
	if b.off >= len(b.data) {
		return 0, io.EOF
	}
	n := len(p)
	if b.chunk > 0 && n > b.chunk {
		n = b.chunk
	}
	if n > len(b.data)-b.off {
		n = len(b.data) - b.off
	}
	copy(p, b.data[b.off:b.off+n])
	b.off += n
	return n, nil
}

// VX_C05_RawRoundTrip: Unpack(Pack(m)) preserves every field (raw protocol).
// args: nMethod, nBody, nMetaPairs, nMetaKV, statusMode(0 none,1 symbolic), nStatusStr, seqMode
func VX_C05_RawRoundTrip(args []int) {
	nMethod, nBody, nMeta, nKV, statusMode, nStat := args[0], args[1], args[2], args[3], args[4], args[5]
	m := NewMessage()
	var seq int32
	switch args[6] {
	case 0:
		seq = vxInt32("seq")
	case 1:
		seq = int32(vxByte("seq8"))
	default:
		seq = int32(args[6])
	}
	mtype := vxByte("mtype")
	method := vxString("method", nMethod)
	codecID := vxByte("codec")
	body := vxBytes("body", nBody)
	m.SetSeq(seq)
	m.SetMtype(mtype)
	m.SetServiceMethod(method)
	m.SetBodyCodec(codecID)
	m.SetBody(body)
	var keys, vals []string
	for k := 0; k < nMeta; k++ {
		key := vxString("mk", nKV)
		val := vxString("mv", nKV)
		keys = append(keys, key)
		vals = append(vals, val)
		m.Meta().Add(key, val)
	}
	var code int32
	var smsg, scause string
	if statusMode == 1 {
		code = vxInt32("code")
		smsg = vxString("smsg", nStat)
		scause = vxString("scause", nStat)
		m.SetStatus(NewStatus(code, smsg, scause))
	}
	w := &vxBuf{}
	err := RawProtoFunc(w).Pack(m)
	vxAssume(err == nil)
	vxAssert(w.writes == 1, "Pack performs exactly one Write")
	vxAssert(int(m.Size()) == len(w.data), "Pack: reported size equals frame length")

	got := NewMessage(WithNewBody(func(Header) interface{} { return new([]byte) }))
	err = RawProtoFunc(w).Unpack(got)
	vxAssert(err == nil, "Unpack of a packed frame succeeds")
	vxCover("c05.raw.unpacked")
	vxAssert(got.Seq() == seq, "seq round trip")
	vxAssert(got.Mtype() == mtype, "mtype round trip")
	vxAssert(got.ServiceMethod() == method, "service method round trip")
	vxAssert(got.BodyCodec() == codecID, "body codec round trip")
	vxAssert(got.Size() == m.Size(), "size round trip")
	gb := got.Body().(*[]byte)
	vxAssert(len(*gb) == nBody, "body length round trip")
	for k := 0; k < nBody && k < len(*gb); k++ {
		vxAssert((*gb)[k] == body[k], "body byte round trip")
	}
	if nKV == 0 && nMeta > 0 {
		// a pair whose key and value are both empty has no representation in
		// the urlencoded metadata field (recorded as a known finding)
		vxAssert(got.Meta().Len() == nMeta, "meta count round trip (pairs with empty key and empty value)")
	} else {
		vxAssert(got.Meta().Len() == nMeta, "meta count round trip")
	}
	idx := 0
	got.Meta().VisitAll(func(k, v []byte) {
		if idx < nMeta {
			vxAssert(string(k) == keys[idx], "meta key round trip (order)")
			vxAssert(string(v) == vals[idx], "meta value round trip (order)")
		}
		idx++
	})
	if statusMode == 1 {
		st := got.Status()
		vxAssert(st != nil, "status present")
		vxAssert(st.Code() == code, "status code round trip")
		vxAssert(st.Msg() == smsg, "status msg round trip")
		if code != 0 {
			vxAssert(st.Cause() != nil && st.Cause().Error() == scause || scause == "" , "status cause round trip")
		}
	} else {
		vxAssert(got.StatusOK(), "no status => OK")
	}
	vxAssert(w.off == len(w.data), "Unpack consumed exactly the frame")
}
