package erpc

func init() {
	vxRegister("VX_C08_GracefulClose", VX_C08_GracefulClose)
	vxRegister("VX_C02_CloseThenLoss", VX_C02_CloseThenLoss)
}

func vxClosedChan(c chan struct{}) bool {
	select {
	case <-c:
		return true
	default:
		return false
	}
}

// VX_C08_GracefulClose: a handler has been entered; the session is closed
// locally; (variant) the peer half-closes so that the reader sees EOF while
// Close is waiting; then the handler finishes. Its genuine reply must still be
// written before the socket is closed, and Close returns only afterwards.
// args: variant(0 plain, 1 reader EOF while closing, 2 peer.Close instead of sess.Close), nBody
func VX_C08_GracefulClose(args []int) {
	variant, nBody := args[0], args[1]
	p := vxNewPeer()
	release := false
	entered := false
	route := &vxRoute{name: "slow"}
	route.fn = func(ctx *handlerCtx, arg []byte) (interface{}, *Status) {
		entered = true
		vxWaitUntil(func() bool { return release })
		return arg, nil
	}
	vxRouteCall(p, route)
	conn := newVxConn("srv:1", "cli:2")
	body := vxBytes("body", nBody)
	conn.feed(vxFrame(TypeCall, 5, "/slow", body))
	sess, st := p.ServeConn(conn)
	vxAssume(st.OK())
	vxWaitIdle()
	vxAssert(entered && conn.nWrites() == 0, "handler entered and blocked")
	closeDone := make(chan struct{})
	go func() {
		if variant == 2 {
			p.Close()
		} else {
			sess.Close()
		}
		close(closeDone)
	}()
	vxWaitIdle()
	vxAssert(!vxClosedChan(closeDone), "Close waits for the running handler")
	vxAssert(!conn.isClosed(), "socket not closed while a handler is running")
	if variant == 1 {
		conn.end() // the reader sees EOF while Close is in progress
		vxWaitIdle()
		vxAssert(!vxClosedChan(closeDone), "Close still waits for the running handler after the reader ended")
	}
	release = true
	vxWaitIdle()
	vxAssert(vxClosedChan(closeDone), "Close returns once the handler has finished")
	vxAssert(conn.nWrites() == 1, "the entered handler's reply was written")
	if conn.nWrites() == 1 {
		m, err := vxParse(conn.writes[0])
		vxAssert(err == nil && m.Mtype() == TypeReply && m.Seq() == 5, "it is the reply to that call")
		vxAssert(m.StatusOK(), "it is the genuine reply, not a connection error")
		vxAssert(len(vxBodyOf(m)) == nBody, "with the handler's result")
	}
	vxAssert(conn.isClosed(), "socket closed at the end")
	vxAssert(conn.writesAtClose == conn.nWrites(), "reply written before the socket was closed")
	vxAssert(!sess.Health(), "session unhealthy after close")
	vxAssert(vxBlockedThreads() == 0, "nothing left blocked")
	vxCover("c08.graceful")
}

// VX_C02_CloseThenLoss: a call is in flight, the local side starts Close()
// (which waits for it), then the connection is lost (or the reply arrives).
// The call must complete and Close must return.
// args: ending(0 connection lost, 1 reply arrives then connection ends)
func VX_C02_CloseThenLoss(args []int) {
	snaps := vxSnapSentinels()
	p := vxNewPeer()
	conn := newVxConn("cli:1", "srv:2")
	sess, st := p.ServeConn(conn)
	vxAssume(st.OK())
	var res []byte
	ch := make(chan CallCmd, 1)
	c := sess.AsyncCall("/a", []byte("A"), &res, ch)
	vxAssert(conn.nWrites() == 1 && !vxDone(c), "call written and pending")
	closeDone := make(chan struct{})
	go func() {
		sess.Close()
		close(closeDone)
	}()
	vxWaitIdle()
	vxAssert(!vxClosedChan(closeDone), "Close waits for the call issued before closing")
	if args[0] == 1 {
		rb := vxBytes("rbody", 1)
		conn.feed(vxFrame(TypeReply, c.Output().Seq(), "", rb))
		vxWaitIdle()
		vxAssert(vxDone(c) && c.StatusOK(), "[C08] reply sent by the peer before the connection is lost completes the call with that reply")
		vxAssert(len(res) == 1 && res[0] == rb[0], "[C08] with the peer's result")
	} else {
		conn.end()
		vxWaitIdle()
		vxAssert(vxDone(c), "call completes after close + connection loss without any further event")
		if vxDone(c) {
			vxAssert(!c.StatusOK() && c.Status().Code() == CodeConnClosed, "with a connection-closed status")
		}
	}
	vxAssert(len(ch) == 1, "delivered exactly once to the completion channel")
	vxAssert(vxClosedChan(closeDone), "Close returns")
	vxAssert(vxBlockedThreads() == 0, "nothing left blocked")
	vxCheckSentinels(snaps)
	vxCover("c02.close-then-loss")
}
