package erpc

import (
	"errors"
	"io"

	"github.com/henrylee2cn/erpc/v6/socket"
)

func init() {
	vxRegister("VX_C03_Frame", VX_C03_Frame)
}

var vxCallStages = []string{"", "PostReadCallHeader", "PreReadCallBody", "PostReadCallBody", "PreWriteReply", "PostWriteReply"}
var vxPushStages = []string{"", "PostReadPushHeader", "PreReadPushBody", "PostReadPushBody", "", ""}

type vxUnencodable struct{ X int }

// VX_C03_Frame: one received frame on a live session.
// args: mtypeMode(0 symbolic, 1 CALL, 3 PUSH, 2 REPLY-without-pending, 9 unsupported),
//       methodMode(0 registered, 1 unregistered, 2 empty), unknownHandler(0/1),
//       outcome(0 ok+body, 1 status, 2 panic, 3 body the codec cannot marshal, 4 panic after setting a body,
//               5 panic with a non-OK *Status value, 6 panic with an OK *Status value),
//       vetoStage(0 none, 1..3 before the handler, 4 PreWriteReply, 5 PostWriteReply), writeFail(0 none, 1 EOF at transport, 2 other transport error),
//       nBody, pipeCode(0 none, 1 one filter)
func VX_C03_Frame(args []int) {
	mtypeMode, methodMode, unknownH, outcome, vetoStage, writeFail, nBody, pipeCode := args[0], args[1], args[2], args[3], args[4], args[5], args[6], args[7]
	snaps := vxSnapSentinels()
	var log []string
	pl := newVxPlugin("rec", &log)
	p := vxNewPeer(pl)
	hstat := NewStatus(vxInt32("hcode"), "handler says no", "because")
	vxAssume(hstat.Code() != 0)
	route := &vxRoute{name: "m"}
	route.fn = func(ctx *handlerCtx, arg []byte) (interface{}, *Status) {
		switch outcome {
		case 1:
			return nil, hstat
		case 2:
			panic("handler panics")
		case 3:
			ctx.SetBodyCodec('s')
			return &vxUnencodable{1}, nil
		case 4:
			ctx.output.SetBody([]byte("half"))
			panic("handler panics late")
		case 5:
			panic(NewStatus(1001, "thrown", "detail")) // a panic value that happens to be a *Status
		case 6:
			panic(NewStatus(CodeOK, "", ""))
		}
		return arg, nil
	}
	proute := &vxRoute{name: "m"}
	vxRouteCall(p, route)
	vxRoutePush(p, proute)
	unknownCalls := 0
	if unknownH == 1 {
		p.SetUnknownCall(func(ctx UnknownCallCtx) (interface{}, *Status) {
			unknownCalls++
			return ctx.InputBodyBytes(), nil
		})
		p.SetUnknownPush(func(ctx UnknownPushCtx) *Status {
			unknownCalls++
			return nil
		})
	}
	veto := NewStatus(vxInt32("vcode"), "vetoed", "")
	vxAssume(veto.Code() != 0)
	if vetoStage > 0 {
		pl.verdict[vxCallStages[vetoStage]] = veto
		pl.verdict[vxPushStages[vetoStage]] = veto
	}
	var mtype byte
	switch mtypeMode {
	case 0:
		mtype = vxByte("mtype")
	case 9:
		mtype = vxByte("mtype")
		vxAssume(mtype != TypeCall && mtype != TypeReply && mtype != TypePush)
	default:
		mtype = byte(mtypeMode)
	}
	method := "/m"
	switch methodMode {
	case 1:
		method = "/" + vxString("meth", 1)
		vxAssume(method != "/m")
	case 2:
		method = ""
	}
	seq := int32(vxByte("seq")) + 1
	body := vxBytes("body", nBody)
	var settings []socket.MessageSetting
	if pipeCode == 1 {
		settings = append(settings, socket.WithXferPipe('v'))
	}
	conn := newVxConn("srv:1", "cli:2")
	switch writeFail {
	case 1:
		conn.failWrite = io.EOF
	case 2:
		conn.failWrite = errors.New("broken pipe")
	}
	conn.feed(vxFrame(mtype, seq, method, body, settings...))
	sess, stat := p.ServeConn(conn)
	vxAssume(stat.OK())
	vxWaitIdle()

	vxCheckSentinels(snaps)
	isCall, isPush := false, false
	if mtype == TypeCall {
		isCall = true
	}
	if mtype == TypePush {
		isPush = true
	}
	handlerRuns := route.calls + proute.calls + unknownCalls
	vxAssert(handlerRuns <= 1, "at most one handler invocation per frame")
	vxAssert(route.calls <= 1 && proute.calls <= 1, "registered handler at most once")
	n := conn.nWrites()
	vxAssert(n <= 1, "never answered twice")
	for _, st := range []string{"PostReadCallHeader", "PreReadCallBody", "PostReadCallBody", "PreWriteReply", "PostWriteReply"} {
		vxAssert(vxCount(log, "rec:"+st) <= 1, "[C09] each hook fires at most once per stage for one message: "+st)
	}
	if isCall {
		vxCover("c03.call")
		if writeFail == 0 {
			disconnected := !sess.Health() && conn.isClosed()
			vxAssert(n == 1 || disconnected, "CALL on a connection that stays up is answered exactly once")
			vxAssert(n == 0 || sess.Health(), "session still up after answering")
			if disconnected {
				vxCover("c03.call.disconnected-instead")
			}
		} else {
			vxAssert(n == 0, "no successful write on a failing transport")
		}
		if n == 1 {
			m, err := vxParse(conn.writes[0])
			vxAssert(err == nil, "reply parses")
			vxAssert(m.Mtype() == TypeReply, "answer is a REPLY")
			vxAssert(m.Seq() == seq, "REPLY carries the CALL's sequence number")
			vxAssert(m.XferPipe().Len() == len(settings), "[C12] REPLY goes through the caller's transfer pipe")
			// C04 server link: which status the reply carries
			ran := route.calls == 1 || unknownCalls == 1
			switch {
			case vetoStage > 0 && vetoStage <= 3 && !(vetoStage >= 2 && methodMode != 0 && unknownH == 0) && !(methodMode == 2):
				vxAssert(!ran, "[C09] vetoed CALL does not reach the handler")
				vxAssert(m.Status(true).Code() == veto.Code(), "[C09] vetoing plugin's status is what the caller receives")
			case methodMode == 2:
				if vetoStage != 1 {
					vxAssert(!ran && m.Status(true).Code() == CodeBadMessage, "[C04] empty service method => 400")
				}
			case methodMode == 1 && unknownH == 0:
				if vetoStage != 1 {
					vxAssert(!ran && m.Status(true).Code() == CodeNotFound, "[C04] unknown route => 404, no handler")
				}
			case methodMode == 1 && unknownH == 1:
				vxAssert(route.calls == 0, "[C04] unknown name never reaches a registered handler")
				vxAssert(unknownCalls == 1 && m.StatusOK(), "[C04] unknown-handler serves unregistered names")
			case outcome == 0:
				vxAssert(ran && m.StatusOK(), "[C04] handler OK => OK reply")
				rb := vxBodyOf(m)
				vxAssert(len(rb) == nBody, "reply body is the handler's result")
			case outcome == 1:
				vxAssert(ran && m.Status(true).Code() == hstat.Code(), "[C04] handler status => same code in reply")
				vxAssert(m.Status(true).Msg() == hstat.Msg(), "[C04] handler status => same message in reply")
			case outcome == 2 || outcome == 4 || outcome == 5 || outcome == 6:
				vxAssert(ran && m.Status(true).Code() == CodeInternalServerError, "[C04] handler panic => 500")
			case outcome == 3:
				vxAssert(ran && m.Status(true).Code() == CodeInternalServerError, "[C04] reply that cannot be encoded => 500 error reply instead")
			}
		}
	} else if isPush {
		vxCover("c03.push")
		vxAssert(n == 0, "PUSH is never answered")
	} else if mtype == TypeReply {
		vxCover("c03.stray-reply")
		vxAssert(n == 0 && handlerRuns == 0, "stray REPLY: nothing handled, nothing written")
	} else {
		vxCover("c03.unsupported")
		vxAssert(handlerRuns == 0 && n == 0, "unsupported type: no handler, no answer")
		vxAssert(!sess.Health() && conn.isClosed(), "unsupported type is answered by disconnecting")
		conn.end()
		vxWaitIdle()
		vxAssert(vxBlockedThreads() == 0, "[C06] the disconnect completes: nobody left blocked")
		vxAssert(vxCount(log, "rec:PostDisconnect") == 1, "[C07] disconnect hook ran exactly once")
	}
}
