package erpc

import (
	"context"
	"errors"
	"fmt"
	"net"
	"time"

	"github.com/henrylee2cn/erpc/v6/socket"
)

func init() {
	vxRegister("VX_C01_TwoSessionsSameSeq", VX_C01_TwoSessionsSameSeq)
	vxRegister("VX_C03_CancelledQueuedWrite", VX_C03_CancelledQueuedWrite)
	vxRegister("VX_C07_NoHandlerAfterClose", VX_C07_NoHandlerAfterClose)
	vxRegister("VX_C08_OverlappingClose", VX_C08_OverlappingClose)
	vxRegister("VX_C13_TwoOutages", VX_C13_TwoOutages)
	vxRegister("VX_C15_WriteFailedCauses", VX_C15_WriteFailedCauses)
}

// VX_C01_TwoSessionsSameSeq: two sessions of one peer each have their first
// call pending (equal sequence numbers); the reply arriving on one session
// completes that session's call only, with its own body and metadata.
// args: order(0 reply on A first, 1 on B first), nBody
func VX_C01_TwoSessionsSameSeq(args []int) {
	p := vxNewPeer()
	ca, cb := newVxConn("cli:1", "srvA:1"), newVxConn("cli:2", "srvB:1")
	sa, st := p.ServeConn(ca)
	vxAssume(st.OK())
	sb, st := p.ServeConn(cb)
	vxAssume(st.OK())
	vxWaitIdle()
	var ra, rb []byte
	a := sa.AsyncCall("/a", []byte("A"), &ra, make(chan CallCmd, 1))
	b := sb.AsyncCall("/b", []byte("B"), &rb, make(chan CallCmd, 1))
	vxAssert(a.Output().Seq() == b.Output().Seq(), "both sessions number their first call alike")
	ba, bb := append([]byte("for-A-"), vxBytes("ba", args[1])...), append([]byte("for-B-"), vxBytes("bb", args[1])...)
	first, second := ca, cb
	if args[0] == 1 {
		first, second = cb, ca
	}
	reply := func(c *vxConn) {
		if c == ca {
			c.feed(vxFrame(TypeReply, a.Output().Seq(), "", ba, socket.WithAddMeta("for", "A")))
		} else {
			c.feed(vxFrame(TypeReply, b.Output().Seq(), "", bb, socket.WithAddMeta("for", "B")))
		}
	}
	reply(first)
	vxWaitIdle()
	if args[0] == 0 {
		vxAssert(vxDone(a) && !vxDone(b), "the reply on session A completes A's call and nothing else")
	} else {
		vxAssert(vxDone(b) && !vxDone(a), "the reply on session B completes B's call and nothing else")
	}
	reply(second)
	vxWaitIdle()
	vxAssert(vxDone(a) && vxDone(b), "[C02] both calls completed")
	if vxDone(a) && vxDone(b) {
		vxAssert(a.StatusOK() && string(ra) == string(ba) && string(a.InputMeta().Peek("for")) == "A", "call A receives the reply that arrived on session A")
		vxAssert(b.StatusOK() && string(rb) == string(bb) && string(b.InputMeta().Peek("for")) == "B", "call B receives the reply that arrived on session B")
	}
	vxCover("c01.two-sessions-same-seq")
}

// vxSlowConn is a scripted conn whose Write can be made to block.
type vxSlowConn struct {
	*vxConn
	hold chan struct{}
}

func (c *vxSlowConn) Write(p []byte) (int, error) {
	if h := c.hold; h != nil {
		<-h
	}
	return c.vxConn.Write(p)
}

// VX_C03_CancelledQueuedWrite: a reply write is stuck in the transport while
// a push with a cancellable context queues behind it; the context is
// cancelled; the transport drains. Later CALLs on the session are still
// answered exactly once. args: none
func VX_C03_CancelledQueuedWrite(args []int) {
	p := vxNewPeer()
	route := &vxRoute{name: "h"}
	vxRouteCall(p, route)
	conn := &vxSlowConn{vxConn: newVxConn("srv:1", "cli:2")}
	s, st := p.ServeConn(conn)
	vxAssume(st.OK())
	vxWaitIdle()
	conn.hold = make(chan struct{})
	conn.feed(vxFrame(TypeCall, 1, "/h", []byte("one")))
	vxWaitIdle() // the reply to CALL 1 is stuck in the transport, holding the write lock
	ctx, cancel := context.WithCancel(context.Background())
	pushed := make(chan *Status, 1)
	go func() { pushed <- s.Push("/n", []byte("n"), socket.WithContext(ctx)) }()
	vxWaitIdle() // the push queues behind the stuck write
	cancel()
	h := conn.hold
	conn.hold = nil
	close(h)
	vxWaitIdle()
	vxAssert(len(pushed) == 1, "the push returns")
	conn.feed(vxFrame(TypeCall, 2, "/h", []byte("two")))
	conn.feed(vxFrame(TypeCall, 3, "/nope", []byte("three")))
	vxWaitIdle()
	n := map[int32]int{}
	for _, w := range conn.writes {
		if m, err := vxParse(w); err == nil && m.Mtype() == TypeReply {
			n[m.Seq()]++
		}
	}
	vxAssert(s.Health(), "the session stays up")
	vxAssert(n[1] == 1 && n[2] == 1 && n[3] == 1, "every CALL on the live session is answered exactly once, also after a write was abandoned while queued")
	vxAssert(vxBlockedThreads() == 0 || s.Health(), "nobody wedged")
	vxCover("c03.cancelled-queued-write")
}

// VX_C07_NoHandlerAfterClose: the reader is in the middle of receiving a CALL
// (parked in a header hook) when a local Close runs to completion; when the
// reader continues no handler starts on the closed session. args: kind(0 CALL, 1 PUSH)
func VX_C07_NoHandlerAfterClose(args []int) {
	var log []string
	pl := newVxPlugin("rec", &log)
	rel := make(chan struct{})
	entered := make(chan struct{}, 1)
	stage := "PostReadCallHeader"
	mtype := TypeCall
	if args[0] == 1 {
		stage, mtype = "PostReadPushHeader", TypePush
	}
	pl.onHook = func(st string) {
		if st == stage {
			entered <- struct{}{}
			<-rel
		}
	}
	p := vxNewPeer(pl)
	route := &vxRoute{name: "h"}
	vxRouteCall(p, route)
	vxRoutePush(p, route)
	conn := newVxConn("srv:1", "cli:2")
	s, st := p.ServeConn(conn)
	vxAssume(st.OK())
	conn.feed(vxFrame(mtype, 1, "/h", []byte("x")))
	<-entered // the reader is inside the header hook of the frame
	closed := make(chan struct{})
	go func() {
		s.Close()
		close(closed)
	}()
	vxWaitIdle()
	if vxClosedChan(closed) {
		vxCover("c07.closed-while-reading")
		vxAssert(!s.Health() && p.CountSession() == 0, "closed session is unhealthy and unlisted")
		before := route.calls
		close(rel)
		vxWaitIdle()
		vxAssert(route.calls == before, "no new handler starts after the local close completed")
	} else {
		// Close waits for the frame being received: then the handler may run, and Close returns after it
		close(rel)
		vxWaitIdle()
		vxAssert(vxClosedChan(closed), "[C08] Close returns")
	}
	vxAssert(vxCount(log, "rec:PostDisconnect") == 1, "the disconnect hook ran exactly once")
	vxCover("c07.no-handler-after-close")
}

// VX_C08_OverlappingClose: while one local Close waits for a running handler,
// a second Close of the same session (directly, or through closing the peer)
// does not return before the handler has finished and its reply is written.
// args: which(0 Session.Close then Session.Close, 1 Session.Close then Peer.Close, 2 Peer.Close then Session.Close)
func VX_C08_OverlappingClose(args []int) {
	p := vxNewPeer()
	gate := make(chan struct{})
	entered := make(chan struct{}, 1)
	route := &vxRoute{name: "h"}
	route.fn = func(ctx *handlerCtx, arg []byte) (interface{}, *Status) {
		entered <- struct{}{}
		<-gate
		return arg, nil
	}
	vxRouteCall(p, route)
	conn := newVxConn("srv:1", "cli:2")
	s, st := p.ServeConn(conn)
	vxAssume(st.OK())
	conn.feed(vxFrame(TypeCall, 5, "/h", []byte("x")))
	<-entered
	c1, c2 := make(chan struct{}), make(chan struct{})
	note := ""
	if args[0] == 2 {
		go func() { p.Close(); close(c1) }()
	} else {
		go func() { s.Close(); close(c1) }()
	}
	vxWaitIdle()
	go func() {
		if args[0] == 1 {
			// Peer.Close only looks at the sessions still listed; one that is already closing is not waited for
			note = " (Peer.Close while a Session.Close of one of its sessions is still waiting)"
			p.Close()
		} else {
			s.Close()
		}
		close(c2)
	}()
	vxWaitIdle()
	vxAssert(!vxClosedChan(c1), "the first Close waits for the running handler")
	vxAssert(!vxClosedChan(c2), "an overlapping Close does not return while the handler entered before it is still running"+note)
	close(gate)
	vxWaitIdle()
	vxAssert(vxClosedChan(c1) && vxClosedChan(c2), "both return once the handler has finished")
	n := 0
	for _, w := range conn.writes {
		if m, err := vxParse(w); err == nil && m.Mtype() == TypeReply && m.Seq() == 5 && m.StatusOK() {
			n++
		}
	}
	vxAssert(n == 1, "the handler's genuine reply was written")
	vxAssert(conn.closes == 1, "[C07] the connection was closed exactly once")
	vxCover("c08.overlapping-close")
}

// VX_C13_TwoOutages: a redial-enabled client session goes through two outages
// that each need all of the configured retries; the budget is per outage: the
// session survives both. args: redialTimes, outages[, slow(1: a dial timeout is configured and every failing attempt outlasts it)]
func VX_C13_TwoOutages(args []int) {
	R, outages := args[0], args[1]
	cfg := PeerConfig{RedialTimes: int32(R), RedialInterval: vxRedialEvery}
	slow := len(args) > 2 && args[2] == 1
	if slow {
		// every failing attempt takes longer than the dial timeout (a long outage)
		cfg.DialTimeout = 60 * time.Millisecond
		if vxSymbolic() {
			// the engine's clock is virtual (timers fire only through vxFireTimers);
			// the length of the timeout is immaterial there
			cfg.DialTimeout = time.Hour
		}
	}
	p := NewPeer(cfg)
	var conns []*vxConn
	failNext := 0
	VXSetDialHook(func(addr string) (net.Conn, error) {
		if failNext > 0 {
			failNext--
			if slow {
				vxFireTimers()
			}
			return nil, errors.New("connection refused")
		}
		c := newVxConn(fmt.Sprintf("cli:%d", len(conns)), addr)
		conns = append(conns, c)
		return c, nil
	})
	defer VXSetDialHook(nil)
	s, st := p.Dial("srv:1")
	vxAssume(st.OK())
	s.SetID("user-1")
	vxWaitIdle()
	for o := 0; o < outages; o++ {
		failNext = R // the immediate attempt and all retries but the last fail
		conns[len(conns)-1].end()
		vxWaitIdle()
		if slow {
			// natively every failing attempt really takes its time
			for k := 0; k < 2*R+2; k++ {
				vxWaitIdle()
			}
		}
		got, ok := p.GetSession("user-1")
		vxAssert(ok && got == s && s.Health(), "an outage that needs no more than the configured retries is survived, whatever happened in earlier outages")
		select {
		case <-s.CloseNotify():
			vxFail("the close notification does not fire while the session can still redial")
		default:
		}
		c := s.AsyncCall("/x", []byte("q"), new([]byte), make(chan CallCmd, 1))
		last := conns[len(conns)-1]
		vxAssert(last.nWrites() >= 1, "later call goes out on the newest connection")
		last.feed(vxFrame(TypeReply, c.Output().Seq(), "", []byte("ok")))
		vxWaitIdle()
		vxAssert(vxDone(c) && c.StatusOK(), "later calls succeed once the server is reachable")
	}
	vxCover("c13.two-outages")
}

// VX_C15_WriteFailedCauses: writes abandoned because their context is over
// report Write Failed with the cause of their own context, whatever failures
// the process has seen before. args: order(0 deadline first, 1 cancel first)
func VX_C15_WriteFailedCauses(args []int) {
	snaps := vxSnapSentinels()
	p := vxNewPeer()
	conn := newVxConn("cli:1", "srv:2")
	s, st := p.ServeConn(conn)
	vxAssume(st.OK())
	vxWaitIdle()
	expired, c1 := context.WithDeadline(context.Background(), time.Unix(1, 0))
	defer c1()
	cancelled, c2 := context.WithCancel(context.Background())
	c2()
	try := func(ctx context.Context, want string) {
		st := s.Push("/n", []byte("n"), socket.WithContext(ctx))
		vxAssert(st.Code() == CodeWriteFailed, "a push whose context is over fails with Write Failed")
		vxAssert(st.Cause() != nil && st.Cause().Error() == want, "and reports the cause of its own context, not of an earlier failure")
		cmd := s.AsyncCall("/c", []byte("c"), new([]byte), make(chan CallCmd, 1), socket.WithContext(ctx))
		vxAssert(vxDone(cmd) && cmd.Status().Code() == CodeWriteFailed && cmd.Status().Cause().Error() == want, "likewise for a call")
	}
	if args[0] == 0 {
		try(expired, "context deadline exceeded")
		try(cancelled, "context canceled")
		try(expired, "context deadline exceeded")
	} else {
		try(cancelled, "context canceled")
		try(expired, "context deadline exceeded")
	}
	vxCheckSentinels(snaps)
	vxCover("c15.write-failed-causes")
}

func init() { vxRegister("VX_C02_DuplicateReply", VX_C02_DuplicateReply) }

// VX_C02_DuplicateReply: the peer sends the reply to a pending call twice,
// back to back. The call completes exactly once; nothing crashes; the session
// stays usable or is cleanly disconnected. args: chanCap, nBody
func VX_C02_DuplicateReply(args []int) {
	p := vxNewPeer()
	conn := newVxConn("cli:1", "srv:2")
	s, st := p.ServeConn(conn)
	vxAssume(st.OK())
	vxWaitIdle()
	var res []byte
	ch := make(chan CallCmd, args[0])
	cmd := s.AsyncCall("/a", []byte("x"), &res, ch)
	body := vxBytes("body", args[1])
	f := vxFrame(TypeReply, cmd.Output().Seq(), "", body)
	conn.feed(append(append([]byte{}, f...), f...)) // the same reply twice in one segment
	vxWaitIdle()
	vxAssert(vxDone(cmd) && cmd.StatusOK() && string(res) == string(body), "the call completes with the reply")
	vxAssert(len(ch) == 1, "a call is delivered exactly once to its completion channel, also when its reply arrives twice")
	conn.end()
	vxWaitIdle()
	vxAssert(vxBlockedThreads() == 0, "[C06] nobody left blocked once the input is exhausted")
	vxCover("c02.duplicate-reply")
}

func init() { vxRegister("VX_C01_SeqAcrossRedial", VX_C01_SeqAcrossRedial) }

// VX_C01_SeqAcrossRedial: a call issued while a redial-enabled client session
// is reconnecting goes out on the new connection; calls issued afterwards
// never share its sequence number, and every call receives its own reply.
// args: later (number of calls issued after the redial)
func VX_C01_SeqAcrossRedial(args []int) {
	p := NewPeer(PeerConfig{RedialTimes: 2, RedialInterval: vxRedialEvery})
	var conns []*vxConn
	hold := make(chan struct{})
	dials := 0
	VXSetDialHook(func(addr string) (net.Conn, error) {
		dials++
		if dials == 2 {
			<-hold // the redial is in progress while call A is issued
		}
		c := newVxConn(fmt.Sprintf("cli:%d", dials), addr)
		conns = append(conns, c)
		return c, nil
	})
	defer VXSetDialHook(nil)
	s, st := p.Dial("srv:1")
	vxAssume(st.OK())
	s.SetID("user-1")
	vxWaitIdle()
	// a warm-up call so that the counter has moved
	var r0 []byte
	c0 := s.AsyncCall("/warm", []byte("w"), &r0, make(chan CallCmd, 1))
	conns[0].feed(vxFrame(TypeReply, c0.Output().Seq(), "", []byte("warm")))
	vxWaitIdle()
	vxAssume(vxDone(c0) && c0.StatusOK())
	conns[0].end() // the connection is lost; the reader starts redialing and is held in the dial
	vxWaitIdle()
	type callT struct {
		cmd  CallCmd
		res  *[]byte
		want string
	}
	var calls []*callT
	issue := func(tag string) {
		res := new([]byte)
		calls = append(calls, &callT{s.AsyncCall("/op/"+tag, []byte(tag), res, make(chan CallCmd, 1)), res, "reply-for-" + tag})
	}
	started := make(chan struct{}, 1)
	go func() {
		started <- struct{}{}
		issue("A") // issued during the outage
	}()
	vxWaitIdle()
	close(hold)
	vxWaitIdle()
	vxAssume(len(calls) == 1 && len(conns) == 2 && s.Health())
	for k := 0; k < args[0]; k++ {
		issue(string(rune('B' + k)))
	}
	seen := map[int32]bool{}
	for _, c := range calls {
		if !vxDone(c.cmd) {
			vxAssert(!seen[c.cmd.Output().Seq()], "pending calls of one session never share a sequence number")
			seen[c.cmd.Output().Seq()] = true
		}
	}
	// the server answers every request it received on the new connection, oldest last
	nc := conns[1]
	for k := len(nc.writes) - 1; k >= 0; k-- {
		m, err := vxParse(nc.writes[k])
		if err != nil || m.Mtype() != TypeCall {
			continue
		}
		nc.feed(vxFrame(TypeReply, m.Seq(), "", []byte("reply-for-"+string(vxBodyOf(m)))))
		vxWaitIdle()
	}
	for _, c := range calls {
		vxAssert(vxDone(c.cmd), "[C02] every call completes")
		if vxDone(c.cmd) && c.cmd.StatusOK() {
			vxAssert(string(*c.res) == c.want, "a call that completes OK holds the reply to its own request")
		}
	}
	vxCover("c01.seq-across-redial")
}

func init() { vxRegister("VX_C16_ListenerOncePerConn", VX_C16_ListenerOncePerConn) }

// vxListener hands out queued scripted connections.
type vxListener struct {
	queue  []net.Conn
	closed bool
}

func (l *vxListener) Accept() (net.Conn, error) {
	vxWaitUntil(func() bool { return len(l.queue) > 0 || l.closed })
	if l.closed {
		return nil, errors.New("listener closed")
	}
	c := l.queue[0]
	l.queue = l.queue[1:]
	return c, nil
}
func (l *vxListener) Close() error   { l.closed = true; return nil }
func (l *vxListener) Addr() net.Addr { return vxAddr("srv:1") }

// vxGatekeeper is an accept-time exchange in the style of the auth checker:
// it reads the first frame of the connection and admits it iff the frame's
// body is the good token.
type vxGatekeeper struct {
	seen map[string]int
}

func (g *vxGatekeeper) Name() string { return "vxgatekeeper" }
func (g *vxGatekeeper) PostAccept(s PreSession) *Status {
	g.seen[s.RemoteAddr().String()]++
	var tok []byte
	in := s.PreReceive(func(Header) interface{} { return &tok })
	if !in.StatusOK() || string(tok) != "good" {
		return NewStatus(CodeUnauthorized, "bad token", "")
	}
	return nil
}

// VX_C16_ListenerOncePerConn: several connections are already queued when the
// accept loop of a listening peer gets to them: every connection gets its own
// accept-time exchange exactly once; a connection that failed it is closed and
// not listed, the others are served. args: n (connections), bad (index of the one with a wrong token, -1 none)
func VX_C16_ListenerOncePerConn(args []int) {
	n, bad := args[0], args[1]
	g := &vxGatekeeper{seen: map[string]int{}}
	p := vxNewPeer(g)
	handled := map[string]int{}
	p.SetUnknownCall(func(ctx UnknownCallCtx) (interface{}, *Status) {
		handled[ctx.Session().ID()]++
		return []byte("secret"), nil
	})
	lis := &vxListener{}
	var conns []*vxConn
	for k := 0; k < n; k++ {
		c := newVxConn("srv:1", fmt.Sprintf("cli:%d", k))
		tok := "good"
		if k == bad {
			tok = "evil"
		}
		c.feed(vxFrame(TypeAuthCall, 1, "", []byte(tok)))
		c.feed(vxFrame(TypeCall, 2, "/steal", []byte("x")))
		conns = append(conns, c)
		lis.queue = append(lis.queue, c)
	}
	go p.(*peer).serveListener(lis)
	vxWaitIdle()
	for k, c := range conns {
		id := fmt.Sprintf("cli:%d", k)
		vxAssert(g.seen[id] == 1, "the accept-time exchange happens exactly once per connection")
		if k == bad {
			vxAssert(handled[id] == 0 && c.isClosed(), "a connection that failed the exchange is closed and nothing is handled on it")
			_, listed := p.GetSession(id)
			vxAssert(!listed, "and it is not listed")
		} else {
			vxAssert(handled[id] == 1, "a connection that passed the exchange is served (once)")
		}
	}
	want := n
	if bad >= 0 {
		want--
	}
	vxAssert(p.CountSession() == want, "exactly the admitted connections are listed")
	lis.Close()
	vxCover("c16.listener")
}

func init() { vxRegister("VX_C02_CallDuringClose", VX_C02_CallDuringClose) }

// VX_C02_CallDuringClose: Close has been called and is waiting for a pending
// call X; a further call (or push) Y is issued on the same session, which may
// be a dialled session with redial enabled. Y completes (with a non-OK status)
// at once; when X's reply arrives X completes OK and Close returns; nothing
// stays blocked. args: redial(0 accepted-style session, 1 dialled with redial enabled), kind(0 call, 1 push)
func VX_C02_CallDuringClose(args []int) {
	redial, kind := args[0], args[1]
	var conn *vxConn
	var s Session
	if redial == 1 {
		VXSetDialHook(func(addr string) (net.Conn, error) {
			c := newVxConn("cli:1", addr)
			if conn == nil {
				conn = c
			}
			return c, nil
		})
		defer VXSetDialHook(nil)
		p := NewPeer(PeerConfig{RedialTimes: 2, RedialInterval: vxRedialEvery})
		var st *Status
		s, st = p.Dial("srv:2")
		vxAssume(st.OK())
	} else {
		p := vxNewPeer()
		conn = newVxConn("cli:1", "srv:2")
		var st *Status
		s, st = p.ServeConn(conn)
		vxAssume(st.OK())
	}
	vxWaitIdle()
	var rx []byte
	x := s.AsyncCall("/x", []byte("1"), &rx, make(chan CallCmd, 1))
	closeDone := make(chan struct{})
	go func() {
		s.Close()
		close(closeDone)
	}()
	vxWaitIdle()
	vxAssert(!vxClosedChan(closeDone) && !vxDone(x), "[C08] Close waits for the call issued before closing")
	yDone := make(chan struct{})
	var ych chan CallCmd
	go func() {
		if kind == 0 {
			ych = make(chan CallCmd, 1)
			s.AsyncCall("/y", []byte("2"), new([]byte), ych)
		} else {
			s.Push("/y", []byte("2"))
		}
		close(yDone)
	}()
	vxWaitIdle()
	vxAssert(vxClosedChan(yDone), "a call or push issued while the session is being closed returns")
	if kind == 0 && vxClosedChan(yDone) {
		vxAssert(len(ych) == 1, "the call issued while the session is being closed completes, delivered once")
		if len(ych) == 1 {
			y := <-ych
			vxAssert(!y.StatusOK(), "it is refused with a non-OK status")
		}
	}
	conn.feed(vxFrame(TypeReply, x.Output().Seq(), "", []byte("RX")))
	vxWaitIdle()
	vxAssert(vxDone(x) && x.StatusOK(), "the call issued before closing completes with the peer's reply")
	vxAssert(vxClosedChan(closeDone), "[C08] Close returns once the pending call completed")
	vxAssert(vxBlockedThreads() == 0, "nothing left blocked")
	vxCover("c02.call-during-close")
}
