package erpc

// Round 7 harnesses (root package).

func init() {
	vxRegister("VX_C07_HandlerAwaitsCloseNotify", VX_C07_HandlerAwaitsCloseNotify)
}

// VX_C07_HandlerAwaitsCloseNotify: a handler that runs until the session's
// close notification fires (the documented use of CloseNotify: "a channel that
// closes when the connection has gone away") is in flight when the session is
// closed locally (variant 0) or the remote end drops the connection (variant
// 1). The notification fires, the handler is released, the session ends: it
// is unhealthy, left the index, its disconnect hook ran exactly once, its
// connection is closed once and nobody stays blocked. args: variant
func VX_C07_HandlerAwaitsCloseNotify(args []int) {
	var log []string
	pl := newVxPlugin("rec", &log)
	p := vxNewPeer(pl)
	entered := make(chan struct{}, 1)
	left := make(chan struct{}, 1)
	route := &vxRoute{name: "h"}
	route.fn = func(ctx *handlerCtx, arg []byte) (interface{}, *Status) {
		entered <- struct{}{}
		<-ctx.Session().CloseNotify()
		left <- struct{}{}
		return arg, nil
	}
	vxRouteCall(p, route)
	conn := newVxConn("srv:1", "cli:2")
	s, st := p.ServeConn(conn)
	vxAssume(st.OK())
	conn.feed(vxFrame(TypeCall, 5, "/h", []byte("x")))
	vxWaitIdle()
	vxAssert(len(entered) == 1, "handler entered")
	closed := make(chan struct{})
	if args[0] == 0 {
		go func() {
			s.Close()
			close(closed)
		}()
	} else {
		conn.end()
		close(closed)
	}
	vxWaitIdle()
	select {
	case <-s.CloseNotify():
	default:
		vxFail("close notification fired once the session was closed or its connection lost (a handler is waiting for it)")
	}
	vxAssert(len(left) == 1, "the handler waiting for the close notification is released")
	vxAssert(vxClosedChan(closed), "Close returns")
	vxAssert(vxBlockedThreads() == 0, "nobody left blocked")
	vxAssert(!s.Health() && p.CountSession() == 0, "ended session is unhealthy and left the index")
	vxAssert(conn.closes == 1, "the connection is closed exactly once")
	vxAssert(vxCount(log, "rec:PostDisconnect") == 1, "the disconnect hook runs exactly once for an established session")
	vxCover("c07.handler-awaits-closenotify")
}
