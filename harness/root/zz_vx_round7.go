package erpc

// Round 7 harnesses (root package).

import (
	"context"
	"net"
	"time"
)

func init() {
	vxRegister("VX_C07_HandlerAwaitsCloseNotify", VX_C07_HandlerAwaitsCloseNotify)
	vxRegister("VX_C03_AfterDeadlineBoundWrite", VX_C03_AfterDeadlineBoundWrite)
	vxRegister("VX_C08_CloseDuringLaunch", VX_C08_CloseDuringLaunch)
	vxRegister("VX_C10_RewrittenName", VX_C10_RewrittenName)
	vxRegister("VX_C15_StatusThroughPreSession", VX_C15_StatusThroughPreSession)
	vxRegister("VX_C07_LostWhileEstablishing", VX_C07_LostWhileEstablishing)
	vxRegister("VX_C03_HandlerOutlastsContextAge", VX_C03_HandlerOutlastsContextAge)
}

// VX_C03_HandlerOutlastsContextAge: the peer is configured with a context age
// (the time limit of handling one CALL) and a handler takes longer than that.
// The CALL is handled once; it is answered exactly once (with the handler's
// reply or an error) or the session is disconnected - it is not silently
// dropped on a connection that stays up - and a later CALL is served normally.
// args: none
func VX_C03_HandlerOutlastsContextAge(args []int) {
	age := 60 * time.Millisecond
	if vxSymbolic() {
		age = time.Hour // virtual clock: the harness decides when the age has passed
	}
	p := NewPeer(PeerConfig{DefaultContextAge: age})
	runs := 0
	route := &vxRoute{name: "slow"}
	route.fn = func(ctx *handlerCtx, arg []byte) (interface{}, *Status) {
		runs++
		if runs == 1 {
			vxFireTimers() // this invocation outlasts the context age
		}
		return arg, nil
	}
	vxRouteCall(p, route)
	conn := newVxConn("srv:1", "cli:2")
	s, st := p.ServeConn(conn)
	vxAssume(st.OK())
	conn.feed(vxFrame(TypeCall, 5, "/slow", []byte("x")))
	vxWaitIdle()
	vxWaitIdle()
	vxAssert(runs == 1, "the CALL is handled once")
	answered := 0
	for _, w := range conn.writes {
		if m, err := vxParse(w); err == nil && m.Mtype() == TypeReply && m.Seq() == 5 {
			answered++
		}
	}
	vxAssert(answered <= 1, "never answered twice")
	vxAssert(answered == 1 || !s.Health(), "a CALL whose handler outlasts the context age is answered (or the session disconnected), not silently dropped on a connection that stays up")
	if s.Health() {
		conn.feed(vxFrame(TypeCall, 6, "/slow", []byte("y")))
		vxWaitIdle()
		ok := false
		for _, w := range conn.writes {
			if m, err := vxParse(w); err == nil && m.Mtype() == TypeReply && m.Seq() == 6 && m.StatusOK() {
				ok = true
			}
		}
		vxAssert(ok, "a later CALL on the session is served normally")
	}
	vxCover("c03.handler-outlasts-age")
}

// VX_C07_LostWhileEstablishing: the remote end is already gone (or sends one
// frame and goes) when the connection is being established: ServeConn (variant
// 0) or Dial (variant 1) start the session's reader, which sees the end of the
// input at once. For every schedule with <= k pre-emptions of reader and
// establishing goroutine: once things have settled the session is unhealthy,
// its close notification has fired, the disconnect hook ran exactly once and
// the index does not contain it. args: variant, preemptions
func VX_C07_LostWhileEstablishing(args []int) {
	var log []string
	pl := newVxPlugin("rec", &log)
	p := vxNewPeer(pl)
	conn := newVxConn("srv:1", "cli:2")
	conn.end()
	var s Session
	var st *Status
	vxSched(1, args[1])
	if args[0] == 0 {
		s, st = p.ServeConn(conn)
	} else {
		VXSetDialHook(func(addr string) (net.Conn, error) { return conn, nil })
		defer VXSetDialHook(nil)
		s, st = p.Dial("srv:1")
	}
	vxWaitIdle()
	vxSched(0, 0)
	vxAssume(st.OK())
	vxWaitIdle()
	vxAssert(!s.Health(), "a session whose connection was lost at once is unhealthy")
	select {
	case <-s.CloseNotify():
	default:
		vxFail("close notification fired")
	}
	vxAssert(p.CountSession() == 0, "a session whose connection was lost while it was being established is not left in the index")
	_, listed := p.GetSession(s.ID())
	vxAssert(!listed, "and cannot be looked up")
	vxAssert(vxCount(log, "rec:PostDisconnect") == 1, "the disconnect hook ran exactly once")
	vxCover("c07.lost-while-establishing")
}

// vxPreStatus is an accept hook that reports a status to the connecting side
// with PreSend / PreReply (what the auth checker does with its verdict) and
// then recycles the message it received.
type vxPreStatus struct {
	op   int
	give *Status
	ran  bool
}

func (p *vxPreStatus) Name() string { return "vxprestatus" }
func (p *vxPreStatus) PostAccept(s PreSession) *Status {
	p.ran = true
	switch p.op {
	case 0:
		s.PreSend(TypePush, "/verdict", nil, p.give)
	case 1:
		in := GetMessage()
		in.SetSeq(7)
		in.SetServiceMethod("/pre")
		s.PreReply(in, nil, p.give)
		PutMessage(in)
	case 2:
		in := s.PreReceive(func(Header) interface{} { return new([]byte) })
		PutMessage(in) // "the message should be released by socket.PutMessage when no longer used"
	}
	return nil
}

// VX_C15_StatusThroughPreSession: a status value that is shared between calls
// (a framework sentinel obtained from a failed operation, or a package-level
// status of the application) is handed to the pre-session API from an accept
// hook (PreSend, PreReply; PreReceive + PutMessage). Afterwards the value is
// what it was: same code, message, cause - and the framework reports its own
// failures as before. args: op(0 PreSend, 1 PreReply, 2 PreReceive+PutMessage), which(0 application status, 1 the connection-closed status a failed push returned)
func VX_C15_StatusThroughPreSession(args []int) {
	snaps := vxSnapSentinels()
	var shared *Status
	code := int32(0)
	if args[1] == 0 {
		code = 4000 + vxInt32("code")%1000
		vxAssume(code > 0)
		shared = NewStatus(code, "application verdict", "because")
	} else {
		dead := newVxConn("srv:1", "gone:9")
		ds, st := vxNewPeer().ServeConn(dead)
		vxAssume(st.OK())
		ds.Close()
		shared = ds.Push("/p", []byte("z"))
		code = shared.Code()
		vxAssert(code == CodeConnClosed, "a push on a closed session reports 102")
	}
	msg0, cause0 := shared.Msg(), vxCauseStr(shared)
	conn := newVxConn("srv:1", "cli:2")
	if args[0] == 2 {
		conn.feed(vxFrame(TypePush, 1, "/hello", []byte("x")))
	}
	hook := &vxPreStatus{op: args[0], give: shared}
	s, st := vxNewPeer(hook).ServeConn(conn)
	vxAssume(st.OK() && hook.ran)
	vxAssert(shared.Code() == code && shared.Msg() == msg0 && vxCauseStr(shared) == cause0, "a status handed to the pre-session API (and the message carrying it recycled) is unchanged afterwards")
	vxCheckSentinels(snaps)
	s.Close()
	ps := s.Push("/p", []byte("z"))
	vxAssert(ps.Code() == CodeConnClosed && ps.Msg() == "Connection Closed", "a push on a closed session still reports 102 Connection Closed")
	vxCover("c15.pre-session-status")
}

// vxRewrite is a header plugin that renames requests (what the shipped
// ignorecase plugin does with strings.ToLower): from -> to.
type vxRewrite struct{ from, to string }

func (r *vxRewrite) Name() string { return "rewrite" }
func (r *vxRewrite) PostReadCallHeader(ctx ReadCtx) *Status {
	if ctx.ServiceMethod() == r.from {
		ctx.ResetServiceMethod(r.to)
	}
	return nil
}
func (r *vxRewrite) PostReadPushHeader(ctx ReadCtx) *Status {
	if ctx.ServiceMethod() == r.from {
		ctx.ResetServiceMethod(r.to)
	}
	return nil
}

// VX_C10_RewrittenName: a header plugin renames a request before routing
// (ignorecase, alias tables). The request is dispatched under the name it has
// after the header hooks - the name every later stage and the reply see - and
// under no other: a request renamed to a registered name reaches exactly that
// name's handler, one renamed to an unregistered name yields Not Found without
// running the handler registered under its wire name. CALL and PUSH.
// args: kind(0 CALL, 1 PUSH), case(0 registered->registered, 1 unregistered->registered, 2 registered->unregistered)
func VX_C10_RewrittenName(args []int) {
	kind, cs := args[0], args[1]
	from, to := "/old", "/new"
	switch cs {
	case 1:
		from = "/alias"
	case 2:
		to = "/gone"
	}
	p := vxNewPeer(&vxRewrite{from: from, to: to})
	rOld, rNew := &vxRoute{name: "old"}, &vxRoute{name: "new"}
	if kind == 0 {
		vxRouteCall(p, rOld)
		vxRouteCall(p, rNew)
	} else {
		vxRoutePush(p, rOld)
		vxRoutePush(p, rNew)
	}
	conn := newVxConn("srv:1", "cli:2")
	_, st := p.ServeConn(conn)
	vxAssume(st.OK())
	mt := TypeCall
	if kind == 1 {
		mt = TypePush
	}
	conn.feed(vxFrame(mt, 9, from, []byte("x")))
	vxWaitIdle()
	if cs == 2 {
		vxAssert(rOld.calls == 0 && rNew.calls == 0, "a request renamed to an unregistered name invokes no registered handler")
		if kind == 0 {
			vxAssert(conn.nWrites() == 1, "[C03] CALL answered")
			if conn.nWrites() == 1 {
				m, e := vxParse(conn.writes[0])
				vxAssert(e == nil && m.Status(true).Code() == CodeNotFound, "and yields Not Found")
			}
		}
	} else {
		vxAssert(rNew.calls == 1, "a request renamed by a header plugin reaches the handler registered under its new name")
		vxAssert(rOld.calls == 0, "and not the handler registered under the name it had on the wire")
		if kind == 0 && conn.nWrites() == 1 {
			m, e := vxParse(conn.writes[0])
			vxAssert(e == nil && m.StatusOK(), "the renamed CALL is answered OK")
		}
	}
	vxCover("c10.rewritten")
}

// VX_C08_CloseDuringLaunch: a call's request has just been transmitted (the
// transport write has not returned to the launcher yet) when the session is
// closed locally. The call was issued before closing: Close waits for it, the
// peer's reply completes it with OK and the reply's body, and only then Close
// returns. args: none
func VX_C08_CloseDuringLaunch(args []int) {
	p := vxNewPeer()
	conn := newVxConn("cli:1", "srv:2")
	s, st := p.ServeConn(conn)
	vxAssume(st.OK())
	entered := make(chan struct{}, 1)
	rel := make(chan struct{})
	first := true
	conn.onWrite = func([]byte) {
		if first {
			first = false
			entered <- struct{}{}
			<-rel
		}
	}
	ch := make(chan CallCmd, 1)
	var res []byte
	fin := make(chan CallCmd, 1)
	go func() { fin <- s.AsyncCall("/a", []byte("1"), &res, ch) }()
	<-entered // the request is on the wire; the launch has not returned yet
	closed := make(chan struct{})
	go func() {
		s.Close()
		close(closed)
	}()
	vxWaitIdle()
	vxAssert(!vxClosedChan(closed), "Close waits for a call whose request is already on the wire")
	close(rel)
	vxWaitIdle()
	vxAssert(len(fin) == 1, "launch returns")
	req, e := vxParse(conn.writes[0])
	vxAssume(e == nil)
	vxAssert(!vxClosedChan(closed), "Close still waits for the pending call")
	conn.feed(vxFrame(TypeReply, req.Seq(), "", []byte("R")))
	vxWaitIdle()
	vxAssert(len(ch) == 1, "[C02] the call issued before Close completes")
	if len(ch) == 1 {
		cmd := <-ch
		vxAssert(cmd.Status().OK() && string(res) == "R", "a call issued before closing completes with the peer's reply, not with a connection error")
	}
	vxAssert(vxClosedChan(closed), "Close returns once the pending call has its reply")
	vxAssert(vxBlockedThreads() == 0, "nothing left blocked")
	vxCover("c08.close-during-launch")
}

// VX_C03_AfterDeadlineBoundWrite: a message that carries a deadline is written
// on a session (a push or a call with a context that has a timeout); later,
// after that deadline has passed, a CALL arrives. It is handled once and its
// reply is written: the deadline of an earlier message is not in force for a
// later one. args: first(0 push with a timeout context, 1 call with one)
func VX_C03_AfterDeadlineBoundWrite(args []int) {
	p := vxNewPeer()
	runs := 0
	route := &vxRoute{name: "h"}
	route.fn = func(ctx *handlerCtx, arg []byte) (interface{}, *Status) {
		runs++
		return arg, nil
	}
	vxRouteCall(p, route)
	conn := newVxConn("srv:1", "cli:2")
	s, st := p.ServeConn(conn)
	vxAssume(st.OK())
	ctx, cancel := context.WithTimeout(context.Background(), time.Hour) // the harness, not the clock, decides when it has passed
	defer cancel()
	if args[0] == 0 {
		vxAssert(s.Push("/p", []byte("1"), WithContext(ctx)).OK(), "push with a timeout context is written")
	} else {
		s.AsyncCall("/c", []byte("1"), new([]byte), make(chan CallCmd, 1), WithContext(ctx))
	}
	vxAssert(conn.nWrites() == 1, "first message written")
	conn.expireDeadlines() // time passes: that message's deadline is now in the past
	conn.feed(vxFrame(TypeCall, 7, "/h", []byte("x")))
	vxWaitIdle()
	vxAssert(runs == 1, "the CALL is handled once")
	vxAssert(conn.nWrites() == 2, "a CALL received after an earlier message's write deadline has passed is answered")
	if conn.nWrites() == 2 {
		m, e := vxParse(conn.writes[1])
		vxAssert(e == nil && m.Mtype() == TypeReply && m.Seq() == 7 && m.StatusOK(), "with its own OK reply")
	}
	vxAssert(s.Health(), "the session stays up")
	vxCover("c03.after-deadline-write")
}

// VX_C07_HandlerAwaitsCloseNotify: a handler that runs until the session's
// close notification fires (the documented use of CloseNotify: "a channel that
// closes when the connection has gone away") is in flight when the session is
// closed locally (variant 0) or the remote end drops the connection (variant
// 1). The notification fires, the handler is released, the session ends: it
// is unhealthy, left the index, its disconnect hook ran exactly once, its
// connection is closed once and nobody stays blocked. args: variant
func VX_C07_HandlerAwaitsCloseNotify(args []int) {
	var log []string
	pl := newVxPlugin("rec", &log)
	p := vxNewPeer(pl)
	entered := make(chan struct{}, 1)
	left := make(chan struct{}, 1)
	route := &vxRoute{name: "h"}
	route.fn = func(ctx *handlerCtx, arg []byte) (interface{}, *Status) {
		entered <- struct{}{}
		<-ctx.Session().CloseNotify()
		left <- struct{}{}
		return arg, nil
	}
	vxRouteCall(p, route)
	conn := newVxConn("srv:1", "cli:2")
	s, st := p.ServeConn(conn)
	vxAssume(st.OK())
	conn.feed(vxFrame(TypeCall, 5, "/h", []byte("x")))
	vxWaitIdle()
	vxAssert(len(entered) == 1, "handler entered")
	closed := make(chan struct{})
	if args[0] == 0 {
		go func() {
			s.Close()
			close(closed)
		}()
	} else {
		conn.end()
		close(closed)
	}
	vxWaitIdle()
	select {
	case <-s.CloseNotify():
	default:
		vxFail("close notification fired once the session was closed or its connection lost (a handler is waiting for it)")
	}
	vxAssert(len(left) == 1, "the handler waiting for the close notification is released")
	vxAssert(vxClosedChan(closed), "Close returns")
	vxAssert(vxBlockedThreads() == 0, "nobody left blocked")
	vxAssert(!s.Health() && p.CountSession() == 0, "ended session is unhealthy and left the index")
	vxAssert(conn.closes == 1, "the connection is closed exactly once")
	vxAssert(vxCount(log, "rec:PostDisconnect") == 1, "the disconnect hook runs exactly once for an established session")
	vxCover("c07.handler-awaits-closenotify")
}


// vxNamer is a dial/accept hook that names the session.
type vxNamer struct{ id string }

func (n *vxNamer) Name() string { return "vxnamer" }
func (n *vxNamer) PostDial(s PreSession, isRedial bool) *Status {
	s.SetID(n.id)
	return nil
}
