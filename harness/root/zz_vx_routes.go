package erpc

import "github.com/henrylee2cn/erpc/v6/socket"

func init() {
	vxRegister("VX_C10_RealRoutes", VX_C10_RealRoutes)
}

// Controllers registered through the real reflection-based route builders.
type VxCtrl struct {
	CallCtx
}

var vxCtrlSeqs []int32
var vxCtrlArgs []string

func (c *VxCtrl) EchoIt(arg *[]byte) ([]byte, *Status) {
	vxCtrlSeqs = append(vxCtrlSeqs, c.Seq())
	vxCtrlArgs = append(vxCtrlArgs, string(*arg))
	return *arg, nil
}

func (c *VxCtrl) FailIt(arg *[]byte) ([]byte, *Status) {
	vxCtrlSeqs = append(vxCtrlSeqs, c.Seq())
	return nil, NewStatus(777, "ctrl failed", "")
}

type VxPushCtrl struct {
	PushCtx
}

var vxPushNotes []string

func (c *VxPushCtrl) Note(arg *[]byte) *Status {
	vxPushNotes = append(vxPushNotes, c.ServiceMethod()+":"+string(*arg))
	return nil
}

var vxFuncCalls int

func VxFuncHandler(ctx CallCtx, arg *[]byte) ([]byte, *Status) {
	vxFuncCalls++
	return append([]byte("f:"), *arg...), nil
}

// VX_C10_RealRoutes: controller structs and handler functions registered
// through the real RouteCall/RoutePush/RouteCallFunc (reflection-based
// extraction, name mapping, controller pool); every returned name dispatches to
// exactly its handler, handlers see their own request's context, CALL and PUSH
// are separate. args: nBody
func VX_C10_RealRoutes(args []int) {
	vxCtrlSeqs, vxCtrlArgs, vxPushNotes, vxFuncCalls = nil, nil, nil, 0
	p := vxNewPeer()
	names := p.RouteCall(new(VxCtrl))
	vxAssert(len(names) == 3 && names[0] == "/vx_ctrl/echo_it" && names[1] == "/vx_ctrl/fail_it" && names[2] == "/vx_ctrl/gate_it", "struct registration returns one name per handler method")
	fname := p.RouteCallFunc(VxFuncHandler)
	vxAssert(fname == "/vx_func_handler", "function registration returns its name")
	pnames := p.RoutePush(new(VxPushCtrl))
	vxAssert(len(pnames) == 1 && pnames[0] == "/vx_push_ctrl/note", "push registration returns its name")
	conn := newVxConn("srv:1", "cli:2")
	b1, b2 := vxBytes("b1", args[0]), vxBytes("b2", args[0])
	conn.feed(vxFrame(TypeCall, 21, "/vx_ctrl/echo_it", b1))
	_, st := p.ServeConn(conn)
	vxAssume(st.OK())
	vxWaitIdle()
	conn.feed(vxFrame(TypeCall, 22, "/vx_ctrl/echo_it", b2))
	vxWaitIdle()
	conn.feed(vxFrame(TypeCall, 23, "/vx_ctrl/fail_it", []byte("x")))
	vxWaitIdle()
	conn.feed(vxFrame(TypeCall, 24, "/vx_func_handler", []byte("y")))
	vxWaitIdle()
	conn.feed(vxFrame(TypePush, 25, "/vx_push_ctrl/note", []byte("n")))
	vxWaitIdle()
	conn.feed(vxFrame(TypeCall, 26, "/vx_push_ctrl/note", []byte("z"))) // PUSH name used as CALL
	vxWaitIdle()
	vxAssert(len(vxCtrlSeqs) == 3 && vxCtrlSeqs[0] == 21 && vxCtrlSeqs[1] == 22 && vxCtrlSeqs[2] == 23, "[C01] a pooled controller sees the context of its own request")
	vxAssert(len(vxCtrlArgs) == 2 && vxCtrlArgs[0] == string(b1) && vxCtrlArgs[1] == string(b2), "[C01] a pooled controller sees its own request's argument")
	vxAssert(vxFuncCalls == 1, "function handler invoked under its name")
	vxAssert(len(vxPushNotes) == 1 && vxPushNotes[0] == "/vx_push_ctrl/note:n", "push controller invoked under its name only for a PUSH")
	vxAssert(conn.nWrites() == 5, "[C03] five CALLs answered, the PUSH not")
	if conn.nWrites() == 5 {
		want := []int32{0, 0, 777, 0, CodeNotFound}
		for k, w := range conn.writes {
			m, err := vxParse(w)
			vxAssert(err == nil && m.Seq() == []int32{21, 22, 23, 24, 26}[k], "[C03] replies carry their call's sequence number")
			if err == nil {
				vxAssert(m.Status(true).Code() == want[k], "[C04] reply status is the handler's (or 404)")
			}
		}
		m1, _ := vxParse(conn.writes[0])
		m2, _ := vxParse(conn.writes[1])
		m4, _ := vxParse(conn.writes[3])
		vxAssert(string(vxBodyOf(m1)) == string(b1) && string(vxBodyOf(m2)) == string(b2), "[C01] each reply carries the result for its own argument")
		vxAssert(string(vxBodyOf(m4)) == "f:y", "function handler's result replied")
	}
	vxCover("c10.realroutes")
}

func init() { vxRegister("VX_C01_CtrlOverlap", VX_C01_CtrlOverlap) }

var vxGate chan struct{}
var vxEntered chan string
var vxCtrlSeen []string

// GateIt parks until the harness opens the gate, then reports what its own
// context says about its request and stamps its reply.
func (c *VxCtrl) GateIt(arg *[]byte) ([]byte, *Status) {
	vxEntered <- string(*arg)
	<-vxGate
	tok := string(c.PeekMeta("token"))
	vxCtrlSeen = append(vxCtrlSeen, string(*arg)+"|"+tok+"|"+c.Session().ID())
	c.SetMeta("owner", tok)
	return append(append([]byte{}, *arg...), []byte("|"+tok)...), nil
}

// VX_C01_CtrlOverlap: two invocations of the same struct-controller method
// (registered through the real RouteCall) overlap in time, on the same or on
// two sessions; each sees its own request through its embedded context and its
// reply metadata goes out with its own reply. args: twoSessions(0/1), nTok
func VX_C01_CtrlOverlap(args []int) {
	vxGate, vxEntered, vxCtrlSeen = make(chan struct{}), make(chan string, 2), nil
	p := vxNewPeer()
	p.RouteCall(new(VxCtrl))
	t1, t2 := "A"+vxString("t1", args[1]), "B"+vxString("t2", args[1])
	for k := 1; k < len(t1); k++ {
		vxAssume(t1[k] >= 'a' && t1[k] <= 'z' && t2[k] >= 'a' && t2[k] <= 'z')
	}
	c1 := newVxConn("srv:1", "alice:1")
	_, st := p.ServeConn(c1)
	vxAssume(st.OK())
	c2 := c1
	if args[0] == 1 {
		c2 = newVxConn("srv:1", "bob:2")
		_, st = p.ServeConn(c2)
		vxAssume(st.OK())
	}
	c1.feed(vxFrame(TypeCall, 1, "/vx_ctrl/gate_it", []byte("first"), socket.WithAddMeta("token", t1)))
	vxWaitIdle()
	c2.feed(vxFrame(TypeCall, 2, "/vx_ctrl/gate_it", []byte("second"), socket.WithAddMeta("token", t2)))
	vxWaitIdle()
	vxAssert(len(vxEntered) == 2, "both invocations are running")
	close(vxGate)
	vxWaitIdle()
	vxAssert(len(vxCtrlSeen) == 2, "both finished")
	for _, s := range vxCtrlSeen {
		ok := s == "first|"+t1+"|alice:1" || (s == "second|"+t2+"|bob:2" && args[0] == 1) || (s == "second|"+t2+"|alice:1" && args[0] == 0)
		vxAssert(ok, "an invocation sees its own request's metadata and session through its context, not the overlapping one's")
	}
	check := func(w []byte, seq int32, arg, tok string) {
		m, err := vxParse(w)
		vxAssert(err == nil && m.Seq() == seq && m.StatusOK(), "[C03] reply for the call")
		if err == nil {
			vxAssert(string(vxBodyOf(m)) == arg+"|"+tok, "the result is what the handler computed from its own request")
			vxAssert(string(m.Meta().Peek("owner")) == tok, "reply metadata set by an invocation goes out with its own reply")
		}
	}
	var w1, w2 []byte
	for _, c := range []*vxConn{c1, c2} {
		for _, w := range c.writes {
			if m, err := vxParse(w); err == nil && m.Seq() == 1 {
				w1 = w
			} else if err == nil && m.Seq() == 2 {
				w2 = w
			}
		}
		if args[0] == 0 {
			break
		}
	}
	vxAssert(w1 != nil && w2 != nil, "[C03] both calls answered")
	if w1 != nil && w2 != nil {
		check(w1, 1, "first", t1)
		check(w2, 2, "second", t2)
	}
	vxCover("c01.ctrl-overlap")
}
