package erpc

import (
	"errors"
	"reflect"

	"github.com/henrylee2cn/erpc/v6/xfer"
)

// ---------------------------------------------------------------- routes without reflection on controllers

// vxRoute describes a handler whose behaviour is decided by the harness.
type vxRoute struct {
	name    string
	calls   int
	lastArg []byte
	lastMeta string
	fn      func(ctx *handlerCtx, arg []byte) (interface{}, *Status) // nil => echo
	push    func(ctx *handlerCtx, arg []byte) *Status
}

var vxBytesType = reflect.TypeOf([]byte{})

// vxCallMaker is a HandlersMaker: the route's reply/status handling mirrors
// the closure built by makeCallHandlersFromFunc.
func vxCallMaker(prefix string, spec interface{}, pc *PluginContainer) ([]*Handler, error) {
	r := spec.(*vxRoute)
	h := &Handler{
		name:            globalServiceMethodMapper(prefix, r.name),
		argElem:         vxBytesType,
		pluginContainer: pc,
		handleFunc: func(ctx *handlerCtx, argValue reflect.Value) {
			r.calls++
			arg := *(argValue.Interface().(*[]byte))
			r.lastArg = append([]byte{}, arg...)
			r.lastMeta = string(ctx.input.Meta().QueryString())
			var body interface{} = arg
			var stat *Status
			if r.fn != nil {
				body, stat = r.fn(ctx, arg)
			}
			if !stat.OK() {
				ctx.stat = stat
				ctx.output.SetStatus(stat)
			} else {
				ctx.output.SetBody(body)
			}
		},
	}
	return []*Handler{h}, nil
}

func vxPushMaker(prefix string, spec interface{}, pc *PluginContainer) ([]*Handler, error) {
	r := spec.(*vxRoute)
	h := &Handler{
		name:            globalServiceMethodMapper(prefix, r.name),
		argElem:         vxBytesType,
		pluginContainer: pc,
		handleFunc: func(ctx *handlerCtx, argValue reflect.Value) {
			r.calls++
			arg := *(argValue.Interface().(*[]byte))
			r.lastArg = append([]byte{}, arg...)
			r.lastMeta = string(ctx.input.Meta().QueryString())
			if r.push != nil {
				ctx.stat = r.push(ctx, arg)
			}
		},
	}
	return []*Handler{h}, nil
}

func vxRouteCall(p Peer, r *vxRoute, plugins ...Plugin) []string {
	return p.(*peer).router.subRouter.reg(pnCall, vxCallMaker, r, plugins)
}

func vxRoutePush(p Peer, r *vxRoute, plugins ...Plugin) []string {
	return p.(*peer).router.subRouter.reg(pnPush, vxPushMaker, r, plugins)
}

func vxNewPeer(plugins ...Plugin) Peer {
	return NewPeer(PeerConfig{}, plugins...)
}

// vxFilter is a registered transfer filter for root-package harnesses.
type vxFilter struct{}

func (vxFilter) ID() byte     { return 'v' }
func (vxFilter) Name() string { return "vxroot" }
func (vxFilter) OnPack(b []byte) ([]byte, error) {
	r := make([]byte, 0, len(b)+1)
	r = append(r, 0x7e)
	return append(r, b...), nil
}
func (vxFilter) OnUnpack(b []byte) ([]byte, error) {
	if len(b) == 0 || b[0] != 0x7e {
		return nil, errors.New("vxroot: bad marker")
	}
	return b[1:], nil
}

func init() { xfer.Reg(vxFilter{}) }

// ---------------------------------------------------------------- C15: framework statuses are immutable

type vxStatSnap struct {
	name  string
	st    *Status
	code  int32
	msg   string
	cause string
}

func vxCauseStr(s *Status) string {
	if c := s.Cause(); c != nil {
		return c.Error()
	}
	return ""
}

// vxSnapSentinels records the predefined statuses; vxCheckSentinels asserts
// that none of them was altered since.
func vxSnapSentinels() []vxStatSnap {
	all := map[string]*Status{
		"statConnClosed": statConnClosed, "statWriteFailed": statWriteFailed, "statDialFailed": statDialFailed,
		"statBadMessage": statBadMessage, "statNotFound": statNotFound, "statCodeMtypeNotAllowed": statCodeMtypeNotAllowed,
		"statInternalServerError": statInternalServerError, "statUnpreparedError": statUnpreparedError,
		"statInvalidOpError": statInvalidOpError, "statUnknownError": statUnknownError, "statHandleTimeout": statHandleTimeout,
	}
	names := []string{"statConnClosed", "statWriteFailed", "statDialFailed", "statBadMessage", "statNotFound", "statCodeMtypeNotAllowed", "statInternalServerError", "statUnpreparedError", "statInvalidOpError", "statUnknownError", "statHandleTimeout"}
	var out []vxStatSnap
	for _, n := range names {
		s := all[n]
		out = append(out, vxStatSnap{n, s, s.Code(), s.Msg(), vxCauseStr(s)})
	}
	return out
}

func vxCheckSentinels(snaps []vxStatSnap) {
	for _, sn := range snaps {
		vxAssert(sn.st.Code() == sn.code, "[C15] predefined status code unchanged: "+sn.name)
		vxAssert(sn.st.Msg() == sn.msg, "[C15] predefined status message unchanged: "+sn.name)
		vxAssert(vxCauseStr(sn.st) == sn.cause, "[C15] predefined status cause unchanged: "+sn.name)
	}
}
