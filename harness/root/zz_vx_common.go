package erpc

import (
	"errors"
	"io"
	"net"
	"reflect"
	"sync"
	"time"

	"github.com/henrylee2cn/erpc/v6/socket"
	"github.com/henrylee2cn/erpc/v6/xfer"
)

// ---------------------------------------------------------------- fake connection (stub S-CONN)

type vxAddr string

func (a vxAddr) Network() string { return "tcp" }
func (a vxAddr) String() string  { return string(a) }

// vxConn is a scripted net.Conn: Read delivers the bytes appended with feed()
// and blocks while none are available until the stream is ended (EOF) or the
// conn is closed; every Write is recorded whole.
type vxConn struct {
	mu        sync.Mutex
	in        []byte
	off       int
	ended     bool // no more input will come: Read returns io.EOF when drained
	closed    bool
	closes    int
	writesAtClose int
	writes    [][]byte
	failWrite error // if set, Write fails with it
	local     vxAddr
	remote    vxAddr
	chunk     int
}

var errVxClosed = errors.New("use of closed network connection")

func newVxConn(local, remote string) *vxConn {
	return &vxConn{local: vxAddr(local), remote: vxAddr(remote)}
}

func (c *vxConn) feed(b []byte) {
	c.mu.Lock()
	c.in = append(c.in, b...)
	c.mu.Unlock()
}

func (c *vxConn) end() {
	c.mu.Lock()
	c.ended = true
	c.mu.Unlock()
}

func (c *vxConn) readable() bool {
	c.mu.Lock()
	defer c.mu.Unlock()
	return c.off < len(c.in) || c.ended || c.closed
}

func (c *vxConn) Read(p []byte) (int, error) {
	vxWaitUntil(c.readable)
	c.mu.Lock()
	defer c.mu.Unlock()
	if c.closed {
		return 0, errVxClosed
	}
	if c.off >= len(c.in) {
		return 0, io.EOF
	}
	n := len(p)
	if c.chunk > 0 && n > c.chunk {
		n = c.chunk
	}
	if n > len(c.in)-c.off {
		n = len(c.in) - c.off
	}
	copy(p, c.in[c.off:c.off+n])
	c.off += n
	return n, nil
}

func (c *vxConn) Write(p []byte) (int, error) {
	c.mu.Lock()
	defer c.mu.Unlock()
	if c.closed {
		return 0, errVxClosed
	}
	if c.failWrite != nil {
		return 0, c.failWrite
	}
	c.writes = append(c.writes, append([]byte{}, p...))
	vxEvent("conn.write")
	return len(p), nil
}

func (c *vxConn) Close() error {
	c.mu.Lock()
	if !c.closed {
		c.writesAtClose = len(c.writes)
	}
	c.closed = true
	c.closes++
	c.mu.Unlock()
	vxEvent("conn.close")
	return nil
}

func (c *vxConn) isClosed() bool {
	c.mu.Lock()
	defer c.mu.Unlock()
	return c.closed
}

func (c *vxConn) nWrites() int {
	c.mu.Lock()
	defer c.mu.Unlock()
	return len(c.writes)
}

func (c *vxConn) LocalAddr() net.Addr                { return c.local }
func (c *vxConn) RemoteAddr() net.Addr               { return c.remote }
func (c *vxConn) SetDeadline(t time.Time) error      { return nil }
func (c *vxConn) SetReadDeadline(t time.Time) error  { return nil }
func (c *vxConn) SetWriteDeadline(t time.Time) error { return nil }

// ---------------------------------------------------------------- frames

type vxSink struct{ data []byte }

func (s *vxSink) Write(p []byte) (int, error) { s.data = append(s.data, p...); return len(p), nil }
func (s *vxSink) Read(p []byte) (int, error)  { return 0, io.EOF }

// vxFrame packs a message with the real raw protocol and returns its bytes.
func vxFrame(mtype byte, seq int32, method string, body []byte, settings ...socket.MessageSetting) []byte {
	m := socket.NewMessage(settings...)
	m.SetMtype(mtype)
	m.SetSeq(seq)
	m.SetServiceMethod(method)
	if m.BodyCodec() == 0 {
		m.SetBodyCodec('s')
	}
	if body != nil {
		m.SetBody(body)
	}
	s := &vxSink{}
	if err := socket.RawProtoFunc(s).Pack(m); err != nil {
		panic("vxFrame: " + err.Error())
	}
	return s.data
}

type vxSrc struct {
	data []byte
	off  int
}

func (s *vxSrc) Write(p []byte) (int, error) { return len(p), nil }
func (s *vxSrc) Read(p []byte) (int, error) {
	if s.off >= len(s.data) {
		return 0, io.EOF
	}
	n := copy(p, s.data[s.off:])
	s.off += n
	return n, nil
}

// vxParse decodes one frame written by the code under test (raw protocol).
func vxParse(frame []byte) (socket.Message, error) {
	m := socket.NewMessage(socket.WithNewBody(func(socket.Header) interface{} { return new([]byte) }))
	err := socket.RawProtoFunc(&vxSrc{data: frame}).Unpack(m)
	return m, err
}

func vxBodyOf(m socket.Message) []byte {
	if b, ok := m.Body().(*[]byte); ok && b != nil {
		return *b
	}
	return nil
}

// ---------------------------------------------------------------- routes without reflection on controllers

// vxRoute describes a handler whose behaviour is decided by the harness.
type vxRoute struct {
	name    string
	calls   int
	lastArg []byte
	lastMeta string
	fn      func(ctx *handlerCtx, arg []byte) (interface{}, *Status) // nil => echo
	push    func(ctx *handlerCtx, arg []byte) *Status
}

var vxBytesType = reflect.TypeOf([]byte{})

// vxCallMaker is a HandlersMaker: the route's reply/status handling mirrors
// the closure built by makeCallHandlersFromFunc.
func vxCallMaker(prefix string, spec interface{}, pc *PluginContainer) ([]*Handler, error) {
	r := spec.(*vxRoute)
	h := &Handler{
		name:            globalServiceMethodMapper(prefix, r.name),
		argElem:         vxBytesType,
		pluginContainer: pc,
		handleFunc: func(ctx *handlerCtx, argValue reflect.Value) {
			r.calls++
			arg := *(argValue.Interface().(*[]byte))
			r.lastArg = append([]byte{}, arg...)
			r.lastMeta = string(ctx.input.Meta().QueryString())
			var body interface{} = arg
			var stat *Status
			if r.fn != nil {
				body, stat = r.fn(ctx, arg)
			}
			if !stat.OK() {
				ctx.stat = stat
				ctx.output.SetStatus(stat)
			} else {
				ctx.output.SetBody(body)
			}
		},
	}
	return []*Handler{h}, nil
}

func vxPushMaker(prefix string, spec interface{}, pc *PluginContainer) ([]*Handler, error) {
	r := spec.(*vxRoute)
	h := &Handler{
		name:            globalServiceMethodMapper(prefix, r.name),
		argElem:         vxBytesType,
		pluginContainer: pc,
		handleFunc: func(ctx *handlerCtx, argValue reflect.Value) {
			r.calls++
			arg := *(argValue.Interface().(*[]byte))
			r.lastArg = append([]byte{}, arg...)
			r.lastMeta = string(ctx.input.Meta().QueryString())
			if r.push != nil {
				ctx.stat = r.push(ctx, arg)
			}
		},
	}
	return []*Handler{h}, nil
}

func vxRouteCall(p Peer, r *vxRoute, plugins ...Plugin) []string {
	return p.(*peer).router.subRouter.reg(pnCall, vxCallMaker, r, plugins)
}

func vxRoutePush(p Peer, r *vxRoute, plugins ...Plugin) []string {
	return p.(*peer).router.subRouter.reg(pnPush, vxPushMaker, r, plugins)
}

func vxNewPeer(plugins ...Plugin) Peer {
	return NewPeer(PeerConfig{}, plugins...)
}

// vxFilter is a registered transfer filter for root-package harnesses.
type vxFilter struct{}

func (vxFilter) ID() byte     { return 'v' }
func (vxFilter) Name() string { return "vxroot" }
func (vxFilter) OnPack(b []byte) ([]byte, error) {
	r := make([]byte, 0, len(b)+1)
	r = append(r, 0x7e)
	return append(r, b...), nil
}
func (vxFilter) OnUnpack(b []byte) ([]byte, error) {
	if len(b) == 0 || b[0] != 0x7e {
		return nil, errors.New("vxroot: bad marker")
	}
	return b[1:], nil
}

func init() { xfer.Reg(vxFilter{}) }
