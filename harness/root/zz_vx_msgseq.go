package erpc

import (
	"github.com/henrylee2cn/erpc/v6/socket"
)

func init() { vxRegister("VX_Message_Sequence", VX_Message_Sequence) }

// vxMetaVeto vetoes a CALL/PUSH whose metadata says so (reads the message it is given).
type vxMetaVeto struct{ hits int }

func (v *vxMetaVeto) Name() string { return "vxmetaveto" }

// application data kept on the session from the moment it is accepted
func (v *vxMetaVeto) PostAccept(s PreSession) *Status {
	s.Swap().Store("sess", "data")
	return nil
}
func (v *vxMetaVeto) PostReadCallHeader(ctx ReadCtx) *Status {
	if string(ctx.PeekMeta("veto")) == "1" {
		v.hits++
		return NewStatus(9001, "vetoed", "")
	}
	return nil
}

// VX_Message_Sequence: k messages, each of a solver-chosen kind, are processed
// one after the other on one session with LIFO object pools (maximal reuse of
// contexts, messages, metadata containers and buffers). Every message must
// come out exactly as it would on a fresh session: what the handler sees, the
// reply's status, body and metadata, the caller's result - independent of the
// messages before it. args: k[, firstKind (-1 any)]
func VX_Message_Sequence(args []int) {
	k := args[0]
	vxPoolMode(1)
	snaps := vxSnapSentinels()
	mv := &vxMetaVeto{}
	p := vxNewPeer(mv)
	type seenT struct{ meta, body string; swapLen int }
	var seen []seenT
	record := func(ctx *handlerCtx, arg []byte) {
		s := ""
		ctx.VisitMeta(func(k, v []byte) { s += string(k) + "=" + string(v) + ";" })
		seen = append(seen, seenT{s, string(arg), ctx.Swap().Len()})
	}
	mode := 0 // what the /h handler does for the current message
	tag := ""
	h := &vxRoute{name: "h"}
	h.fn = func(ctx *handlerCtx, arg []byte) (interface{}, *Status) {
		record(ctx, arg)
		ctx.Swap().Store("scratch-"+tag, tag)
		switch mode {
		case 1:
			ctx.SetMeta("partial", tag)
			return nil, NewStatus(7001, "handler says no "+tag, "why")
		case 2:
			ctx.SetMeta("partial", tag)
			panic("handler panics " + tag)
		}
		ctx.SetMeta("m", tag)
		return append([]byte("r:"), arg...), nil
	}
	ph := &vxRoute{name: "p"}
	ph.push = func(ctx *handlerCtx, arg []byte) *Status { record(ctx, arg); return nil }
	vxRouteCall(p, h)
	vxRoutePush(p, ph)
	conn := newVxConn("peer:1", "peer:2")
	s, st := p.ServeConn(conn)
	vxAssume(st.OK())
	vxWaitIdle()
	seq := int32(10)
	for step := 0; step < k; step++ {
		kind := vxChoose("kind", 9)
		if step == 0 && len(args) > 1 && args[1] >= 0 {
			vxAssume(kind == args[1])
		}
		tag = string(rune('a' + step))
		seq++
		w0, n0 := conn.nWrites(), len(seen)
		body := []byte("b" + tag)
		// a second pair whose value is empty on every other message
		tval := ""
		if step%2 == 0 {
			tval = "t" + tag
		}
		wantMeta := "who=u" + tag + ";t=" + tval + ";"
		meta := func(m socket.Message) {
			m.Meta().Add("who", "u"+tag)
			m.Meta().Add("t", tval)
		}
		lastReply := func() socket.Message {
			vxAssert(conn.nWrites() == w0+1, "[C03] exactly one frame written for the CALL")
			if conn.nWrites() != w0+1 {
				return nil
			}
			m, err := vxParse(conn.writes[w0])
			vxAssert(err == nil && m.Mtype() == TypeReply && m.Seq() == seq, "[C03] it is the REPLY for this CALL")
			if err != nil {
				return nil
			}
			return m
		}
		sawOwn := func() {
			vxAssert(len(seen) == n0+1, "[C03] handler ran once")
			if len(seen) == n0+1 {
				vxAssert(seen[n0].meta == wantMeta && seen[n0].body == "b"+tag, "[C01] the handler sees exactly its own message's metadata and body")
				vxAssert(seen[n0].swapLen == 1, "[C20] the handler's context carries the session's data and no swap entry of an earlier message")
			}
		}
		switch kind {
		case 0, 1, 2: // CALL /h: ok / handler status / handler panic
			mode = kind
			conn.feed(vxFrame(TypeCall, seq, "/h", body, meta))
			vxWaitIdle()
			sawOwn()
			if m := lastReply(); m != nil {
				switch kind {
				case 0:
					vxAssert(m.StatusOK() && string(vxBodyOf(m)) == "r:b"+tag, "[C04] handler OK => OK reply with its result")
					vxAssert(string(m.Meta().Peek("m")) == tag && m.Meta().Len() == 1, "[C01] the reply carries exactly the metadata its handler set")
				case 1:
					vxAssert(m.Status(true).Code() == 7001 && m.Status(true).Msg() == "handler says no "+tag, "[C04] handler status => same code and message")
				case 2:
					vxAssert(m.Status(true).Code() == CodeInternalServerError, "[C04] handler panic => 500")
				}
			}
		case 3: // CALL unknown route
			conn.feed(vxFrame(TypeCall, seq, "/nope", body, meta))
			vxWaitIdle()
			vxAssert(len(seen) == n0, "[C10] no handler for an unknown route")
			if m := lastReply(); m != nil {
				vxAssert(m.Status(true).Code() == CodeNotFound && m.Status(true).Msg() == "Not Found", "[C15] unknown route => 404 Not Found, whatever happened before")
			}
		case 4: // CALL vetoed by a plugin reading the message's metadata
			conn.feed(vxFrame(TypeCall, seq, "/h", body, meta, socket.WithAddMeta("veto", "1")))
			vxWaitIdle()
			vxAssert(len(seen) == n0, "[C09] vetoed CALL does not reach the handler")
			if m := lastReply(); m != nil {
				vxAssert(m.Status(true).Code() == 9001, "[C09] the vetoing plugin's status is replied")
			}
		case 5: // PUSH
			conn.feed(vxFrame(TypePush, seq, "/p", body, meta))
			vxWaitIdle()
			sawOwn()
			vxAssert(conn.nWrites() == w0, "[C03] a PUSH is never answered")
		case 6: // PUSH to an unknown route
			conn.feed(vxFrame(TypePush, seq, "/nope", body, meta))
			vxWaitIdle()
			vxAssert(len(seen) == n0 && conn.nWrites() == w0, "[C03] unknown PUSH: nothing handled, nothing written")
		case 7, 8: // outgoing call answered OK / with an error status
			var res []byte
			cmd := s.AsyncCall("/remote/"+tag, body, &res, make(chan CallCmd, 1), meta)
			vxAssert(conn.nWrites() == w0+1, "[C02] call written")
			if conn.nWrites() == w0+1 {
				out, err := vxParse(conn.writes[w0])
				vxAssert(err == nil && out.Mtype() == TypeCall && out.ServiceMethod() == "/remote/"+tag && string(vxBodyOf(out)) == "b"+tag, "[C20] the outgoing message carries exactly this call's fields")
				if err == nil {
					om := ""
					out.Meta().VisitAll(func(k, v []byte) { om += string(k) + "=" + string(v) + ";" })
					vxAssert(om == wantMeta, "[C20] and exactly this call's metadata")
				}
			}
			if kind == 7 {
				conn.feed(vxFrame(TypeReply, cmd.Output().Seq(), "", []byte("ans-"+tag), socket.WithAddMeta("rm", tag)))
			} else {
				conn.feed(vxFrame(TypeReply, cmd.Output().Seq(), "", nil, socket.WithStatus(NewStatus(404, "remote: not found "+tag, ""))))
			}
			vxWaitIdle()
			vxAssert(vxDone(cmd), "[C02] answered call completes")
			if vxDone(cmd) {
				if kind == 7 {
					vxAssert(cmd.StatusOK() && string(res) == "ans-"+tag, "[C04] OK reply => OK and the reply's body, whatever was processed before")
					vxAssert(string(cmd.InputMeta().Peek("rm")) == tag && cmd.InputMeta().Len() == 1, "[C01] the caller receives exactly the reply's metadata")
				} else {
					vxAssert(cmd.Status().Code() == 404 && cmd.Status().Msg() == "remote: not found "+tag, "[C04] error reply => exactly its status")
				}
			}
		}
		vxAssert(s.Health(), "[C07] the session stays up")
	}
	vxAssert(s.Swap().Len() == 1, "[C20] per-message swap entries do not end up on the session")
	vxCheckSentinels(snaps)
	vxCover("message.sequence")
}
