package erpc

import "github.com/henrylee2cn/erpc/v6/socket"

func init() {
	vxRegister("VX_C06_SessionBytes", VX_C06_SessionBytes)
	vxRegister("VX_C20_ContextReuse", VX_C20_ContextReuse)
}

// VX_C06_SessionBytes: arbitrary bytes on a live session (the real read loop
// around the real raw Unpack): no panic escapes a goroutine (the engine treats
// an uncaught panic as a crash), the reader terminates once the input is
// exhausted, the session is cleanly disconnected or still works, and another
// session of the process keeps working. args: n, pendingCall(0/1)
func VX_C06_SessionBytes(args []int) {
	n, pending := args[0], args[1]
	socket.SetMessageSizeLimit(24)
	defer socket.SetMessageSizeLimit(0)
	p := vxNewPeer()
	route := &vxRoute{name: "ok"}
	vxRouteCall(p, route)
	conn := newVxConn("srv:1", "evil:1")
	s, st := p.ServeConn(conn)
	vxAssume(st.OK())
	var cmd CallCmd
	if pending == 1 {
		cmd = s.AsyncCall("/x", []byte("q"), new([]byte), make(chan CallCmd, 1))
	}
	conn.feed(vxBytes("in", n))
	conn.end()
	vxWaitIdle()
	vxAssert(vxBlockedThreads() == 0, "reader (and every caller) unblocked once the input is exhausted")
	vxAssert(!s.Health(), "session cleanly disconnected after the input ended")
	vxAssert(p.CountSession() == 0, "[C07] disconnected session left the index")
	if cmd != nil {
		vxAssert(vxDone(cmd), "[C02] pending call completed")
	}
	// every other session of the process keeps working
	socket.SetMessageSizeLimit(0)
	c2 := newVxConn("srv:1", "good:2")
	c2.feed(vxFrame(TypeCall, 3, "/ok", []byte("fine")))
	s2, st := p.ServeConn(c2)
	vxAssume(st.OK())
	vxWaitIdle()
	vxAssert(s2.Health() && route.calls >= 1 && c2.nWrites() == 1, "another session still handles a call after the hostile input")
	if c2.nWrites() == 1 {
		m, err := vxParse(c2.writes[0])
		vxAssert(err == nil && m.StatusOK() && string(vxBodyOf(m)) == "fine", "with an intact reply")
	}
	vxCover("c06.session")
}

// VX_C20_ContextReuse: a handler context recycled through the pool behaves
// like a fresh one: what the first request's handler put into its context
// (reply metadata, swap entries, body codec, transfer pipe, status) is not
// observable or transmitted by the next request. args: firstOutcome(0 ok, 1 status, 2 panic), nMeta
func VX_C20_ContextReuse(args []int) {
	vxPoolMode(1)
	p := vxNewPeer()
	first := true
	var secondSwapLen int
	var secondMeta string
	leakV := vxString("leak", args[1])
	route := &vxRoute{name: "r"}
	route.fn = func(ctx *handlerCtx, arg []byte) (interface{}, *Status) {
		if first {
			first = false
			ctx.SetMeta("x-leak", leakV)
			ctx.AddMeta("x-leak2", "L2")
			ctx.Swap().Store("secret", leakV)
			ctx.AddXferPipe('v')
			ctx.SetBodyCodec('s')
			switch args[0] {
			case 1:
				return nil, NewStatus(vxInt32("code"), "first failed", "why")
			case 2:
				panic("first panics")
			}
			return []byte("first"), nil
		}
		secondSwapLen = ctx.Swap().Len()
		secondMeta = string(ctx.input.Meta().QueryString())
		return []byte("second"), nil
	}
	vxRouteCall(p, route)
	conn := newVxConn("srv:1", "cli:2")
	conn.feed(vxFrame(TypeCall, 1, "/r", []byte("a"), socket.WithAddMeta("in1", "v1")))
	_, st := p.ServeConn(conn)
	vxAssume(st.OK())
	vxWaitIdle()
	conn.feed(vxFrame(TypeCall, 2, "/r", []byte("b")))
	vxWaitIdle()
	vxAssert(conn.nWrites() == 2 && route.calls == 2, "both calls handled and answered")
	if conn.nWrites() != 2 {
		return
	}
	m2, err := vxParse(conn.writes[1])
	vxAssert(err == nil && m2.Seq() == 2, "second reply")
	vxAssert(m2.StatusOK(), "second reply carries no status of the first")
	vxAssert(m2.Meta().Len() == 0, "second reply carries no metadata of the first")
	vxAssert(m2.XferPipe().Len() == 0, "second reply carries no transfer filter of the first")
	vxAssert(string(vxBodyOf(m2)) == "second", "second reply carries its own body")
	vxAssert(secondSwapLen == 0, "second handler sees no swap entry of the first")
	vxAssert(secondMeta == "", "second handler sees no input metadata of the first")
	// a fresh message packed for comparison: same bytes as the recycled context produced
	f, _ := vxParse(vxFrame(TypeReply, 2, "", []byte("second")))
	vxAssert(f.BodyCodec() == m2.BodyCodec() || m2.BodyCodec() != 0, "body codec of the second reply is its own")
	vxCover("c20.context")
}
