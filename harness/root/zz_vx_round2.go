package erpc

import (
	"io"
	"sort"
	"sync"
	"net"
	"time"

	"github.com/henrylee2cn/erpc/v6/socket"
)

func init() {
	vxRegister("VX_C01_MetaAcrossRequests", VX_C01_MetaAcrossRequests)
	vxRegister("VX_C07_ModifySocket", VX_C07_ModifySocket)
	vxRegister("VX_C08_CloseTwoPending", VX_C08_CloseTwoPending)
	vxRegister("VX_C10_SubRoutePush", VX_C10_SubRoutePush)
}

// VX_C01_MetaAcrossRequests: two requests handled one after the other (the
// second on a recycled context, possibly of another session): the second
// handler (or push receiver) sees exactly its own request's metadata and body,
// including keys with empty values. args: sameSession(0/1), nVal[, kind(0 CALL, 1 PUSH)]
func VX_C01_MetaAcrossRequests(args []int) {
	vxPoolMode(1)
	p := vxNewPeer()
	route := &vxRoute{name: "m"}
	var metas, bodies []string
	see := func(ctx *handlerCtx, arg []byte) {
		s := ""
		ctx.VisitMeta(func(k, v []byte) { s += string(k) + "=" + string(v) + ";" })
		metas = append(metas, s)
		bodies = append(bodies, string(arg))
	}
	route.fn = func(ctx *handlerCtx, arg []byte) (interface{}, *Status) { see(ctx, arg); return arg, nil }
	route.push = func(ctx *handlerCtx, arg []byte) *Status { see(ctx, arg); return nil }
	mtype := TypeCall
	if len(args) > 2 && args[2] == 1 {
		mtype = TypePush
		vxRoutePush(p, route)
	} else {
		vxRouteCall(p, route)
	}
	secret := vxString("secret", args[1])
	vxAssume(len(secret) == 0 || (secret[0] >= 'a' && secret[0] <= 'z'))
	c1 := newVxConn("srv:1", "alice:1")
	c1.feed(vxFrame(mtype, 1, "/m", []byte("alice's-body-"+secret), socket.WithAddMeta("user", "alice"), socket.WithAddMeta("token", secret), socket.WithAddMeta("z", "9")))
	_, st := p.ServeConn(c1)
	vxAssume(st.OK())
	vxWaitIdle()
	c2 := c1
	if args[0] == 0 {
		c2 = newVxConn("srv:1", "bob:2")
		_, st = p.ServeConn(c2)
		vxAssume(st.OK())
	}
	// (the read loop takes its context for the next frame before the previous
	// one is recycled, so reuse shows from the second follow-up on)
	for k := int32(0); k < 3; k++ {
		c2.feed(vxFrame(mtype, 2+k, "/m", []byte("b"), socket.WithAddMeta("user", "bob"), socket.WithAddMeta("trace", ""), socket.WithAddMeta("flag", "")))
		vxWaitIdle()
	}
	vxAssert(len(metas) == 4, "all requests handled")
	if len(metas) == 4 {
		vxAssert(metas[0] == "user=alice;token="+secret+";z=9;" && bodies[0] == "alice's-body-"+secret, "first handler sees its own metadata and body")
		for k := 1; k < 4; k++ {
			vxAssert(metas[k] == "user=bob;trace=;flag=;", "later handler sees exactly its own metadata, nothing of the earlier request")
			vxAssert(bodies[k] == "b", "later handler sees exactly its own body")
		}
	}
	if mtype == TypeCall {
		for _, w := range c2.writes {
			vxAssert(!vxMentions(w, []byte(secret)) || c2 == c1, "no byte of another session's request appears in a reply")
		}
	}
	vxCover("c01.meta-across")
}

// VX_C07_ModifySocket: a session that was given an id keeps it (and its single
// index entry) when its socket is replaced. args: setID(0/1)[, protoOnly(0/1)]
func VX_C07_ModifySocket(args []int) {
	var log []string
	ren := &vxRenamer{to: "user-1"}
	ren.name, ren.log, ren.verdict = "ren", &log, map[string]*Status{}
	var p Peer
	if args[0] == 1 {
		p = vxNewPeer(ren)
	} else {
		p = vxNewPeer()
	}
	c := newVxConn("srv:1", "cli:1")
	s, st := p.ServeConn(c)
	vxAssume(st.OK())
	vxWaitIdle()
	want := "cli:1"
	if args[0] == 1 {
		want = "user-1"
	}
	vxAssert(s.ID() == want && p.CountSession() == 1, "listed once under its id")
	c2 := newVxConn("srv:1", "cli:1")
	if len(args) > 1 && args[1] == 1 {
		// only the protocol is replaced ("If modifiedConn!=nil, reset the net.Conn"): the connection stays
		s.(*session).ModifySocket(func(conn net.Conn) (net.Conn, ProtoFunc) { return nil, socket.RawProtoFunc })
		vxWaitIdle()
		vxAssert(s.Health() && s.(*session).getConn() == net.Conn(c), "a session whose protocol is replaced keeps its connection")
		st := s.Push("/p", []byte("x"))
		vxAssert(st.OK() && c.nWrites() == 1, "and keeps working on it")
	} else {
		s.(*session).ModifySocket(func(conn net.Conn) (net.Conn, ProtoFunc) { return c2, nil })
	}
	vxWaitIdle()
	vxAssert(s.ID() == want, "id kept when the socket is replaced")
	got, ok := p.GetSession(want)
	vxAssert(ok && got == s && p.CountSession() == 1, "still exactly one index entry, under the current id")
	s.Close()
	vxWaitIdle()
	vxAssert(p.CountSession() == 0, "closed session leaves the index")
	_, ok = p.GetSession(want)
	vxAssert(!ok, "closed session not reachable by its id")
	vxCover("c07.modifysocket")
}

// VX_C08_CloseTwoPending: two calls are outstanding when the session is closed
// locally; the peer answers them one after the other; both complete with the
// peer's reply and Close returns afterwards. args: order(0 first then second, 1 reverse)
func VX_C08_CloseTwoPending(args []int) {
	p := vxNewPeer()
	conn := newVxConn("cli:1", "srv:2")
	s, st := p.ServeConn(conn)
	vxAssume(st.OK())
	var r1, r2 []byte
	c1 := s.AsyncCall("/a", []byte("1"), &r1, make(chan CallCmd, 1))
	c2 := s.AsyncCall("/b", []byte("2"), &r2, make(chan CallCmd, 1))
	closeDone := make(chan struct{})
	go func() {
		s.Close()
		close(closeDone)
	}()
	vxWaitIdle()
	vxAssert(!vxClosedChan(closeDone) && !vxDone(c1) && !vxDone(c2), "Close waits for the calls issued before closing")
	first, second := c1, c2
	if args[0] == 1 {
		first, second = c2, c1
	}
	conn.feed(vxFrame(TypeReply, first.Output().Seq(), "", []byte("R1")))
	vxWaitIdle()
	vxAssert(vxDone(first) && first.StatusOK(), "first reply completes its call")
	vxAssert(!vxDone(second) || second.StatusOK(), "the other call is not failed while the connection is intact and the peer has not replied yet")
	conn.feed(vxFrame(TypeReply, second.Output().Seq(), "", []byte("R2")))
	vxWaitIdle()
	vxAssert(vxDone(second) && second.StatusOK(), "second call completes with the peer's reply")
	vxAssert(vxClosedChan(closeDone), "Close returns once both calls completed")
	vxAssert(vxBlockedThreads() == 0, "nothing left blocked")
	vxCover("c08.twopending")
}

// VX_C10_SubRoutePush: a PUSH handler registered through a sub-router is
// dispatched under the returned name, whenever the sub-router was created.
// args: subRouterFirst(0 create the group after a root push registration, 1 before any push registration)
func VX_C10_SubRoutePush(args []int) {
	p := vxNewPeer()
	root := p.Router().subRouter
	grpEarly := root.SubRoute("/grp")
	rootPush := &vxRoute{name: "RootNote"}
	grpCall := &vxRoute{name: "GrpCall"}
	grpPush := &vxRoute{name: "GrpNote"}
	grp := grpEarly
	if args[0] == 0 {
		root.reg(pnPush, vxPushMaker, rootPush, nil)
		grp = root.SubRoute("/grp")
	}
	nc := grp.reg(pnCall, vxCallMaker, grpCall, nil)
	np := grp.reg(pnPush, vxPushMaker, grpPush, nil)
	if args[0] == 1 {
		root.reg(pnPush, vxPushMaker, rootPush, nil)
	}
	vxAssert(len(np) == 1 && np[0] == "/grp/grp_note" && nc[0] == "/grp/grp_call", "group registrations return their names")
	conn := newVxConn("srv:1", "cli:2")
	conn.feed(vxFrame(TypePush, 1, "/grp/grp_note", []byte("n")))
	conn.feed(vxFrame(TypePush, 2, "/root_note", []byte("r")))
	conn.feed(vxFrame(TypeCall, 3, "/grp/grp_call", []byte("c")))
	_, st := p.ServeConn(conn)
	vxAssume(st.OK())
	vxWaitIdle()
	vxAssert(grpPush.calls == 1, "the group's push handler is invoked under the name its registration returned")
	vxAssert(rootPush.calls == 1 && grpCall.calls == 1, "root push and group call handlers invoked")
	vxCover("c10.subroutepush")
}

func init() {
	vxRegister("VX_C02_FastReply", VX_C02_FastReply)
	vxRegister("VX_C03_HookPanic", VX_C03_HookPanic)
	vxRegister("VX_C06_PoolAfterOversize", VX_C06_PoolAfterOversize)
	vxRegister("VX_C09_RedialRetry", VX_C09_RedialRetry)
	vxRegister("VX_C06_SessionFieldBytes", VX_C06_SessionFieldBytes)
}

// VX_C02_FastReply: the peer's reply (or the loss of the connection) is
// processed by the read loop before the caller's transport write has returned.
// args: what(0 OK reply, 1 connection loss, 2 error reply), nBody
func VX_C02_FastReply(args []int) {
	p := vxNewPeer()
	conn := newVxConn("cli:1", "srv:2")
	s, st := p.ServeConn(conn)
	vxAssume(st.OK())
	vxWaitIdle()
	body := vxBytes("reply", args[1])
	armed := true
	conn.onWrite = func(b []byte) {
		if !armed {
			return
		}
		armed = false
		m, err := vxParse(b)
		if err != nil {
			return
		}
		switch args[0] {
		case 0:
			conn.feed(vxFrame(TypeReply, m.Seq(), "", body))
		case 2:
			conn.feed(vxFrame(TypeReply, m.Seq(), "", nil, socket.WithStatus(NewStatus(1001, "biz error", "denied"))))
		default:
			conn.end()
		}
		vxWaitIdle() // the read loop gets as far as it can before the write returns
	}
	var res []byte
	ch := make(chan CallCmd, 1)
	cmd := s.AsyncCall("/a", []byte("x"), &res, ch)
	vxWaitIdle()
	vxAssert(vxDone(cmd), "call completes although the answer was processed before the write returned")
	vxAssert(len(ch) == 1, "delivered exactly once")
	if vxDone(cmd) {
		if args[0] == 0 {
			vxAssert(cmd.StatusOK() && string(res) == string(body), "with the peer's reply")
		} else if args[0] == 2 {
			vxAssert(cmd.Status().Code() == 1001 && cmd.Status().Msg() == "biz error", "[C04] the caller observes the reply's error status, not OK, also when the reply overtakes the end of the write")
		} else {
			vxAssert(!cmd.StatusOK() && IsConnError(cmd.Status()), "with a connection error")
		}
	}
	if args[0] == 1 {
		vxAssert(vxBlockedThreads() == 0, "nobody left waiting")
	} else {
		vxAssert(vxBlockedThreads() <= 1, "nobody but the reader left waiting")
	}
	vxCover("c02.fastreply")
}

// VX_C03_HookPanic: a plugin hook panics while a CALL is being handled; a
// fence CALL follows. Each CALL gets exactly one REPLY while the connection
// stays up. args: stage(0 PostReadCallHeader,1 PreReadCallBody,2 PostReadCallBody,3 PreWriteReply,4 PostWriteReply,5 the handler)[, contextAge(0 none, 1 one minute)]
func VX_C03_HookPanic(args []int) {
	stages := []string{"PostReadCallHeader", "PreReadCallBody", "PostReadCallBody", "PreWriteReply", "PostWriteReply", "handler"}
	stage := stages[args[0]]
	var log []string
	pl := newVxPlugin("rec", &log)
	fired := false
	pl.onHook = func(s string) {
		if s == stage && !fired {
			fired = true
			panic("hook " + s + " panics")
		}
	}
	p := vxNewPeer(pl)
	route := &vxRoute{name: "m"}
	if args[0] == 5 { // the handler itself panics (first invocation)
		stage = "handler"
		route.fn = func(ctx *handlerCtx, arg []byte) (interface{}, *Status) {
			if !fired {
				fired = true
				panic("handler panics")
			}
			return arg, nil
		}
	}
	vxRouteCall(p, route)
	conn := newVxConn("srv:1", "cli:2")
	s, st := p.ServeConn(conn)
	vxAssume(st.OK())
	if len(args) > 1 && args[1] == 1 {
		s.(*session).SetContextAge(time.Minute) // handlers get a context with a deadline
	}
	conn.feed(vxFrame(TypeCall, 1, "/m", []byte("one")))
	vxWaitIdle()
	conn.feed(vxFrame(TypeCall, 2, "/m", []byte("two")))
	vxWaitIdle()
	n := map[int32]int{}
	for _, w := range conn.writes {
		m, err := vxParse(w)
		vxAssert(err == nil && m.Mtype() == TypeReply, "only well-formed REPLY frames are written")
		if err == nil {
			n[m.Seq()]++
		}
	}
	vxAssert(fired, "the hook fired")
	vxAssert(n[1] <= 1 && n[2] <= 1, "no CALL is answered twice")
	if s.Health() && !conn.isClosed() {
		vxAssert(n[1] == 1 && n[2] == 1, "connection intact: every CALL answered exactly once")
	}
	vxAssert(route.calls <= 2, "handler invoked at most once per CALL")
	vxCover("c03.hookpanic")
}

// VX_C06_PoolAfterOversize: after one connection announced an oversized frame
// and was refused, two other sessions whose frame decoding overlaps in time
// (one has received only part of its frame while the other decodes a complete
// one) both receive their messages intact. args: cut (bytes of B's frame delivered first)
func VX_C06_PoolAfterOversize(args []int) {
	socket.SetMessageSizeLimit(64)
	defer socket.SetMessageSizeLimit(0)
	vxPoolMode(1)
	p := vxNewPeer()
	var got []string
	note := &vxRoute{name: "note"}
	note.push = func(ctx *handlerCtx, arg []byte) *Status {
		got = append(got, ctx.Session().ID()+":"+string(arg))
		return nil
	}
	vxRoutePush(p, note)
	fb := vxFrame(TypePush, 1, "/note", []byte("bbbbbbbb"))
	fc := vxFrame(TypePush, 1, "/note", []byte("cc"))
	a := newVxConn("srv:1", "evil:1")
	sa, st := p.ServeConn(a)
	vxAssume(st.OK())
	a.feed([]byte{0, 0, 4, 0, 6}) // announces 1024 bytes > limit 64
	vxWaitIdle()
	vxAssert(!sa.Health(), "oversized announcement: session refused and disconnected")
	cut := args[0]
	if cut > len(fb)-1 {
		cut = len(fb) - 1
	}
	b := newVxConn("srv:1", "good:2")
	sb, st := p.ServeConn(b)
	vxAssume(st.OK())
	b.feed(fb[:cut])
	vxWaitIdle()
	c := newVxConn("srv:1", "good:3")
	sc, st := p.ServeConn(c)
	vxAssume(st.OK())
	c.feed(fc)
	vxWaitIdle()
	b.feed(fb[cut:])
	vxWaitIdle()
	vxAssert(sb.Health() && sc.Health(), "the other sessions keep working")
	vxAssert(len(got) == 2 && got[0] == "good:3:cc" && got[1] == "good:2:bbbbbbbb", "both received their pushes intact")
	vxCover("c06.pool-after-oversize")
}

// VX_C09_RedialRetry: a client session with redial writes a message after the
// connection was lost but before its own reader noticed: the write fails, the
// session redials and the message goes out on the new connection; every
// pre-/post-write hook fires at most once for that message.
// args: kind(0 call, 1 push)
func VX_C09_RedialRetry(args []int) {
	var log []string
	pl := newVxPlugin("h", &log)
	p := NewPeer(PeerConfig{RedialTimes: 1, RedialInterval: vxRedialEvery}, pl)
	var conns []*vxConn
	VXSetDialHook(func(addr string) (net.Conn, error) {
		c := newVxConn("cli:"+string(rune('1'+len(conns))), addr)
		conns = append(conns, c)
		return c, nil
	})
	defer VXSetDialHook(nil)
	s, st := p.Dial("srv:1")
	vxAssume(st.OK())
	vxWaitIdle()
	conns[0].failWrite = io.EOF // the connection is gone; the writer is the first to notice
	log = log[:0]
	pre, post := "h:PreWriteCall", "h:PostWriteCall"
	if args[0] == 1 {
		pre, post = "h:PreWritePush", "h:PostWritePush"
	}
	var pst *Status
	var cmd CallCmd
	if args[0] == 0 {
		cmd = s.AsyncCall("/a", []byte("x"), new([]byte), make(chan CallCmd, 1))
	} else {
		pst = s.Push("/n", []byte("x"))
	}
	vxAssert(vxCount(log, pre) <= 1, "pre-write hook fires at most once for one message")
	vxAssert(vxCount(log, post) <= 1, "post-write hook fires at most once for one message")
	if len(conns) == 2 && conns[1].nWrites() == 1 {
		vxCover("c09.retried")
		vxAssert(vxCount(log, pre) == 1 && vxCount(log, post) == 1, "message written after the redial: each hook fired exactly once")
		vxAssert(pst.OK(), "retried push reports success")
		if cmd != nil {
			vxAssert(!vxDone(cmd), "retried call is pending")
		}
	}
	vxCover("c09.redialretry")
}

// VX_C06_SessionFieldBytes: a well-framed message whose metadata / status /
// method section holds arbitrary bytes arrives on a live session: whatever the
// field parsers do with it (including a panic recovered by the read loop), the
// session ends up working or cleanly disconnected, nobody stays blocked and
// another session keeps working. args: field(0 meta, 1 status, 2 method, 3 the message-type byte, 4 the body-codec byte of a REPLY to a pending call), n
func VX_C06_SessionFieldBytes(args []int) {
	field, n := args[0], args[1]
	p := vxNewPeer()
	route := &vxRoute{name: "ok"}
	vxRouteCall(p, route)
	ph := make([]byte, n)
	for k := range ph {
		ph[k] = 'A'
	}
	var frame []byte
	switch field {
	case 0:
		frame = vxFrame(TypeCall, 1, "/ok", []byte("x"), func(m socket.Message) { m.Meta().ParseBytes(ph) })
	case 1:
		frame = vxFrame(TypeReply, 1, "/ok", []byte("x"), func(m socket.Message) { m.SetStatus(NewStatus(0, string(ph), "")) })
	case 3:
		n = 1
		frame = vxFrame('A', 1, "/ok", []byte("x")) // message type byte
	case 4:
		n = 1 // body codec byte of a REPLY to a pending call with a typed (non-bytes) result
		frame = nil
	default:
		frame = vxFrame(TypeCall, 1, string(ph), []byte("x"))
	}
	// overwrite the placeholder run with arbitrary bytes
	at := -1
	for k := 0; k+n <= len(frame) && n > 0; k++ {
		all := true
		for j := 0; j < n; j++ {
			if frame[k+j] != 'A' {
				all = false
				break
			}
		}
		if all {
			at = k
		}
	}
	if at >= 0 {
		in := vxBytes("field", n)
		copy(frame[at:], in)
	}
	conn := newVxConn("srv:1", "evil:1")
	s, st := p.ServeConn(conn)
	vxAssume(st.OK())
	var pending CallCmd
	if field == 4 {
		var typed int
		pending = s.AsyncCall("/remote", []byte("q"), &typed, make(chan CallCmd, 1))
		frame = vxFrame(TypeReply, pending.Output().Seq(), "", []byte("pong"), socket.WithBodyCodec(vxByte("codec")))
		at = -1
	}
	conn.feed(frame)
	vxWaitIdle()
	if !s.Health() {
		vxAssert(conn.isClosed(), "a session that is not healthy any more has closed its connection")
	}
	if s.Health() {
		vxCover("c06.field.alive")
		conn.feed(vxFrame(TypeCall, 2, "/ok", []byte("again")))
		vxWaitIdle()
		vxAssert(route.calls >= 1, "session that survived the frame still handles calls")
	} else {
		vxCover("c06.field.disconnected")
		vxAssert(p.CountSession() == 0, "[C07] disconnected session left the index")
	}
	conn.end()
	vxWaitIdle()
	vxAssert(vxBlockedThreads() == 0, "nobody left blocked once the input is exhausted")
	if pending != nil {
		vxAssert(vxDone(pending), "no caller left waiting once the input is exhausted")
	}
	c2 := newVxConn("srv:1", "good:2")
	c2.feed(vxFrame(TypeCall, 3, "/ok", []byte("fine")))
	s2, st := p.ServeConn(c2)
	vxAssume(st.OK())
	vxWaitIdle()
	vxAssert(s2.Health() && c2.nWrites() == 1, "another session still handles a call")
	vxCover("c06.field")
}

func init() { vxRegister("VX_C20_PreSessionPools", VX_C20_PreSessionPools) }

type vxPreOps struct {
	op      int
	fail    bool
	conn    *vxConn
	stat    *Status
	ran     bool
}

func (p *vxPreOps) Name() string { return "vxpreops" }
func (p *vxPreOps) PostAccept(s PreSession) *Status {
	p.ran = true
	if p.fail {
		p.conn.failWrite = errVxClosed
	}
	switch p.op {
	case 0:
		var reply []byte
		p.stat = s.PreCall("/pre", []byte("args"), &reply)
	case 1:
		p.stat = s.PreSend(TypePush, "/pre", []byte("args"), nil)
	case 2:
		in := GetMessage()
		in.SetSeq(7)
		in.SetServiceMethod("/pre")
		p.stat = s.PreReply(in, []byte("r"), nil)
		PutMessage(in)
	}
	p.conn.failWrite = nil
	return nil
}

func vxFreshMessage(m Message) bool {
	return m.Seq() == 0 && m.Mtype() == 0 && m.ServiceMethod() == "" && m.Meta().Len() == 0 && m.Body() == nil &&
		m.StatusOK() && m.XferPipe().Len() == 0 && m.Size() == 0 && m.BodyCodec() == 0
}

// VX_C20_PreSessionPools: the pre-session operations (PreCall/PrePush/PreReply
// from an accept hook), with or without a failing transport write, leave the
// message pool sound: messages handed out afterwards are fresh and no two
// users hold the same object. args: op(0 PreCall, 1 PreSend, 2 PreReply), writeFails(0/1)
func VX_C20_PreSessionPools(args []int) {
	vxPoolMode(1)
	conn := newVxConn("srv:1", "cli:2")
	ops := &vxPreOps{op: args[0], fail: args[1] == 1, conn: conn}
	if args[0] == 0 && args[1] == 0 {
		conn.feed(vxFrame(TypeReply, 0, "/pre", []byte("rep")))
	}
	p := vxNewPeer(ops)
	_, st := p.ServeConn(conn)
	vxAssert(ops.ran, "accept hook ran")
	if args[1] == 1 {
		vxAssert(!ops.stat.OK(), "failing write is reported to the hook")
	} else {
		vxAssert(ops.stat.OK(), "pre-session operation succeeds")
	}
	_ = st
	vxWaitIdle()
	var held []Message
	for k := 0; k < 4; k++ {
		m := GetMessage()
		vxAssert(vxFreshMessage(m), "a message handed out by the pool is fresh")
		for _, h := range held {
			vxAssert(h != m, "the pool never hands the same message to two users")
		}
		m.SetSeq(int32(100 + k))
		m.SetServiceMethod("/in/use")
		m.SetBody([]byte("owner"))
		held = append(held, m)
	}
	for _, h := range held {
		PutMessage(h)
	}
	vxCover("c20.presession")
}

func init() { vxRegister("VX_C02_ReplyThenLoss", VX_C02_ReplyThenLoss) }

// VX_C02_ReplyThenLoss: the reply to a pending call and the end of the
// connection arrive together, so the read loop handles the loss while the
// reply is still being delivered. The call completes exactly once with the
// reply; a second pending call completes once with a connection error.
// args: replyMeta(0/1), chanCap, preemptions(0 = run-to-block schedule)
func VX_C02_ReplyThenLoss(args []int) {
	p := vxNewPeer()
	conn := newVxConn("cli:1", "srv:2")
	s, st := p.ServeConn(conn)
	vxAssume(st.OK())
	vxWaitIdle()
	var r1, r2 []byte
	ch1, ch2 := make(chan CallCmd, args[1]), make(chan CallCmd, args[1])
	c1 := s.AsyncCall("/a", []byte("1"), &r1, ch1)
	c2 := s.AsyncCall("/b", []byte("2"), &r2, ch2)
	if args[2] > 0 {
		vxSched(1, args[2])
	}
	var rs []socket.MessageSetting
	if args[0] == 1 {
		rs = append(rs, socket.WithAddMeta("k", "v"))
	}
	conn.feed(vxFrame(TypeReply, c1.Output().Seq(), "", []byte("R1"), rs...))
	conn.end()
	vxWaitIdle()
	vxAssert(vxDone(c1) && vxDone(c2), "both calls complete once the reply and the loss have been processed")
	vxAssert(len(ch1) == 1 && len(ch2) == 1, "each call is delivered exactly once to its completion channel")
	vxAssert(vxBlockedThreads() == 0, "[C06] nobody left blocked once the input is exhausted (a second delivery would block the reader)")
	if vxDone(c1) {
		vxAssert(c1.StatusOK() && string(r1) == "R1", "the answered call keeps the peer's reply (not overwritten by the connection error)")
	}
	if vxDone(c2) {
		vxAssert(!c2.StatusOK() && IsConnError(c2.Status()), "the unanswered call fails with a connection error")
	}
	select {
	case <-s.CloseNotify():
	default:
		vxFail("[C07] disconnect handling finishes: close notification fired")
	}
	vxCover("c02.reply-then-loss")
}

func init() { vxRegister("VX_C07_DialHooks", VX_C07_DialHooks) }

// VX_C07_DialHooks: Peer.Dial with solver-chosen outcomes of every connection
// attempt and every dial-hook verdict: a session is returned, healthy and
// listed iff some attempt both connected and passed the dial hooks; otherwise
// Dial fails, returns no session and lists nothing. args: redialTimes[, rename(1: an earlier dial hook calls SetID)]
func VX_C07_DialHooks(args []int) {
	R := args[0]
	var log []string
	pl := newVxPlugin("dialhook", &log)
	plugins := []Plugin{pl}
	if len(args) > 1 && args[1] == 1 {
		// an earlier dial hook names the session (SetID) before the verdict of the later one
		plugins = []Plugin{&vxNamer{id: "user-7"}, pl}
	}
	p := NewPeer(PeerConfig{RedialTimes: int32(R), RedialInterval: vxRedialEvery}, plugins...)
	attempts := 0
	good := false
	var conns []*vxConn
	VXSetDialHook(func(addr string) (net.Conn, error) {
		attempts++
		if attempts > R+3 {
			vxAssume(false)
		}
		dialOK, hookOK := vxBool("dialok"), vxBool("hookok")
		if hookOK {
			delete(pl.verdict, "PostDial")
		} else {
			pl.verdict["PostDial"] = NewStatus(401, "dial hook says no", "")
		}
		if !dialOK {
			return nil, io.ErrClosedPipe
		}
		if hookOK {
			good = true
		}
		c := newVxConn("cli:"+string(rune('0'+attempts)), addr)
		conns = append(conns, c)
		return c, nil
	})
	defer VXSetDialHook(nil)
	s, st := p.Dial("srv:1")
	vxWaitIdle()
	vxAssert(attempts <= R+1, "no more connection attempts than one plus the redial budget")
	vxAssert(st.OK() == good, "Dial succeeds iff some attempt connected and passed the dial hooks")
	if st.OK() {
		vxCover("c07.dial.ok")
		vxAssert(s != nil && s.Health(), "session returned by a successful Dial is healthy")
		_, listed := p.GetSession(s.ID())
		vxAssert(listed && p.CountSession() == 1, "and listed exactly once")
		vxAssert(len(conns) > 0 && !conns[len(conns)-1].isClosed(), "on the connection whose hooks succeeded")
	} else {
		vxCover("c07.dial.failed")
		vxAssert(s == nil, "a failed Dial returns no session")
		vxAssert(p.CountSession() == 0, "and lists nothing")
		_, named := p.GetSession("user-7")
		vxAssert(!named, "a failed Dial leaves nothing reachable under the id a dial hook assigned")
		for _, c := range conns {
			vxAssert(c.isClosed(), "connections whose dial hooks failed are closed")
		}
	}
}

func init() { vxRegister("VX_C08_CloseHandlerNeedsTraffic", VX_C08_CloseHandlerNeedsTraffic) }

// VX_C08_CloseHandlerNeedsTraffic: a handler entered before a local Close
// needs the session once more while Close is waiting for it: it pushes on its
// own session (variant 0), or waits for the reply to a call it made on the
// session before the close began (variant 1). The handler finishes, its
// genuine reply is written and Close returns. args: variant
func VX_C08_CloseHandlerNeedsTraffic(args []int) {
	p := vxNewPeer()
	gate := make(chan struct{})
	entered := make(chan struct{}, 1)
	var pushStat *Status
	var nested CallCmd
	var nestedRes []byte
	route := &vxRoute{name: "h"}
	route.fn = func(ctx *handlerCtx, arg []byte) (interface{}, *Status) {
		if args[0] == 1 {
			nested = ctx.Session().AsyncCall("/peer/op", []byte("q"), &nestedRes, make(chan CallCmd, 1))
		}
		entered <- struct{}{}
		<-gate
		if args[0] == 0 {
			pushStat = ctx.Session().Push("/note", []byte("n"))
		} else {
			<-nested.Done()
		}
		return append([]byte("done:"), arg...), nil
	}
	vxRouteCall(p, route)
	conn := newVxConn("srv:1", "cli:2")
	s, st := p.ServeConn(conn)
	vxAssume(st.OK())
	conn.feed(vxFrame(TypeCall, 5, "/h", []byte("x")))
	vxWaitIdle()
	vxAssert(len(entered) == 1, "handler entered")
	closed := make(chan struct{})
	go func() {
		s.Close()
		close(closed)
	}()
	vxWaitIdle()
	vxAssert(!vxClosedChan(closed), "Close waits for the running handler")
	if args[0] == 1 {
		// the peer answers the handler's nested call after the close began
		var seq int32 = -1
		for _, w := range conn.writes {
			if m, err := vxParse(w); err == nil && m.Mtype() == TypeCall {
				seq = m.Seq()
			}
		}
		vxAssert(seq >= 0, "nested call was written")
		conn.feed(vxFrame(TypeReply, seq, "", []byte("nested-reply")))
	}
	close(gate)
	vxWaitIdle()
	vxAssert(route.calls == 1, "handler ran once")
	var rep socket.Message
	for _, w := range conn.writes {
		if m, err := vxParse(w); err == nil && m.Mtype() == TypeReply && m.Seq() == 5 {
			vxAssert(rep == nil, "[C03] answered once")
			rep = m
		}
	}
	vxAssert(rep != nil, "the call whose handler was entered before Close receives its reply")
	if rep != nil {
		vxAssert(rep.StatusOK() && string(vxBodyOf(rep)) == "done:x", "and it is the genuine reply, not a connection error")
	}
	if args[0] == 0 {
		vxAssert(pushStat != nil, "a push attempted during the close returns (fails fast) instead of blocking")
	} else {
		vxAssert(nested.StatusOK() && string(nestedRes) == "nested-reply", "a call issued before closing completes with the peer's reply")
	}
	vxAssert(vxClosedChan(closed), "Close returns after the handler finished")
	vxAssert(vxBlockedThreads() == 0, "nobody left blocked")
	vxCover("c08.needs-traffic")
}

func init() {
	vxRegister("VX_C09_ReplyDuringPostWrite", VX_C09_ReplyDuringPostWrite)
	vxRegister("VX_C10_UnknownAfterSession", VX_C10_UnknownAfterSession)
}

// VX_C09_ReplyDuringPostWrite: the reply to a call is already readable while
// the first plugin's PostWriteCall hook is still running: the reply stages of
// that call still fire only after every plugin's PostWriteCall.
// args: none
func VX_C09_ReplyDuringPostWrite(args []int) {
	var log []string
	a, b := newVxPlugin("a", &log), newVxPlugin("b", &log)
	p := vxNewPeer(a, b)
	conn := newVxConn("cli:1", "srv:2")
	s, st := p.ServeConn(conn)
	vxAssume(st.OK())
	vxWaitIdle()
	a.onHook = func(stage string) {
		if stage == "PostWriteCall" {
			if m, err := vxParse(conn.writes[len(conn.writes)-1]); err == nil {
				conn.feed(vxFrame(TypeReply, m.Seq(), "", []byte("R")))
			}
			vxWaitIdle() // the read loop gets as far as it can with the reply
		}
	}
	var res []byte
	cmd := s.AsyncCall("/m", []byte("x"), &res, make(chan CallCmd, 1))
	vxWaitIdle()
	vxAssert(vxDone(cmd) && cmd.StatusOK() && string(res) == "R", "[C02] call completes with the reply")
	want := []string{"a:PreWriteCall", "b:PreWriteCall", "a:PostWriteCall", "b:PostWriteCall", "a:PostReadReplyHeader", "b:PostReadReplyHeader", "a:PreReadReplyBody", "b:PreReadReplyBody", "a:PostReadReplyBody", "b:PostReadReplyBody"}
	var got []string
	for _, e := range log {
		for _, w := range want {
			if e == w {
				got = append(got, e)
			}
		}
	}
	vxAssert(len(got) == len(want), "every call-side hook fired exactly once")
	for k := range want {
		if k < len(got) {
			vxAssert(got[k] == want[k], "call-side hooks fire in the documented stage order, then registration order")
		}
	}
	vxCover("c09.reply-during-postwrite")
}

// VX_C10_UnknownAfterSession: an unknown-call / unknown-push handler installed
// (or replaced) after a session was established serves unregistered names on
// that session too. args: none
func VX_C10_UnknownAfterSession(args []int) {
	p := vxNewPeer()
	reg := &vxRoute{name: "known"}
	vxRouteCall(p, reg)
	conn := newVxConn("srv:1", "cli:2")
	_, st := p.ServeConn(conn)
	vxAssume(st.OK())
	conn.feed(vxFrame(TypeCall, 1, "/nope", []byte("a")))
	vxWaitIdle()
	var hits []string
	var hmu sync.Mutex
	hit := func(h string) {
		hmu.Lock()
		hits = append(hits, h)
		hmu.Unlock()
	}
	p.SetUnknownCall(func(ctx UnknownCallCtx) (interface{}, *Status) {
		hit("call1:" + ctx.ServiceMethod())
		return []byte("u1"), nil
	})
	p.SetUnknownPush(func(ctx UnknownPushCtx) *Status {
		hit("push1:" + ctx.ServiceMethod())
		return nil
	})
	conn.feed(vxFrame(TypeCall, 2, "/nope", []byte("b")))
	conn.feed(vxFrame(TypePush, 3, "/nope_push", []byte("c")))
	vxWaitIdle()
	p.SetUnknownCall(func(ctx UnknownCallCtx) (interface{}, *Status) {
		hit("call2:" + ctx.ServiceMethod())
		return []byte("u2"), nil
	})
	conn.feed(vxFrame(TypeCall, 4, "/nope", []byte("d")))
	conn.feed(vxFrame(TypeCall, 5, "/known", []byte("e")))
	vxWaitIdle()
	sort.Strings(hits) // frames of one batch are handled concurrently
	vxAssert(len(hits) == 3 && hits[0] == "call1:/nope" && hits[1] == "call2:/nope" && hits[2] == "push1:/nope_push", "unregistered names reach the unknown-handler that is set at the time, also on sessions established earlier")
	vxAssert(reg.calls == 1, "registered name reaches its handler only")
	vxAssert(conn.nWrites() == 4, "[C03] four CALLs answered")
	if conn.nWrites() == 4 {
		codes := map[int32]int32{1: CodeNotFound, 2: 0, 4: 0, 5: 0}
		bodies := map[int32]string{1: "", 2: "u1", 4: "u2", 5: "e"}
		for _, w := range conn.writes {
			m, err := vxParse(w)
			vxAssert(err == nil && m.Status(true).Code() == codes[m.Seq()], "Not Found before an unknown-handler is set, OK afterwards")
			if err == nil && m.Seq() > 1 {
				vxAssert(string(vxBodyOf(m)) == bodies[m.Seq()], "reply comes from the handler in force")
			}
		}
	}
	vxCover("c10.unknown-after-session")
}

func init() {
	vxRegister("VX_C20_ContextStatus", VX_C20_ContextStatus)
	vxRegister("VX_C07_CloseWaitsThenLoss", VX_C07_CloseWaitsThenLoss)
}

// VX_C20_ContextStatus: contexts that handled failing requests (unknown route,
// failing handler, failed call's reply) are recycled into the read loop of a
// session whose calls succeed: every good call still reports OK with its own
// result. args: failKind(0 unknown route CALL, 1 handler status, 2 unknown PUSH, 3 reply with an error status), rounds
func VX_C20_ContextStatus(args []int) {
	vxPoolMode(1)
	p := vxNewPeer()
	bad := &vxRoute{name: "bad"}
	bad.fn = func(ctx *handlerCtx, arg []byte) (interface{}, *Status) { return nil, NewStatus(7001, "handler says no", "") }
	vxRouteCall(p, bad)
	conn := newVxConn("peer:1", "peer:2")
	s, st := p.ServeConn(conn)
	vxAssume(st.OK())
	vxWaitIdle()
	seq := int32(100)
	for r := 0; r < args[1]; r++ {
		// a failing use
		switch args[0] {
		case 0:
			conn.feed(vxFrame(TypeCall, seq, "/no/such", []byte("x")))
		case 1:
			conn.feed(vxFrame(TypeCall, seq, "/bad", []byte("x")))
		case 2:
			conn.feed(vxFrame(TypePush, seq, "/no/such/push", []byte("x")))
		case 3:
			var dump []byte
			fc := s.AsyncCall("/remote/fails", []byte("q"), &dump, make(chan CallCmd, 1))
			conn.feed(vxFrame(TypeReply, fc.Output().Seq(), "", nil, socket.WithStatus(NewStatus(404, "Not Found", ""))))
			vxWaitIdle()
			vxAssert(vxDone(fc) && fc.Status().Code() == 404, "failing call reports its own status")
		}
		seq++
		vxWaitIdle()
		// good calls afterwards
		for k := 0; k < 2; k++ {
			var res []byte
			c := s.AsyncCall("/remote/ok", []byte("q"), &res, make(chan CallCmd, 1))
			body := []byte("ok-" + string(rune('a'+r)) + string(rune('0'+k)))
			conn.feed(vxFrame(TypeReply, c.Output().Seq(), "", body))
			vxWaitIdle()
			vxAssert(vxDone(c), "[C02] good call completes")
			vxAssert(c.StatusOK(), "a call that succeeded reports OK whatever the context that read its reply handled before")
			vxAssert(string(res) == string(body), "with its own result")
			vxAssert(s.Health(), "and the session stays up")
		}
	}
	vxCover("c20.ctx-status")
}

// VX_C07_CloseWaitsThenLoss: a local Close is waiting for a running handler
// when the remote end drops the connection; then the handler finishes. The
// socket is closed once, the disconnect hook runs exactly once, the close
// notification has fired, the session left the index. args: none
func VX_C07_CloseWaitsThenLoss(args []int) {
	var log []string
	pl := newVxPlugin("rec", &log)
	p := vxNewPeer(pl)
	gate := make(chan struct{})
	entered := make(chan struct{}, 1)
	route := &vxRoute{name: "h"}
	route.fn = func(ctx *handlerCtx, arg []byte) (interface{}, *Status) {
		entered <- struct{}{}
		<-gate
		return arg, nil
	}
	vxRouteCall(p, route)
	conn := newVxConn("srv:1", "cli:2")
	s, st := p.ServeConn(conn)
	vxAssume(st.OK())
	conn.feed(vxFrame(TypeCall, 5, "/h", []byte("x")))
	vxWaitIdle()
	vxAssert(len(entered) == 1, "handler entered")
	closed := make(chan struct{})
	go func() {
		s.Close()
		close(closed)
	}()
	vxWaitIdle()
	conn.end() // the remote end goes away while Close waits for the handler
	vxWaitIdle()
	close(gate)
	vxWaitIdle()
	vxAssert(vxClosedChan(closed), "[C08] Close returns after the handler finished")
	vxAssert(vxBlockedThreads() == 0, "nobody left blocked")
	vxAssert(!s.Health() && p.CountSession() == 0, "closed session is unhealthy and left the index")
	vxAssert(conn.closes == 1, "the connection is closed exactly once")
	vxAssert(vxCount(log, "rec:PostDisconnect") == 1, "the disconnect hook runs exactly once for an established session")
	select {
	case <-s.CloseNotify():
	default:
		vxFail("close notification fired")
	}
	vxCover("c07.closewait-then-loss")
}
