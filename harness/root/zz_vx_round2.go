package erpc

import (
	"io"
	"net"

	"github.com/henrylee2cn/erpc/v6/socket"
)

func init() {
	vxRegister("VX_C01_MetaAcrossRequests", VX_C01_MetaAcrossRequests)
	vxRegister("VX_C07_ModifySocket", VX_C07_ModifySocket)
	vxRegister("VX_C08_CloseTwoPending", VX_C08_CloseTwoPending)
	vxRegister("VX_C10_SubRoutePush", VX_C10_SubRoutePush)
}

// VX_C01_MetaAcrossRequests: two requests handled one after the other (the
// second on a recycled context, possibly of another session): the second
// handler (or push receiver) sees exactly its own request's metadata and body,
// including keys with empty values. args: sameSession(0/1), nVal[, kind(0 CALL, 1 PUSH)]
func VX_C01_MetaAcrossRequests(args []int) {
	vxPoolMode(1)
	p := vxNewPeer()
	route := &vxRoute{name: "m"}
	var metas, bodies []string
	see := func(ctx *handlerCtx, arg []byte) {
		s := ""
		ctx.VisitMeta(func(k, v []byte) { s += string(k) + "=" + string(v) + ";" })
		metas = append(metas, s)
		bodies = append(bodies, string(arg))
	}
	route.fn = func(ctx *handlerCtx, arg []byte) (interface{}, *Status) { see(ctx, arg); return arg, nil }
	route.push = func(ctx *handlerCtx, arg []byte) *Status { see(ctx, arg); return nil }
	mtype := TypeCall
	if len(args) > 2 && args[2] == 1 {
		mtype = TypePush
		vxRoutePush(p, route)
	} else {
		vxRouteCall(p, route)
	}
	secret := vxString("secret", args[1])
	vxAssume(len(secret) == 0 || (secret[0] >= 'a' && secret[0] <= 'z'))
	c1 := newVxConn("srv:1", "alice:1")
	c1.feed(vxFrame(mtype, 1, "/m", []byte("alice's-body-"+secret), socket.WithAddMeta("user", "alice"), socket.WithAddMeta("token", secret), socket.WithAddMeta("z", "9")))
	_, st := p.ServeConn(c1)
	vxAssume(st.OK())
	vxWaitIdle()
	c2 := c1
	if args[0] == 0 {
		c2 = newVxConn("srv:1", "bob:2")
		_, st = p.ServeConn(c2)
		vxAssume(st.OK())
	}
	// (the read loop takes its context for the next frame before the previous
	// one is recycled, so reuse shows from the second follow-up on)
	for k := int32(0); k < 3; k++ {
		c2.feed(vxFrame(mtype, 2+k, "/m", []byte("b"), socket.WithAddMeta("user", "bob"), socket.WithAddMeta("trace", ""), socket.WithAddMeta("flag", "")))
		vxWaitIdle()
	}
	vxAssert(len(metas) == 4, "all requests handled")
	if len(metas) == 4 {
		vxAssert(metas[0] == "user=alice;token="+secret+";z=9;" && bodies[0] == "alice's-body-"+secret, "first handler sees its own metadata and body")
		for k := 1; k < 4; k++ {
			vxAssert(metas[k] == "user=bob;trace=;flag=;", "later handler sees exactly its own metadata, nothing of the earlier request")
			vxAssert(bodies[k] == "b", "later handler sees exactly its own body")
		}
	}
	if mtype == TypeCall {
		for _, w := range c2.writes {
			vxAssert(!vxMentions(w, []byte(secret)) || c2 == c1, "no byte of another session's request appears in a reply")
		}
	}
	vxCover("c01.meta-across")
}

// VX_C07_ModifySocket: a session that was given an id keeps it (and its single
// index entry) when its socket is replaced. args: setID(0/1)
func VX_C07_ModifySocket(args []int) {
	var log []string
	ren := &vxRenamer{to: "user-1"}
	ren.name, ren.log, ren.verdict = "ren", &log, map[string]*Status{}
	var p Peer
	if args[0] == 1 {
		p = vxNewPeer(ren)
	} else {
		p = vxNewPeer()
	}
	c := newVxConn("srv:1", "cli:1")
	s, st := p.ServeConn(c)
	vxAssume(st.OK())
	vxWaitIdle()
	want := "cli:1"
	if args[0] == 1 {
		want = "user-1"
	}
	vxAssert(s.ID() == want && p.CountSession() == 1, "listed once under its id")
	c2 := newVxConn("srv:1", "cli:1")
	s.(*session).ModifySocket(func(conn net.Conn) (net.Conn, ProtoFunc) { return c2, nil })
	vxWaitIdle()
	vxAssert(s.ID() == want, "id kept when the socket is replaced")
	got, ok := p.GetSession(want)
	vxAssert(ok && got == s && p.CountSession() == 1, "still exactly one index entry, under the current id")
	s.Close()
	vxWaitIdle()
	vxAssert(p.CountSession() == 0, "closed session leaves the index")
	_, ok = p.GetSession(want)
	vxAssert(!ok, "closed session not reachable by its id")
	vxCover("c07.modifysocket")
}

// VX_C08_CloseTwoPending: two calls are outstanding when the session is closed
// locally; the peer answers them one after the other; both complete with the
// peer's reply and Close returns afterwards. args: order(0 first then second, 1 reverse)
func VX_C08_CloseTwoPending(args []int) {
	p := vxNewPeer()
	conn := newVxConn("cli:1", "srv:2")
	s, st := p.ServeConn(conn)
	vxAssume(st.OK())
	var r1, r2 []byte
	c1 := s.AsyncCall("/a", []byte("1"), &r1, make(chan CallCmd, 1))
	c2 := s.AsyncCall("/b", []byte("2"), &r2, make(chan CallCmd, 1))
	closeDone := make(chan struct{})
	go func() {
		s.Close()
		close(closeDone)
	}()
	vxWaitIdle()
	vxAssert(!vxClosedChan(closeDone) && !vxDone(c1) && !vxDone(c2), "Close waits for the calls issued before closing")
	first, second := c1, c2
	if args[0] == 1 {
		first, second = c2, c1
	}
	conn.feed(vxFrame(TypeReply, first.Output().Seq(), "", []byte("R1")))
	vxWaitIdle()
	vxAssert(vxDone(first) && first.StatusOK(), "first reply completes its call")
	vxAssert(!vxDone(second) || second.StatusOK(), "the other call is not failed while the connection is intact and the peer has not replied yet")
	conn.feed(vxFrame(TypeReply, second.Output().Seq(), "", []byte("R2")))
	vxWaitIdle()
	vxAssert(vxDone(second) && second.StatusOK(), "second call completes with the peer's reply")
	vxAssert(vxClosedChan(closeDone), "Close returns once both calls completed")
	vxAssert(vxBlockedThreads() == 0, "nothing left blocked")
	vxCover("c08.twopending")
}

// VX_C10_SubRoutePush: a PUSH handler registered through a sub-router is
// dispatched under the returned name, whenever the sub-router was created.
// args: subRouterFirst(0 create the group after a root push registration, 1 before any push registration)
func VX_C10_SubRoutePush(args []int) {
	p := vxNewPeer()
	root := p.Router().subRouter
	grpEarly := root.SubRoute("/grp")
	rootPush := &vxRoute{name: "RootNote"}
	grpCall := &vxRoute{name: "GrpCall"}
	grpPush := &vxRoute{name: "GrpNote"}
	grp := grpEarly
	if args[0] == 0 {
		root.reg(pnPush, vxPushMaker, rootPush, nil)
		grp = root.SubRoute("/grp")
	}
	nc := grp.reg(pnCall, vxCallMaker, grpCall, nil)
	np := grp.reg(pnPush, vxPushMaker, grpPush, nil)
	if args[0] == 1 {
		root.reg(pnPush, vxPushMaker, rootPush, nil)
	}
	vxAssert(len(np) == 1 && np[0] == "/grp/grp_note" && nc[0] == "/grp/grp_call", "group registrations return their names")
	conn := newVxConn("srv:1", "cli:2")
	conn.feed(vxFrame(TypePush, 1, "/grp/grp_note", []byte("n")))
	conn.feed(vxFrame(TypePush, 2, "/root_note", []byte("r")))
	conn.feed(vxFrame(TypeCall, 3, "/grp/grp_call", []byte("c")))
	_, st := p.ServeConn(conn)
	vxAssume(st.OK())
	vxWaitIdle()
	vxAssert(grpPush.calls == 1, "the group's push handler is invoked under the name its registration returned")
	vxAssert(rootPush.calls == 1 && grpCall.calls == 1, "root push and group call handlers invoked")
	vxCover("c10.subroutepush")
}

func init() {
	vxRegister("VX_C02_FastReply", VX_C02_FastReply)
	vxRegister("VX_C03_HookPanic", VX_C03_HookPanic)
	vxRegister("VX_C06_PoolAfterOversize", VX_C06_PoolAfterOversize)
	vxRegister("VX_C09_RedialRetry", VX_C09_RedialRetry)
	vxRegister("VX_C06_SessionFieldBytes", VX_C06_SessionFieldBytes)
}

// VX_C02_FastReply: the peer's reply (or the loss of the connection) is
// processed by the read loop before the caller's transport write has returned.
// args: what(0 reply, 1 connection loss), nBody
func VX_C02_FastReply(args []int) {
	p := vxNewPeer()
	conn := newVxConn("cli:1", "srv:2")
	s, st := p.ServeConn(conn)
	vxAssume(st.OK())
	vxWaitIdle()
	body := vxBytes("reply", args[1])
	armed := true
	conn.onWrite = func(b []byte) {
		if !armed {
			return
		}
		armed = false
		m, err := vxParse(b)
		if err != nil {
			return
		}
		if args[0] == 0 {
			conn.feed(vxFrame(TypeReply, m.Seq(), "", body))
		} else {
			conn.end()
		}
		vxWaitIdle() // the read loop gets as far as it can before the write returns
	}
	var res []byte
	ch := make(chan CallCmd, 1)
	cmd := s.AsyncCall("/a", []byte("x"), &res, ch)
	vxWaitIdle()
	vxAssert(vxDone(cmd), "call completes although the answer was processed before the write returned")
	vxAssert(len(ch) == 1, "delivered exactly once")
	if vxDone(cmd) {
		if args[0] == 0 {
			vxAssert(cmd.StatusOK() && string(res) == string(body), "with the peer's reply")
		} else {
			vxAssert(!cmd.StatusOK() && IsConnError(cmd.Status()), "with a connection error")
		}
	}
	vxAssert(vxBlockedThreads() <= 1-args[0], "nobody left waiting")
	vxCover("c02.fastreply")
}

// VX_C03_HookPanic: a plugin hook panics while a CALL is being handled; a
// fence CALL follows. Each CALL gets exactly one REPLY while the connection
// stays up. args: stage(0 PostReadCallHeader,1 PreReadCallBody,2 PostReadCallBody,3 PreWriteReply,4 PostWriteReply)
func VX_C03_HookPanic(args []int) {
	stages := []string{"PostReadCallHeader", "PreReadCallBody", "PostReadCallBody", "PreWriteReply", "PostWriteReply"}
	stage := stages[args[0]]
	var log []string
	pl := newVxPlugin("rec", &log)
	fired := false
	pl.onHook = func(s string) {
		if s == stage && !fired {
			fired = true
			panic("hook " + s + " panics")
		}
	}
	p := vxNewPeer(pl)
	route := &vxRoute{name: "m"}
	vxRouteCall(p, route)
	conn := newVxConn("srv:1", "cli:2")
	s, st := p.ServeConn(conn)
	vxAssume(st.OK())
	conn.feed(vxFrame(TypeCall, 1, "/m", []byte("one")))
	vxWaitIdle()
	conn.feed(vxFrame(TypeCall, 2, "/m", []byte("two")))
	vxWaitIdle()
	n := map[int32]int{}
	for _, w := range conn.writes {
		m, err := vxParse(w)
		vxAssert(err == nil && m.Mtype() == TypeReply, "only well-formed REPLY frames are written")
		if err == nil {
			n[m.Seq()]++
		}
	}
	vxAssert(fired, "the hook fired")
	vxAssert(n[1] <= 1 && n[2] <= 1, "no CALL is answered twice")
	if s.Health() && !conn.isClosed() {
		vxAssert(n[1] == 1 && n[2] == 1, "connection intact: every CALL answered exactly once")
	}
	vxAssert(route.calls <= 2, "handler invoked at most once per CALL")
	vxCover("c03.hookpanic")
}

// VX_C06_PoolAfterOversize: after one connection announced an oversized frame
// and was refused, two other sessions whose frame decoding overlaps in time
// (one has received only part of its frame while the other decodes a complete
// one) both receive their messages intact. args: cut (bytes of B's frame delivered first)
func VX_C06_PoolAfterOversize(args []int) {
	socket.SetMessageSizeLimit(64)
	defer socket.SetMessageSizeLimit(0)
	vxPoolMode(1)
	p := vxNewPeer()
	var got []string
	note := &vxRoute{name: "note"}
	note.push = func(ctx *handlerCtx, arg []byte) *Status {
		got = append(got, ctx.Session().ID()+":"+string(arg))
		return nil
	}
	vxRoutePush(p, note)
	fb := vxFrame(TypePush, 1, "/note", []byte("bbbbbbbb"))
	fc := vxFrame(TypePush, 1, "/note", []byte("cc"))
	a := newVxConn("srv:1", "evil:1")
	sa, st := p.ServeConn(a)
	vxAssume(st.OK())
	a.feed([]byte{0, 0, 4, 0, 6}) // announces 1024 bytes > limit 64
	vxWaitIdle()
	vxAssert(!sa.Health(), "oversized announcement: session refused and disconnected")
	cut := args[0]
	if cut > len(fb)-1 {
		cut = len(fb) - 1
	}
	b := newVxConn("srv:1", "good:2")
	sb, st := p.ServeConn(b)
	vxAssume(st.OK())
	b.feed(fb[:cut])
	vxWaitIdle()
	c := newVxConn("srv:1", "good:3")
	sc, st := p.ServeConn(c)
	vxAssume(st.OK())
	c.feed(fc)
	vxWaitIdle()
	b.feed(fb[cut:])
	vxWaitIdle()
	vxAssert(sb.Health() && sc.Health(), "the other sessions keep working")
	vxAssert(len(got) == 2 && got[0] == "good:3:cc" && got[1] == "good:2:bbbbbbbb", "both received their pushes intact")
	vxCover("c06.pool-after-oversize")
}

// VX_C09_RedialRetry: a client session with redial writes a message after the
// connection was lost but before its own reader noticed: the write fails, the
// session redials and the message goes out on the new connection; every
// pre-/post-write hook fires at most once for that message.
// args: kind(0 call, 1 push)
func VX_C09_RedialRetry(args []int) {
	var log []string
	pl := newVxPlugin("h", &log)
	p := NewPeer(PeerConfig{RedialTimes: 1}, pl)
	var conns []*vxConn
	VXSetDialHook(func(addr string) (net.Conn, error) {
		c := newVxConn("cli:"+string(rune('1'+len(conns))), addr)
		conns = append(conns, c)
		return c, nil
	})
	defer VXSetDialHook(nil)
	s, st := p.Dial("srv:1")
	vxAssume(st.OK())
	vxWaitIdle()
	conns[0].failWrite = io.EOF // the connection is gone; the writer is the first to notice
	log = log[:0]
	pre, post := "h:PreWriteCall", "h:PostWriteCall"
	if args[0] == 1 {
		pre, post = "h:PreWritePush", "h:PostWritePush"
	}
	var pst *Status
	var cmd CallCmd
	if args[0] == 0 {
		cmd = s.AsyncCall("/a", []byte("x"), new([]byte), make(chan CallCmd, 1))
	} else {
		pst = s.Push("/n", []byte("x"))
	}
	vxAssert(vxCount(log, pre) <= 1, "pre-write hook fires at most once for one message")
	vxAssert(vxCount(log, post) <= 1, "post-write hook fires at most once for one message")
	if len(conns) == 2 && conns[1].nWrites() == 1 {
		vxCover("c09.retried")
		vxAssert(vxCount(log, pre) == 1 && vxCount(log, post) == 1, "message written after the redial: each hook fired exactly once")
		vxAssert(pst.OK(), "retried push reports success")
		if cmd != nil {
			vxAssert(!vxDone(cmd), "retried call is pending")
		}
	}
	vxCover("c09.redialretry")
}

// VX_C06_SessionFieldBytes: a well-framed message whose metadata / status /
// method section holds arbitrary bytes arrives on a live session: whatever the
// field parsers do with it (including a panic recovered by the read loop), the
// session ends up working or cleanly disconnected, nobody stays blocked and
// another session keeps working. args: field(0 meta, 1 status, 2 method), n
func VX_C06_SessionFieldBytes(args []int) {
	field, n := args[0], args[1]
	p := vxNewPeer()
	route := &vxRoute{name: "ok"}
	vxRouteCall(p, route)
	ph := make([]byte, n)
	for k := range ph {
		ph[k] = 'A'
	}
	var frame []byte
	switch field {
	case 0:
		frame = vxFrame(TypeCall, 1, "/ok", []byte("x"), func(m socket.Message) { m.Meta().ParseBytes(ph) })
	case 1:
		frame = vxFrame(TypeReply, 1, "/ok", []byte("x"), func(m socket.Message) { m.SetStatus(NewStatus(0, string(ph), "")) })
	default:
		frame = vxFrame(TypeCall, 1, string(ph), []byte("x"))
	}
	// overwrite the placeholder run with arbitrary bytes
	at := -1
	for k := 0; k+n <= len(frame) && n > 0; k++ {
		all := true
		for j := 0; j < n; j++ {
			if frame[k+j] != 'A' {
				all = false
				break
			}
		}
		if all {
			at = k
		}
	}
	if at >= 0 {
		in := vxBytes("field", n)
		copy(frame[at:], in)
	}
	conn := newVxConn("srv:1", "evil:1")
	s, st := p.ServeConn(conn)
	vxAssume(st.OK())
	conn.feed(frame)
	vxWaitIdle()
	if s.Health() {
		vxCover("c06.field.alive")
		conn.feed(vxFrame(TypeCall, 2, "/ok", []byte("again")))
		vxWaitIdle()
		vxAssert(route.calls >= 1, "session that survived the frame still handles calls")
	} else {
		vxCover("c06.field.disconnected")
		vxAssert(p.CountSession() == 0, "[C07] disconnected session left the index")
	}
	conn.end()
	vxWaitIdle()
	vxAssert(vxBlockedThreads() == 0, "nobody left blocked once the input is exhausted")
	c2 := newVxConn("srv:1", "good:2")
	c2.feed(vxFrame(TypeCall, 3, "/ok", []byte("fine")))
	s2, st := p.ServeConn(c2)
	vxAssume(st.OK())
	vxWaitIdle()
	vxAssert(s2.Health() && c2.nWrites() == 1, "another session still handles a call")
	vxCover("c06.field")
}

func init() { vxRegister("VX_C20_PreSessionPools", VX_C20_PreSessionPools) }

type vxPreOps struct {
	op      int
	fail    bool
	conn    *vxConn
	stat    *Status
	ran     bool
}

func (p *vxPreOps) Name() string { return "vxpreops" }
func (p *vxPreOps) PostAccept(s PreSession) *Status {
	p.ran = true
	if p.fail {
		p.conn.failWrite = errVxClosed
	}
	switch p.op {
	case 0:
		var reply []byte
		p.stat = s.PreCall("/pre", []byte("args"), &reply)
	case 1:
		p.stat = s.PreSend(TypePush, "/pre", []byte("args"), nil)
	case 2:
		in := GetMessage()
		in.SetSeq(7)
		in.SetServiceMethod("/pre")
		p.stat = s.PreReply(in, []byte("r"), nil)
		PutMessage(in)
	}
	p.conn.failWrite = nil
	return nil
}

func vxFreshMessage(m Message) bool {
	return m.Seq() == 0 && m.Mtype() == 0 && m.ServiceMethod() == "" && m.Meta().Len() == 0 && m.Body() == nil &&
		m.StatusOK() && m.XferPipe().Len() == 0 && m.Size() == 0 && m.BodyCodec() == 0
}

// VX_C20_PreSessionPools: the pre-session operations (PreCall/PrePush/PreReply
// from an accept hook), with or without a failing transport write, leave the
// message pool sound: messages handed out afterwards are fresh and no two
// users hold the same object. args: op(0 PreCall, 1 PreSend, 2 PreReply), writeFails(0/1)
func VX_C20_PreSessionPools(args []int) {
	vxPoolMode(1)
	conn := newVxConn("srv:1", "cli:2")
	ops := &vxPreOps{op: args[0], fail: args[1] == 1, conn: conn}
	if args[0] == 0 && args[1] == 0 {
		conn.feed(vxFrame(TypeReply, 0, "/pre", []byte("rep")))
	}
	p := vxNewPeer(ops)
	_, st := p.ServeConn(conn)
	vxAssert(ops.ran, "accept hook ran")
	if args[1] == 1 {
		vxAssert(!ops.stat.OK(), "failing write is reported to the hook")
	} else {
		vxAssert(ops.stat.OK(), "pre-session operation succeeds")
	}
	_ = st
	vxWaitIdle()
	var held []Message
	for k := 0; k < 4; k++ {
		m := GetMessage()
		vxAssert(vxFreshMessage(m), "a message handed out by the pool is fresh")
		for _, h := range held {
			vxAssert(h != m, "the pool never hands the same message to two users")
		}
		m.SetSeq(int32(100 + k))
		m.SetServiceMethod("/in/use")
		m.SetBody([]byte("owner"))
		held = append(held, m)
	}
	for _, h := range held {
		PutMessage(h)
	}
	vxCover("c20.presession")
}
