package erpc

import (
	"github.com/henrylee2cn/erpc/v6/socket"
)

func init() {
	vxRegister("VX_C02_Replies", VX_C02_Replies)
}

func vxDone(c CallCmd) bool {
	select {
	case <-c.Done():
		return true
	default:
		return false
	}
}

// VX_C02_Replies: two pending calls on one session; the remote peer sends one
// reply frame whose fields are symbolic / hostile, then the connection ends.
// Every call must complete exactly once, with the right correlation and status.
// args: seqMode(0 symbolic byte, 1 = call 1, 2 = call 2, 3 = neither),
//       codecMode(0 symbolic, 1 = 's', 2 = 0/nil codec),
//       statusMode(0 OK, 1 symbolic non-OK code),
//       nBody, resultKind(0 *[]byte, 1 *int via plain codec => text must parse),
//       cut(0 whole frame, k>0: frame truncated after k bytes), nMeta(0/1)
func VX_C02_Replies(args []int) {
	seqMode, codecMode, statusMode, nBody, resultKind, cut, nMeta := args[0], args[1], args[2], args[3], args[4], args[5], args[6]
	snaps := vxSnapSentinels()
	p := vxNewPeer()
	conn := newVxConn("cli:1", "srv:2")
	sess, st := p.ServeConn(conn)
	vxAssume(st.OK())
	var r1b, r2b []byte
	var r1i int
	var res1 interface{} = &r1b
	if resultKind == 1 {
		res1 = &r1i
	}
	ch1 := make(chan CallCmd, 1)
	ch2 := make(chan CallCmd, 1)
	c1 := sess.AsyncCall("/a", []byte("A"), res1, ch1)
	c2 := sess.AsyncCall("/b", []byte("B"), &r2b, ch2)
	vxAssert(conn.nWrites() == 2, "both calls written")
	vxAssert(!vxDone(c1) && !vxDone(c2) && len(ch1) == 0 && len(ch2) == 0, "calls pending before any reply")
	s1, s2 := c1.Output().Seq(), c2.Output().Seq()
	vxAssert(s1 != s2, "distinct sequence numbers")

	var seq int32
	switch seqMode {
	case 0:
		seq = int32(vxByte("rseq"))
	case 1:
		seq = s1
	case 2:
		seq = s2
	default:
		seq = s1 + s2 + 5
	}
	var codecID byte
	switch codecMode {
	case 0:
		// nil codec, the plain codec, or an id no codec is registered for
		// (the library codecs json/xml/form/protobuf/thrift are outside reach)
		codecID = vxByte("rcodec")
		vxAssume(codecID == 0 || codecID == 'q' || (codecID == 's' && resultKind == 0))
	case 1:
		codecID = 's'
	case 3:
		codecID = 'q'
	}
	body := vxBytes("rbody", nBody)
	var settings []socket.MessageSetting
	settings = append(settings, socket.WithBodyCodec(codecID))
	var rcode int32
	if statusMode == 1 {
		rcode = vxInt32("rcode")
		vxAssume(rcode != 0)
		settings = append(settings, socket.WithStatus(NewStatus(rcode, "remote says", "why")))
	}
	mv := ""
	if nMeta == 1 {
		mv = vxString("rmeta", 1)
		settings = append(settings, socket.WithAddMeta("k", mv))
	}
	m := socket.NewMessage(settings...)
	m.SetMtype(TypeReply)
	m.SetSeq(seq)
	m.SetBody(body)
	sink := &vxSink{}
	vxAssume(socket.RawProtoFunc(sink).Pack(m) == nil)
	frame := sink.data
	// the raw protocol writes codec byte as given, including 0
	if cut > 0 && cut < len(frame) {
		frame = frame[:cut]
	}
	conn.feed(frame)
	vxWaitIdle()
	d1, d2 := vxDone(c1), vxDone(c2)
	whole := cut == 0
	if whole {
		hit1, hit2 := seq == s1, seq == s2
		if !hit1 {
			vxAssert((!d1 && len(ch1) == 0) || !sess.Health(), "reply for another sequence number does not complete call 1")
			vxAssert(len(r1b) == 0 && r1i == 0, "reply for another sequence number does not touch call 1's result")
		}
		if !hit2 {
			vxAssert((!d2 && len(ch2) == 0) || !sess.Health(), "reply for another sequence number does not complete call 2")
			vxAssert(len(r2b) == 0, "reply for another sequence number does not touch call 2's result")
		}
		if hit1 {
			vxCover("c02.reply.hits-call1")
			if resultKind == 0 {
				// bytes result: always decodable
				vxAssert(d1 && len(ch1) == 1, "reply completes its call once it has arrived")
				if d1 {
					if statusMode == 0 {
						vxAssert(c1.StatusOK(), "OK reply => OK")
						vxAssert(len(r1b) == nBody, "result is the reply body")
						for k := 0; k < nBody && k < len(r1b); k++ {
							vxAssert(r1b[k] == body[k], "result bytes are the reply's bytes")
						}
					} else {
						vxAssert(!c1.StatusOK() && c1.Status().Code() == rcode, "non-OK reply => same code")
						vxAssert(c1.Status().Msg() == "remote says", "non-OK reply => same message")
					}
					if nMeta == 1 {
						vxAssert(string(c1.InputMeta().Peek("k")) == mv, "reply metadata handed to the caller")
					}
				}
			} else {
				vxAssert(d1 && len(ch1) == 1, "reply (decodable or not) completes its call once it has arrived")
				if d1 && nBody > 0 && codecID != 's' {
					// the body could not be decoded into the caller's result
					vxAssert(!c1.StatusOK(), "[C04] reply whose body could not be decoded is not reported as OK")
				}
			}
		}
		if hit2 {
			vxCover("c02.reply.hits-call2")
			vxAssert(d2 && len(ch2) == 1, "reply completes call 2")
		}
	}
	// the connection ends: everything still pending completes with an error
	conn.end()
	vxWaitIdle()
	vxAssert(vxDone(c1) && vxDone(c2), "after connection loss every call has completed")
	vxAssert(len(ch1) == 1 && len(ch2) == 1, "each call delivered exactly once to its completion channel")
	vxAssert(vxBlockedThreads() == 0, "no goroutine left blocked after the input is exhausted")
	if !d1 {
		vxAssert(!c1.StatusOK(), "call without reply ends with an error status")
		if vxDone(c1) && cut == 0 {
			vxAssert(c1.Status().Code() == CodeConnClosed, "connection loss => 102")
		}
	}
	if !d2 && vxDone(c2) {
		vxAssert(c2.Status().Code() == CodeConnClosed || cut > 0, "connection loss => 102 for call 2")
	}
	vxAssert(!sess.Health(), "session unhealthy after connection loss")
	vxCheckSentinels(snaps)
	vxCover("c02.end")
}
