package erpc

import "strings"

func init() {
	vxRegister("VX_C09_Hooks", VX_C09_Hooks)
	vxRegister("VX_C09_ClientHooks", VX_C09_ClientHooks)
}

var vxCallStageOrder = []string{"PostReadCallHeader", "PreReadCallBody", "PostReadCallBody", "HANDLER", "PreWriteReply", "PostWriteReply"}

// vxIsSubsequence reports whether got is a subsequence of want.
func vxIsSubsequence(got, want []string) bool {
	k := 0
	for _, g := range got {
		for k < len(want) && want[k] != g {
			k++
		}
		if k == len(want) {
			return false
		}
		k++
	}
	return true
}

// VX_C09_Hooks: plugin containers built by the real AppendLeft/AppendRight/
// SubRoute/reg code; one CALL to one of two sibling routes; a solver-chosen
// (plugin, stage) veto. The hook trace must be a subsequence of the documented
// order restricted to the global container and the matched route's chain.
// args: nLeft(0..2), spareCap(0/1), nRight(0/1), depth(0..2), handlerPlugins(0/1), target(0 R1, 1 R2), late(0 none,1 AppendLeft after routes,2 AppendRight after routes), veto(0/1)
func VX_C09_Hooks(args []int) {
	nLeft, spare, nRight, depth, hp, target, late, veto := args[0], args[1], args[2], args[3], args[4], args[5], args[6], args[7]
	var log []string
	mk := func(n string) *vxPlugin { return newVxPlugin(n, &log) }
	var left []Plugin
	if spare == 1 {
		left = make([]Plugin, 0, 4)
	}
	var leftNames, rightNames, groupNames []string
	byName := map[string]*vxPlugin{}
	add := func(n string) *vxPlugin { p := mk(n); byName[n] = p; return p }
	for k := 0; k < nLeft; k++ {
		n := "g" + string(rune('1'+k))
		left = append(left, add(n))
		leftNames = append(leftNames, n)
	}
	p := vxNewPeer(left...)
	if nRight == 1 {
		p.PluginContainer().AppendRight(add("r1"))
		rightNames = append(rightNames, "r1")
	}
	var sub *SubRouter = p.Router().subRouter
	for d := 0; d < depth; d++ {
		n := "grp" + string(rune('A'+d))
		sub = sub.SubRoute("/"+strings.ToLower(n), add(n))
		groupNames = append(groupNames, n)
	}
	r1, r2 := &vxRoute{name: "one"}, &vxRoute{name: "two"}
	var h1, h2 []Plugin
	if hp == 1 {
		h1 = []Plugin{add("h1")}
		h2 = []Plugin{add("h2")}
	}
	n1 := sub.reg(pnCall, vxCallMaker, r1, h1)
	n2 := sub.reg(pnCall, vxCallMaker, r2, h2)
	switch late {
	case 1:
		p.PluginContainer().AppendLeft(add("late"))
		leftNames = append([]string{"late"}, leftNames...)
	case 2:
		p.PluginContainer().AppendRight(add("late"))
		rightNames = append(rightNames, "late")
	}
	// expected order
	global := append(append([]string{}, leftNames...), rightNames...)
	chain := append([]string{}, leftNames...)
	chain = append(chain, groupNames...)
	if hp == 1 {
		if target == 0 {
			chain = append(chain, "h1")
		} else {
			chain = append(chain, "h2")
		}
	}
	chain = append(chain, rightNames...)
	var want []string
	for _, st := range vxCallStageOrder {
		if st == "HANDLER" {
			want = append(want, "HANDLER")
			continue
		}
		names := chain
		if st == "PostReadCallHeader" {
			names = global
		}
		for _, n := range names {
			want = append(want, n+":"+st)
		}
	}
	// veto
	var vstat *Status
	var vname, vstage string
	if veto == 1 && len(chain) > 0 {
		vstat = NewStatus(vxInt32("vcode"), "veto", "")
		vxAssume(vstat.Code() != 0)
		vstage = vxCallStageOrder[vxChoose("vstage", 3)]
		names := chain
		if vstage == "PostReadCallHeader" {
			names = global
		}
		if len(names) == 0 {
			vxAssume(false)
		}
		vname = names[vxChoose("vwho", len(names))]
		byName[vname].verdict[vstage] = vstat
	}
	route := r1
	method := n1[0]
	if target == 1 {
		route, method = r2, n2[0]
	}
	route.fn = func(ctx *handlerCtx, arg []byte) (interface{}, *Status) {
		log = append(log, "HANDLER")
		return arg, nil
	}
	conn := newVxConn("srv:1", "cli:2")
	conn.feed(vxFrame(TypeCall, 6, method, []byte("x")))
	_, st := p.ServeConn(conn)
	vxAssume(st.OK())
	vxWaitIdle()
	// per-message trace (connection-level and pre-read hooks excluded)
	var got []string
	for _, e := range log {
		if strings.HasSuffix(e, ":PostAccept") || strings.HasSuffix(e, ":PreReadHeader") {
			continue
		}
		got = append(got, e)
	}
	seen := map[string]int{}
	for _, e := range got {
		seen[e]++
		vxAssert(seen[e] <= 1, "each hook fires at most once per stage per message: "+e)
	}
	vxAssert(vxIsSubsequence(got, want), "hooks fire in stage order and registration order, only on the global container and the matched route's chain")
	vxAssert(r1.calls+r2.calls <= 1 && (target == 0 || r1.calls == 0) && (target == 1 || r2.calls == 0), "only the matched route's handler runs")
	vxAssert(conn.nWrites() == 1, "[C03] call answered once")
	if conn.nWrites() == 1 {
		m, err := vxParse(conn.writes[0])
		vxAssert(err == nil, "reply parses")
		if vstat != nil && seen[vname+":"+vstage] == 1 {
			vxCover("c09.veto-fired")
			vxAssert(route.calls == 0, "a non-OK pre-handler hook means the handler is not invoked")
			vxAssert(m.Status(true).Code() == vstat.Code(), "the vetoing hook's status is what the caller receives")
			// nothing of a later pre-handler stage fired
			after := false
			for _, e := range got {
				if e == vname+":"+vstage {
					after = true
					continue
				}
				if after {
					vxAssert(strings.HasSuffix(e, ":PreWriteReply") || strings.HasSuffix(e, ":PostWriteReply"), "no pre-handler hook fires after the veto: "+e)
				}
			}
		} else if vstat == nil {
			vxAssert(route.calls == 1 && m.StatusOK(), "without a veto the handler runs and the reply is OK")
		}
	}
	vxCover("c09.hooks")
}

// VX_C09_ClientHooks: on the calling side a vetoing pre-write hook means
// nothing is written. args: kind(0 call, 1 push), veto(0/1)
func VX_C09_ClientHooks(args []int) {
	var log []string
	a, b := newVxPlugin("a", &log), newVxPlugin("b", &log)
	p := vxNewPeer(a, b)
	conn := newVxConn("cli:1", "srv:2")
	sess, st := p.ServeConn(conn)
	vxAssume(st.OK())
	stage := "PreWriteCall"
	if args[0] == 1 {
		stage = "PreWritePush"
	}
	var vstat *Status
	who := a
	if args[1] == 1 {
		vstat = NewStatus(vxInt32("vcode"), "no", "")
		vxAssume(vstat.Code() != 0)
		if vxChoose("who", 2) == 1 {
			who = b
		}
		who.verdict[stage] = vstat
	}
	if args[0] == 0 {
		cmd := sess.AsyncCall("/m", []byte("x"), new([]byte), make(chan CallCmd, 1))
		if vstat != nil {
			vxAssert(conn.nWrites() == 0, "vetoing pre-write hook: nothing is written")
			vxAssert(vxDone(cmd) && cmd.Status().Code() == vstat.Code(), "vetoed call completes with the hook's status")
			vxAssert(vxCount(log, "b:PreWriteCall") == 0 || who == b, "hooks after the vetoing one do not fire")
			vxAssert(vxCount(log, "a:PostWriteCall")+vxCount(log, "b:PostWriteCall") == 0, "post-write hooks do not fire for an unwritten call")
		} else {
			vxAssert(conn.nWrites() == 1, "call written")
			vxAssert(vxIsSubsequence(log, []string{"a:PostAccept", "b:PostAccept", "a:PreReadHeader", "b:PreReadHeader", "a:PreWriteCall", "b:PreWriteCall", "a:PostWriteCall", "b:PostWriteCall"}), "client-side order")
		}
	} else {
		pst := sess.Push("/m", []byte("x"))
		if vstat != nil {
			vxAssert(conn.nWrites() == 0, "vetoing pre-write hook: nothing is written")
			vxAssert(pst.Code() == vstat.Code(), "vetoed push returns the hook's status")
		} else {
			vxAssert(pst.OK() && conn.nWrites() == 1, "push written")
		}
	}
	vxCover("c09.client")
}
