package erpc

func init() { vxRegister("VX_Session_History", VX_Session_History) }

// VX_Session_History: a solver-chosen sequence of events on one live session -
// incoming CALLs (echo handler, a handler that parks, unknown route), incoming
// PUSH, outgoing calls, the peer's replies, release of a parked handler, local
// Close, loss of the connection - with the invariants of several properties
// checked after every event and at the end against a small reference model.
// args: steps[, firstOp (-1 = any)[, parkedOutcome(0 ok, 1 status, 2 panic)[, moreEvents(0/1)]]]
func VX_Session_History(args []int) {
	steps := args[0]
	parkedOutcome := 0 // how a parked handler ends: 0 OK result, 1 error status, 2 panic
	if len(args) > 2 {
		parkedOutcome = args[2]
	}
	nOps := 9
	if len(args) > 3 && args[3] == 1 {
		nOps = 11 // also: a REPLY nobody waits for, a frame of an unsupported type
	}
	unsupportedFed := false
	explicitClose := false
	snaps := vxSnapSentinels()
	var log []string
	pl := newVxPlugin("rec", &log)
	p := vxNewPeer(pl)

	type parkedT struct {
		seq    int32
		gate   chan struct{}
		before bool // entered before a local Close began
	}
	var parked []*parkedT
	var closeBegunFlag func() bool
	runs := map[int32]int{}
	route := &vxRoute{name: "h"}
	route.fn = func(ctx *handlerCtx, arg []byte) (interface{}, *Status) {
		seq := ctx.Seq()
		runs[seq]++
		if len(arg) > 0 && arg[0] == 'P' {
			g := &parkedT{seq, make(chan struct{}), !closeBegunFlag()}
			parked = append(parked, g)
			<-g.gate
			switch parkedOutcome {
			case 1:
				return nil, NewStatus(1001, "parked handler says no", "")
			case 2:
				panic("parked handler panics")
			}
		}
		return append([]byte("r:"), arg...), nil
	}
	closeBegun, lost := false, false
	closeBegunFlag = func() bool { return closeBegun }
	pushes := 0
	proute := &vxRoute{name: "p"}
	proute.push = func(ctx *handlerCtx, arg []byte) *Status { pushes++; return nil }
	vxRouteCall(p, route)
	vxRoutePush(p, proute)
	conn := newVxConn("srv:1", "cli:2")
	s, st := p.ServeConn(conn)
	vxAssume(st.OK())
	vxWaitIdle()

	type outT struct {
		cmd     CallCmd
		ch      chan CallCmd
		res     *[]byte
		replied bool
	}
	var outs []*outT
	nextSeq := int32(1)
	lostBeforeClose := false // Close on a session that had already lost its connection has nothing to wait for
	closedCh := make(chan struct{})
	replyFor := func(seq int32) (n int, last []byte) {
		for _, w := range conn.writes {
			if m, err := vxParse(w); err == nil && m.Mtype() == TypeReply && m.Seq() == seq {
				n++
				last = w
			}
		}
		return
	}
	checkAlways := func() {
		for seq := int32(1); seq < nextSeq; seq++ {
			n, _ := replyFor(seq)
			vxAssert(n <= 1, "[C03] no CALL is answered twice")
			vxAssert(runs[seq] <= 1, "[C03] at most one handler invocation per CALL")
		}
		for _, o := range outs {
			vxAssert(len(o.ch) <= 1, "[C02] a call is delivered at most once to its completion channel")
			if o.replied {
				vxAssert(vxDone(o.cmd) && o.cmd.StatusOK(), "[C02] an answered call stays completed with the peer's reply")
			}
		}
		if vxClosedChan(closedCh) && !lostBeforeClose {
			for _, g := range parked {
				vxAssert(!g.before, "[C08] Close returns only after the handlers entered before it have finished")
			}
			for _, o := range outs {
				vxAssert(vxDone(o.cmd), "[C08] Close returns only after the calls issued before it have completed")
			}
		}
	}
	for step := 0; step < steps; step++ {
		op := vxChoose("op", nOps)
		if step == 0 && len(args) > 1 && args[1] >= 0 {
			vxAssume(op == args[1])
		}
		dead := lost || vxClosedChan(closedCh)
		switch op {
		case 0, 1, 2: // incoming CALL: echo / parks / unknown route
			vxAssume(!dead)
			seq := nextSeq
			nextSeq++
			method, body := "/h", "e"
			if op == 1 {
				body = "P"
			}
			if op == 2 {
				method = "/nope"
			}
			conn.feed(vxFrame(TypeCall, seq, method, []byte(body)))
			vxWaitIdle()
			if !closeBegun {
				n, w := replyFor(seq)
				switch op {
				case 0:
					vxAssert(n == 1 && runs[seq] == 1, "[C03] a CALL on a live session is handled once and answered exactly once")
					if n == 1 {
						m, _ := vxParse(w)
						vxAssert(m.StatusOK() && string(vxBodyOf(m)) == "r:e", "[C04] handler OK => OK reply with the handler's result")
					}
				case 1:
					vxAssert(runs[seq] == 1 && n == 0, "[C03] the parked handler has been entered and has not replied yet")
				case 2:
					vxAssert(n == 1 && runs[seq] == 0, "[C03] a CALL for an unknown route is answered without a handler")
					if n == 1 {
						m, _ := vxParse(w)
						vxAssert(m.Status(true).Code() == CodeNotFound, "[C04] unknown route => 404")
					}
				}
			}
		case 3: // incoming PUSH
			vxAssume(!dead)
			seq := nextSeq
			nextSeq++
			before := pushes
			conn.feed(vxFrame(TypePush, seq, "/p", []byte("n")))
			vxWaitIdle()
			if !closeBegun {
				vxAssert(pushes == before+1, "[C03] a PUSH on a live session reaches its handler once")
			}
			n, _ := replyFor(seq)
			vxAssert(n == 0 && pushes <= before+1, "[C03] a PUSH is never answered and handled at most once")
		case 4: // outgoing call
			o := &outT{ch: make(chan CallCmd, 1), res: new([]byte)}
			w0 := conn.nWrites()
			o.cmd = s.AsyncCall("/remote", []byte("q"), o.res, o.ch)
			vxWaitIdle()
			if closeBegun || lost {
				vxAssert(vxDone(o.cmd) && !o.cmd.StatusOK() && IsConnError(o.cmd.Status()), "[C07] a call on a closing or disconnected session fails fast with a connection error")
				vxAssert(conn.nWrites() == w0, "[C07] and nothing is written for it")
				o.replied = false
			} else {
				vxAssert(conn.nWrites() == w0+1 && !vxDone(o.cmd), "[C02] a call on a live session is written and pending")
			}
			outs = append(outs, o)
		case 5: // the peer answers the oldest pending call
			vxAssume(!dead)
			var o *outT
			for _, x := range outs {
				if !vxDone(x.cmd) {
					o = x
					break
				}
			}
			vxAssume(o != nil)
			conn.feed(vxFrame(TypeReply, o.cmd.Output().Seq(), "", []byte("answer")))
			vxWaitIdle()
			vxAssert(vxDone(o.cmd) && o.cmd.StatusOK() && string(*o.res) == "answer", "[C08] a call issued before closing completes with the peer's reply while the connection is intact")
			o.replied = true
		case 6: // the oldest parked handler finishes
			vxAssume(len(parked) > 0)
			g := parked[0]
			parked = parked[1:]
			close(g.gate)
			vxWaitIdle()
			if !lost && (g.before || !closeBegun) {
				n, w := replyFor(g.seq)
				vxAssert(n == 1, "[C08] a call whose handler was entered receives its reply, also while the session is being closed")
				if n == 1 {
					m, _ := vxParse(w)
					switch parkedOutcome {
					case 0:
						vxAssert(m.StatusOK() && string(vxBodyOf(m)) == "r:P", "[C08] and it is the genuine reply")
					case 1:
						vxAssert(m.Status(true).Code() == 1001, "[C08] and it is the genuine reply (the handler's error status, not a connection error)")
					case 2:
						vxAssert(m.Status(true).Code() == CodeInternalServerError, "[C08] and it is the genuine reply (500 for the panic, not a connection error)")
					}
				}
			}
		case 9: // a REPLY nobody is waiting for
			vxAssume(!dead)
			w0 := conn.nWrites()
			conn.feed(vxFrame(TypeReply, 4242, "", []byte("stale")))
			vxWaitIdle()
			vxAssert(conn.nWrites() == w0, "[C03] a stray REPLY is not answered")
		case 10: // a frame of an unsupported type: the session closes itself
			vxAssume(!dead && !closeBegun)
			conn.feed(vxFrame(9, nextSeq, "/h", []byte("u")))
			nextSeq++
			vxWaitIdle()
			unsupportedFed = true
			closeBegun = true
			lostBeforeClose = lost
			vxAssert(!s.Health(), "[C03] a frame of an unsupported type is answered by disconnecting")
		case 7: // local Close
			vxAssume(!closeBegun)
			closeBegun = true
			explicitClose = true
			lostBeforeClose = lost
			go func() {
				s.Close()
				close(closedCh)
			}()
			vxWaitIdle()
		case 8: // the connection is lost
			vxAssume(!lost && !vxClosedChan(closedCh))
			lost = true
			conn.end()
			vxWaitIdle()
			for _, o := range outs {
				vxAssert(vxDone(o.cmd), "[C02] after connection loss every pending call has completed")
			}
		}
		checkAlways()
	}
	// wind down: handlers finish, the connection ends
	for len(parked) > 0 {
		g := parked[0]
		parked = parked[1:]
		close(g.gate)
		vxWaitIdle()
	}
	if !lost && !vxClosedChan(closedCh) {
		conn.end()
		vxWaitIdle()
	}
	checkAlways()
	for _, o := range outs {
		vxAssert(vxDone(o.cmd) && len(o.ch) == 1, "[C02] every call completed and was delivered exactly once")
	}
	if unsupportedFed {
		vxAssert(conn.isClosed() && conn.closes == 1, "[C03] after a frame of an unsupported type the connection ends up closed")
	}
	vxAssert(vxBlockedThreads() == 0, "[C02] nobody is left blocked")
	if explicitClose {
		vxAssert(vxClosedChan(closedCh), "[C08] Close has returned")
	}
	vxAssert(!s.Health(), "[C07] the ended session is unhealthy")
	vxAssert(p.CountSession() == 0, "[C07] and left the index")
	select {
	case <-s.CloseNotify():
	default:
		vxFail("[C07] close notification fired")
	}
	vxAssert(vxCount(log, "rec:PostDisconnect") == 1, "[C07] the disconnect hook ran exactly once")
	vxAssert(conn.closes == 1, "[C07] the connection was closed exactly once")

	vxCheckSentinels(snaps)
	vxCover("session.history")
}
