package erpc

import (
	"fmt"
	"net"

	"github.com/henrylee2cn/erpc/v6/socket"
)

func init() {
	vxRegister("VX_C10_NestedGroups", VX_C10_NestedGroups)
	vxRegister("VX_C15_Constructors", VX_C15_Constructors)
	vxRegister("VX_C04_VetoOrder", VX_C04_VetoOrder)
	vxRegister("VX_C08_PeerCloseAfterRedial", VX_C08_PeerCloseAfterRedial)
}

// VX_C10_NestedGroups: groups of groups: a handler registered through
// root.SubRoute(a).SubRoute(b) is returned and dispatched under /a/b/<name>
// and under nothing else; sibling nested groups with the same inner prefix stay
// apart. args: nSym (symbolic letters in the outer prefix)
func VX_C10_NestedGroups(args []int) {
	p := vxNewPeer()
	root := p.Router().subRouter
	outer := "v" + vxString("outer", args[0])
	for k := 1; k < len(outer); k++ {
		vxAssume(outer[k] >= 'a' && outer[k] <= 'z')
	}
	g1 := root.SubRoute("/" + outer).SubRoute("/admin")
	g2 := root.SubRoute("/w2").SubRoute("/admin")
	top := root.SubRoute("/admin")
	r1, r2, r3 := &vxRoute{name: "Stats"}, &vxRoute{name: "Stats"}, &vxRoute{name: "Other"}
	n1 := g1.reg(pnCall, vxCallMaker, r1, nil)
	n2 := g2.reg(pnCall, vxCallMaker, r2, nil)
	n3 := top.reg(pnCall, vxCallMaker, r3, nil)
	vxAssert(len(n1) == 1 && n1[0] == "/"+outer+"/admin/stats", "a nested group's registration returns /outer/inner/name")
	vxAssert(len(n2) == 1 && n2[0] == "/w2/admin/stats", "a sibling nested group returns its own name")
	vxAssert(len(n3) == 1 && n3[0] == "/admin/other", "a top-level group with the inner prefix returns its own name")
	conn := newVxConn("srv:1", "cli:2")
	_, st := p.ServeConn(conn)
	vxAssume(st.OK())
	conn.feed(vxFrame(TypeCall, 1, "/"+outer+"/admin/stats", []byte("a")))
	vxWaitIdle()
	vxAssert(r1.calls == 1 && r2.calls == 0, "the documented nested name dispatches to exactly its handler")
	conn.feed(vxFrame(TypeCall, 2, "/w2/admin/stats", []byte("b")))
	vxWaitIdle()
	vxAssert(r1.calls == 1 && r2.calls == 1, "the sibling's name dispatches to the sibling's handler")
	conn.feed(vxFrame(TypeCall, 3, "/admin/stats", []byte("c"))) // never registered
	vxWaitIdle()
	vxAssert(r1.calls == 1 && r2.calls == 1 && r3.calls == 0, "a name that was never returned by a registration invokes no handler")
	vxAssert(conn.nWrites() == 3, "[C03] three CALLs answered")
	if conn.nWrites() == 3 {
		m, err := vxParse(conn.writes[2])
		vxAssert(err == nil && m.Status(true).Code() == CodeNotFound, "the unregistered name is answered 404")
	}
	vxCover("c10.nested-groups")
}

// VX_C15_Constructors: every exported way of obtaining a status for a
// framework code (NewStatusByCodeText with and without cause / stack tag,
// NewStatus, a handler context's Status) yields a value the application may
// customise; afterwards the framework still reports the documented code,
// message and cause for its own failures. args: code index into the framework codes, variant(0 nil cause, 1 with cause, 2 tagStack)
func VX_C15_Constructors(args []int) {
	snaps := vxSnapSentinels()
	codes := []int32{CodeNotFound, CodeBadMessage, CodeConnClosed, CodeWriteFailed, CodeDialFailed, CodeInternalServerError, CodeMtypeNotAllowed, CodeHandleTimeout, CodeUnknownError, CodeWrongConn}
	code := codes[args[0]%len(codes)]
	var st *Status
	switch args[1] {
	case 0:
		st = NewStatusByCodeText(code, nil, false)
	case 1:
		st = NewStatusByCodeText(code, "why", false)
	case 2:
		st = NewStatusByCodeText(code, nil, true)
	}
	vxAssert(st.Code() == code && st.Msg() == CodeText(code), "the constructor yields the documented code and text")
	// the application customises what it was given
	st.SetMsg("application text " + vxString("m", 1))
	st.SetCode(7000 + vxInt32("c")%1000)
	st.SetCause(fmt.Errorf("application cause"))
	vxCheckSentinels(snaps)
	// and the framework still reports its own failures as documented
	p := vxNewPeer()
	conn := newVxConn("srv:1", "cli:2")
	conn.feed(vxFrame(TypeCall, 5, "/no/such/route", []byte("x")))
	conn.feed(vxFrame(TypeCall, 6, "", []byte("x")))
	s, pst := p.ServeConn(conn)
	vxAssume(pst.OK())
	vxWaitIdle()
	vxAssert(conn.nWrites() == 2, "[C03] both CALLs answered")
	if conn.nWrites() == 2 {
		m1, e1 := vxParse(conn.writes[0])
		m2, e2 := vxParse(conn.writes[1])
		if e1 == nil && e2 == nil && m1.Seq() == 6 && m2.Seq() == 5 {
			// the two frames are handled concurrently: replies may be written in either order
			m1, m2 = m2, m1
		}
		vxAssert(e1 == nil && m1.Status(true).Code() == CodeNotFound && m1.Status(true).Msg() == "Not Found", "unknown route still answered 404 Not Found")
		vxAssert(e2 == nil && m2.Status(true).Code() == CodeBadMessage && m2.Status(true).Msg() == "Bad Message", "a CALL without a service method still answered 400 Bad Message")
	}
	s.Close()
	ps := s.Push("/p", []byte("z"))
	vxAssert(ps.Code() == CodeConnClosed && ps.Msg() == "Connection Closed", "a push on a closed session still reports 102 Connection Closed")
	vxCover("c15.constructors")
}

// vxVeto is a plugin with only the PostReadCallBody / PostReadCallHeader /
// PreWriteReply hooks; it answers with its verdict (nil = agrees).
type vxVeto struct {
	name    string
	stage   string
	verdict *Status
	seen    int
}

func (v *vxVeto) Name() string { return v.name }
func (v *vxVeto) at(stage string) *Status {
	if stage != v.stage {
		return nil
	}
	v.seen++
	return v.verdict
}
func (v *vxVeto) PostReadCallHeader(ReadCtx) *Status { return v.at("PostReadCallHeader") }
func (v *vxVeto) PreReadCallBody(ReadCtx) *Status    { return v.at("PreReadCallBody") }
func (v *vxVeto) PostReadCallBody(ReadCtx) *Status   { return v.at("PostReadCallBody") }

// VX_C04_VetoOrder: two plugins implement the same pre-handler hook; the first
// vetoes with its own status, the second agrees (or vetoes with another
// status). The handler does not run, later plugins of that hook are not
// consulted, and the caller observes the FIRST veto's code, message and cause.
// args: stage(0 PostReadCallHeader, 1 PreReadCallBody, 2 PostReadCallBody), second(0 agrees, 1 vetoes differently), level(0 both global, 1 second is route-level)
func VX_C04_VetoOrder(args []int) {
	stage := []string{"PostReadCallHeader", "PreReadCallBody", "PostReadCallBody"}[args[0]]
	code := vxInt32("code")
	vxAssume(code != 0 && (code < 100 || code > 199))
	first := &vxVeto{name: "acl", stage: stage, verdict: NewStatus(code, "vetoed by acl", "acl cause")}
	second := &vxVeto{name: "audit", stage: stage}
	if args[1] == 1 {
		second.verdict = NewStatus(4002, "vetoed by quota", "quota cause")
	}
	var p Peer
	route := &vxRoute{name: "m"}
	if args[2] == 0 {
		p = vxNewPeer(first, second)
		vxRouteCall(p, route)
	} else {
		p = vxNewPeer(first)
		p.Router().subRouter.reg(pnCall, vxCallMaker, route, []Plugin{second})
	}
	conn := newVxConn("srv:1", "cli:2")
	conn.feed(vxFrame(TypeCall, 9, "/m", []byte("x")))
	_, st := p.ServeConn(conn)
	vxAssume(st.OK())
	vxWaitIdle()
	vxAssert(first.seen == 1, "the first plugin's hook ran")
	vxAssert(route.calls == 0, "a vetoed CALL does not reach its handler")
	vxAssert(second.seen == 0, "[C09] a veto stops the chain: later plugins of that hook are not consulted")
	vxAssert(conn.nWrites() == 1, "[C03] the vetoed CALL is answered once")
	if conn.nWrites() == 1 {
		m, err := vxParse(conn.writes[0])
		vxAssert(err == nil && m.Seq() == 9, "[C03] reply for the call")
		if err == nil {
			s := m.Status(true)
			vxAssert(s.Code() == code && s.Msg() == "vetoed by acl" && s.Cause().Error() == "acl cause", "the caller observes the vetoing plugin's code, message and cause")
		}
	}
	vxCover("c04.veto-order")
}

// VX_C08_PeerCloseAfterRedial: a dialled session (custom or default id)
// loses its connection and redials; a handler for a CALL from the remote side
// is running when Peer.Close is called: Peer.Close does not return before the
// handler has finished and its reply is written, and the session is closed.
// args: customID(0/1)
func VX_C08_PeerCloseAfterRedial(args []int) {
	p := NewPeer(PeerConfig{RedialTimes: 2, RedialInterval: vxRedialEvery})
	gate := make(chan struct{})
	entered := 0
	route := &vxRoute{name: "slow"}
	route.fn = func(ctx *handlerCtx, arg []byte) (interface{}, *Status) {
		entered++
		<-gate
		return []byte("done"), nil
	}
	vxRouteCall(p, route)
	var conns []*vxConn
	VXSetDialHook(func(addr string) (net.Conn, error) {
		c := newVxConn(fmt.Sprintf("cli:%d", len(conns)), addr)
		conns = append(conns, c)
		return c, nil
	})
	defer VXSetDialHook(nil)
	s, st := p.Dial("srv:1")
	vxAssume(st.OK())
	if args[0] == 1 {
		s.SetID("user-1")
	}
	vxWaitIdle()
	conns[0].end()
	vxWaitIdle()
	vxAssert(len(conns) == 2 && s.Health(), "[C13] the session redialled")
	if len(conns) != 2 {
		return
	}
	got, ok := p.GetSession(s.ID())
	vxAssert(ok && got == s && p.CountSession() == 1, "[C13] the redialled session is listed under its id")
	conns[1].feed(vxFrame(TypeCall, 4, "/slow", []byte("x")))
	vxWaitIdle()
	vxAssert(entered == 1, "the handler is running")
	closed := make(chan struct{})
	go func() {
		p.Close()
		close(closed)
	}()
	vxWaitIdle()
	vxAssert(!vxClosedChan(closed), "Peer.Close does not return while a handler entered before it is still running")
	close(gate)
	vxWaitIdle()
	vxAssert(vxClosedChan(closed), "Peer.Close returns once the handler finished")
	vxAssert(conns[1].nWrites() == 1, "[C03] the handler's reply was written before the connection was closed")
	vxAssert(!s.Health() && conns[1].isClosed(), "Peer.Close closed the session")
	vxCover("c08.peerclose-after-redial")
}

var _ = socket.NewMessage

func init() { vxRegister("VX_C09_SiblingGroups", VX_C09_SiblingGroups) }

// VX_C09_SiblingGroups: a chain of nested groups (one plugin each) of the
// given depth ends in two sibling groups A and B, each with its own plugin;
// handlers are registered in both (A's after B was created). A CALL to A's
// handler is seen by exactly the plugins of A's chain, in order, and not by
// B's plugin; and vice versa. args: depth (levels above the siblings, 0..4), perLevel (plugins per level, 1..2)
func VX_C09_SiblingGroups(args []int) {
	depth, per := args[0], args[1]
	var log []string
	p := vxNewPeer()
	sub := p.Router().subRouter
	var chain []string
	path := ""
	for d := 0; d < depth; d++ {
		var ps []Plugin
		for k := 0; k < per; k++ {
			n := fmt.Sprintf("L%d_%d", d, k)
			ps = append(ps, newVxPlugin(n, &log))
			chain = append(chain, n)
		}
		seg := fmt.Sprintf("/l%d", d)
		sub = sub.SubRoute(seg, ps...)
		path += seg
	}
	ga := sub.SubRoute("/a", newVxPlugin("A", &log))
	gb := sub.SubRoute("/b", newVxPlugin("B", &log))
	ra, rb := &vxRoute{name: "op"}, &vxRoute{name: "op"}
	na := ga.reg(pnCall, vxCallMaker, ra, nil)
	nb := gb.reg(pnCall, vxCallMaker, rb, nil)
	vxAssert(len(na) == 1 && na[0] == path+"/a/op" && len(nb) == 1 && nb[0] == path+"/b/op", "[C10] nested sibling groups return their own names")
	conn := newVxConn("srv:1", "cli:2")
	_, st := p.ServeConn(conn)
	vxAssume(st.OK())
	for turn, who := range []string{"A", "B"} {
		log = log[:0]
		name := path + "/a/op"
		if who == "B" {
			name = path + "/b/op"
		}
		conn.feed(vxFrame(TypeCall, int32(turn+1), name, []byte("x")))
		vxWaitIdle()
		var seen []string
		for _, e := range log {
			if len(e) > 17 && e[len(e)-17:] == ":PostReadCallBody" {
				seen = append(seen, e[:len(e)-17])
			}
		}
		want := append(append([]string{}, chain...), who)
		ok := len(seen) == len(want)
		for k := range want {
			ok = ok && k < len(seen) && seen[k] == want[k]
		}
		vxAssert(ok, "a CALL is seen by exactly the plugins of the matched route's group chain, in registration order, not by a sibling group's plugin")
	}
	vxAssert(ra.calls == 1 && rb.calls == 1, "[C10] each name dispatched to its own handler")
	vxCover("c09.sibling-groups")
}

func init() { vxRegister("VX_C20_ContextAfterEarlyFailure", VX_C20_ContextAfterEarlyFailure) }

// VX_C20_ContextAfterEarlyFailure: a handler context whose use ended before a
// header was decoded (the frame's transfer filter rejected the payload / the
// peer closed without sending anything / a frame of type 0) goes back to the
// pool; the next session that gets it handles an ordinary CALL exactly as with
// a fresh context, and a push launched with it exposes nothing of the failed
// use. args: how(0 filter rejects the payload, 1 connection ends silently, 2 frame of type 0 with metadata and filter), next(0 CALL on another session, 1 Push from another session)
func VX_C20_ContextAfterEarlyFailure(args []int) {
	how, next := args[0], args[1]
	vxPoolMode(1)
	var log []string
	rec := newVxPlugin("rec", &log)
	var pushCtxHadDeadline, pushSawMeta bool
	rec.onHook = func(stage string) {}
	p := vxNewPeer(rec)
	route := &vxRoute{name: "r"}
	vxRouteCall(p, route)
	a := newVxConn("srv:1", "evil:1")
	sa, st := p.ServeConn(a)
	vxAssume(st.OK())
	sa.(*session).SetSessionAge(0)
	switch how {
	case 0:
		f := vxFrame(TypeCall, 1, "/r", []byte("a"), socket.WithXferPipe('v'), socket.WithAddMeta("old", "meta"))
		f[6] = 0 // the filter's marker: OnUnpack now rejects the payload
		a.feed(f)
	case 1:
		a.end()
	case 2:
		a.feed(vxFrame(TypeUndefined, 1, "/r", []byte("a"), socket.WithXferPipe('v'), socket.WithAddMeta("old", "meta")))
	}
	vxWaitIdle()
	vxAssert(!sa.Health(), "[C06] the offending session is disconnected")
	b := newVxConn("srv:1", "good:2")
	sb, st := p.ServeConn(b)
	vxAssume(st.OK())
	if next == 0 {
		b.feed(vxFrame(TypeCall, 7, "/r", []byte("fine")))
		vxWaitIdle()
		vxAssert(sb.Health(), "a healthy session is not disturbed by what an earlier connection's failed frame left behind")
		vxAssert(route.calls == 1 && b.nWrites() == 1, "[C03] its CALL is handled and answered")
		if b.nWrites() == 1 {
			m, err := vxParse(b.writes[0])
			vxAssert(err == nil && m.Seq() == 7 && m.StatusOK() && string(vxBodyOf(m)) == "fine", "with an intact reply")
			vxAssert(err == nil && m.Meta().Len() == 0 && m.XferPipe().Len() == 0, "that carries no metadata or transfer filter of the failed frame")
		}
	} else {
		rec.onHook = func(stage string) {}
		pst := sb.Push("/note", []byte("n"))
		vxAssert(pst.OK() && b.nWrites() == 1, "a push from another session goes out")
		if b.nWrites() == 1 {
			m, err := vxParse(b.writes[0])
			vxAssert(err == nil && m.Mtype() == TypePush && m.Meta().Len() == 0 && m.XferPipe().Len() == 0 && string(vxBodyOf(m)) == "n", "and carries nothing of the failed frame")
		}
	}
	_, _ = pushCtxHadDeadline, pushSawMeta
	vxCover("c20.context-early-failure")
}

func init() { vxRegister("VX_C06_RealIPMeta", VX_C06_RealIPMeta) }

// VX_C06_RealIPMeta: the peer sends a well-formed CALL, PUSH or REPLY whose
// X-Real-IP metadata value is arbitrary (n symbolic bytes: no colon, only a
// colon, empty, ...): no goroutine of the process panics, the message is
// handled like any other and another session keeps working.
// args: kind(0 CALL, 1 PUSH, 2 REPLY to a pending call), n
func VX_C06_RealIPMeta(args []int) {
	kind, n := args[0], args[1]
	ip := vxString("ip", n)
	for k := 0; k < len(ip); k++ {
		vxAssume(ip[k] != '&' && ip[k] != '=' && ip[k] != '%' && ip[k] != '+' && ip[k] >= 0x20 && ip[k] < 0x7f)
	}
	p := vxNewPeer()
	route := &vxRoute{name: "m"}
	vxRouteCall(p, route)
	note := &vxRoute{name: "note"}
	vxRoutePush(p, note)
	conn := newVxConn("srv:1", "cli:2")
	s, st := p.ServeConn(conn)
	vxAssume(st.OK())
	other := newVxConn("srv:1", "cli:3")
	_, st = p.ServeConn(other)
	vxAssume(st.OK())
	meta := socket.WithAddMeta(MetaRealIP, ip)
	switch kind {
	case 0:
		conn.feed(vxFrame(TypeCall, 1, "/m", []byte("x"), meta))
		vxWaitIdle()
		vxAssert(route.calls == 1 && conn.nWrites() == 1, "[C03] the CALL is handled and answered")
	case 1:
		conn.feed(vxFrame(TypePush, 1, "/note", []byte("x"), meta))
		vxWaitIdle()
		vxAssert(note.calls == 1, "the PUSH is handled")
	case 2:
		c := s.AsyncCall("/q", []byte("q"), new([]byte), make(chan CallCmd, 1))
		conn.feed(vxFrame(TypeReply, c.Output().Seq(), "", []byte("r"), meta))
		vxWaitIdle()
		vxAssert(vxDone(c) && c.StatusOK(), "[C02] the call completes with the reply")
	}
	vxAssert(s.Health(), "the session that received the message stays up")
	other.feed(vxFrame(TypeCall, 5, "/m", []byte("y")))
	vxWaitIdle()
	vxAssert(other.nWrites() == 1, "another session of the process keeps working")
	vxCover("c06.realip-meta")
}
