package erpc

import "github.com/henrylee2cn/erpc/v6/socket"

func init() {
	vxRegister("VX_C14_Races", VX_C14_Races)
}

// VX_C14_Races: operations documented as safe for concurrent use run in
// separate goroutines on one session/peer with happens-before race detection
// switched on; any pair of unsynchronised conflicting accesses inside the
// framework is a violation. args: scenario, preemptions (0 = run-to-block schedule only)
func VX_C14_Races(args []int) {
	scenario, pre := args[0], args[1]
	p := vxNewPeer()
	route := &vxRoute{name: "h"}
	vxRouteCall(p, route)
	conn := newVxConn("srv:1", "cli:2")
	s, st := p.ServeConn(conn)
	vxAssume(st.OK())
	vxRaceDetect(true)
	if pre > 0 {
		vxSched(1, pre)
	}
	done := make(chan struct{}, 4)
	run := func(f func()) {
		go func() {
			f()
			done <- struct{}{}
		}()
	}
	n := 0
	switch scenario {
	case 0: // first use of the swap from two goroutines
		run(func() { s.Swap().Store("a", 1) })
		run(func() { s.Swap().Store("b", 2) })
		n = 2
	case 1: // id change vs lookups and enumeration
		run(func() { s.SetID("X") })
		run(func() { _ = s.ID(); p.GetSession("X"); p.CountSession() })
		run(func() { p.RangeSession(func(Session) bool { return true }) })
		n = 3
	case 2: // two calls and the reader delivering a reply
		c1 := make(chan CallCmd, 1)
		run(func() { s.AsyncCall("/a", []byte("1"), new([]byte), c1) })
		run(func() { s.AsyncCall("/b", []byte("2"), new([]byte), make(chan CallCmd, 1)) })
		conn.feed(vxFrame(TypeReply, 1, "", []byte("r")))
		n = 2
	case 3: // push vs a handler writing its reply vs close
		conn.feed(vxFrame(TypeCall, 9, "/h", []byte("x")))
		run(func() { s.Push("/p", []byte("y")) })
		run(func() { s.Close() })
		n = 2
	case 4: // session/context age setters vs getters
		ss := s.(*session)
		run(func() { ss.SetSessionAge(0); ss.SetContextAge(0) })
		run(func() { _ = ss.SessionAge(); _ = ss.ContextAge() })
		n = 2
	case 5: // close vs close vs health/enumeration
		run(func() { s.Close() })
		run(func() { s.Close() })
		run(func() { _ = s.Health(); p.CountSession() })
		n = 3
	case 7: // two concurrent id changes vs lookups
		run(func() { s.SetID("X") })
		run(func() { s.SetID("Y") })
		run(func() { _ = s.ID(); p.GetSession("X"); p.GetSession("Y") })
		n = 3
	case 8: // re-asserting the current id vs changing it
		s.SetID("same")
		run(func() { s.SetID("same") })
		run(func() { s.SetID("other") })
		n = 2
	case 9: // two enumerations at once (one of them slow), with a second session present
		c2 := newVxConn("srv:1", "cli:3")
		p.ServeConn(c2)
		run(func() {
			p.RangeSession(func(x Session) bool { _ = x.ID(); vxYield(); return true })
		})
		run(func() {
			p.RangeSession(func(x Session) bool { _ = x.ID(); return true })
		})
		run(func() { p.CountSession(); p.GetSession("cli:3") })
		n = 3
	case 10: // pushes from two goroutines while an incoming PUSH and a CALL are handled
		conn.feed(vxFrame(TypePush, 11, "/h", []byte("p")))
		conn.feed(vxFrame(TypeCall, 12, "/h", []byte("c")))
		run(func() { s.Push("/p1", []byte("1")) })
		run(func() { s.Push("/p2", []byte("2")) })
		run(func() { p.CountSession(); _ = s.Health(); _ = s.ID() })
		n = 3
	case 11: // application data stored on the session while incoming messages take their contexts
		conn.feed(vxFrame(TypeCall, 21, "/h", []byte("a")))
		conn.feed(vxFrame(TypeCall, 22, "/h", []byte("b")))
		run(func() { s.Swap().Store("k1", 1); s.Swap().Delete("k1") })
		run(func() { s.Swap().Store("k2", 2); _ = s.Swap().Len() })
		n = 2
	case 12: // lookups and enumeration while a session closes and another is accepted
		c2 := newVxConn("srv:1", "cli:9")
		run(func() { s.Close() })
		run(func() { p.ServeConn(c2) })
		run(func() { p.GetSession("cli:2"); p.GetSession("cli:9"); p.CountSession(); p.RangeSession(func(Session) bool { return true }) })
		n = 3
	case 13: // a completed call's reply metadata is read while further replies are received
		var r1 []byte
		c1 := s.AsyncCall("/a", []byte("1"), &r1, make(chan CallCmd, 1))
		conn.feed(vxFrame(TypeReply, c1.Output().Seq(), "", []byte("r1"), socket.WithAddMeta("tag", "first")))
		vxWaitIdle()
		c2 := s.AsyncCall("/b", []byte("2"), new([]byte), make(chan CallCmd, 1))
		c3 := s.AsyncCall("/c", []byte("3"), new([]byte), make(chan CallCmd, 1))
		conn.feed(vxFrame(TypeReply, c2.Output().Seq(), "", []byte("r2"), socket.WithAddMeta("tag", "second")))
		conn.feed(vxFrame(TypeReply, c3.Output().Seq(), "", []byte("r3"), socket.WithAddMeta("tag", "third")))
		run(func() {
			for k := 0; k < 3; k++ {
				_ = c1.InputMeta().QueryString()
				_ = c1.InputMeta().Peek("tag")
				vxYield()
			}
		})
		n = 1
		defer func() {
			vxAssert(string(c1.InputMeta().Peek("tag")) == "first", "[C01] a completed call keeps the metadata of its own reply while later replies arrive")
		}()
	case 14: // raw pushes from two goroutines after a pre-session call failed while writing
		vxRaceDetect(false)
		vxPoolMode(1)
		bad := newVxConn("srv:1", "gone:9")
		ops := &vxPreOps{op: 0, fail: true, conn: bad}
		vxNewPeer(ops).ServeConn(bad)
		vxAssert(ops.ran && !ops.stat.OK(), "[C20] the failing pre-session call is reported to its hook")
		vxRaceDetect(true)
		conn.onWrite = func([]byte) { vxHandoff() } // a write takes time: the other goroutine runs meanwhile
		run(func() { s.(*session).RawPush("/a", []byte("from-a")) })
		run(func() { s.(*session).RawPush("/c", []byte("from-c")) })
		n = 2
		defer func() {
			got := map[string]string{}
			for _, w := range conn.writes {
				if m, err := vxParse(w); err == nil && m.Mtype() == TypePush {
					got[m.ServiceMethod()] = string(vxBodyOf(m))
				}
			}
			vxAssert(conn.nWrites() == 2 && got["/a"] == "from-a" && got["/c"] == "from-c", "[C01] pushes issued from two goroutines both go out, each with its own method and body")
		}()
	case 15: // a frame of an unsupported type on this session while another session keeps receiving calls
		c2 := newVxConn("srv:1", "cli:7")
		s2, st2 := p.ServeConn(c2)
		vxAssume(st2.OK())
		conn.feed(vxFrame(9, 31, "/h", []byte("u")))
		c2.feed(vxFrame(TypeCall, 32, "/h", []byte("c")))
		c2.feed(vxFrame(TypeCall, 33, "/h", []byte("d")))
		run(func() { _ = s2.Health(); p.CountSession() })
		n = 1
		defer func() {
			vxAssert(!s.Health(), "[C03] a frame of an unsupported type is answered by disconnecting its own session")
			vxAssert(s2.Health() && c2.nWrites() == 2, "[C06] and every other session keeps working")
		}()
	case 16: // the caller reads the cost of a call as soon as it is done, while the reader finishes delivering the reply
		var r1 []byte
		c1 := s.AsyncCall("/a", []byte("1"), &r1, make(chan CallCmd, 1))
		conn.feed(vxFrame(TypeReply, c1.Output().Seq(), "", []byte("r1")))
		run(func() { _ = c1.CostTime(); _ = c1.StatusOK() })
		n = 1
	case 6: // call vs remote close
		run(func() { s.AsyncCall("/a", []byte("1"), new([]byte), make(chan CallCmd, 1)) })
		conn.end()
		n = 1
	}
	for k := 0; k < n; k++ {
		<-done
	}
	vxWaitIdle()
	vxRaceDetect(false)
	vxCover("c14.races")
}

func init() { vxRegister("VX_C14_DisconnectWhileLaunching", VX_C14_DisconnectWhileLaunching) }

// VX_C14_DisconnectWhileLaunching: one goroutine is in the middle of launching
// a call (inside a pre-write hook) while the peer goes away and the session's
// reader handles the disconnect. No unsynchronised conflicting accesses; the
// call completes exactly once; the disconnect handling finishes.
// args: kind(0 AsyncCall with a roomy channel, 1 channel of capacity 1)[, where(0 in the pre-write hook, 1 in the post-write hook, 2 inside the transport write, which fails once released)]
func VX_C14_DisconnectWhileLaunching(args []int) {
	var log []string
	pl := newVxPlugin("h", &log)
	rel := make(chan struct{})
	entered := make(chan struct{}, 1)
	hookStage := "PreWriteCall"
	if len(args) > 1 && args[1] == 1 {
		hookStage = "PostWriteCall" // the request has been written; the launch has not returned yet
	}
	pl.onHook = func(stage string) {
		if stage == hookStage {
			entered <- struct{}{}
			<-rel
		}
	}
	p := vxNewPeer(pl)
	conn := newVxConn("cli:1", "srv:2")
	if len(args) > 1 && args[1] == 2 {
		// the launcher is inside the transport write, which then fails
		hookStage = "-"
		conn.preWrite = func([]byte) error {
			entered <- struct{}{}
			<-rel
			return errVxClosed
		}
	}
	s, st := p.ServeConn(conn)
	vxAssume(st.OK())
	vxWaitIdle()
	vxRaceDetect(true)
	capn := 4
	if args[0] == 1 {
		capn = 1
	}
	ch := make(chan CallCmd, capn)
	fin := make(chan CallCmd, 1)
	go func() {
		fin <- s.AsyncCall("/a", []byte("1"), new([]byte), ch)
	}()
	<-entered // the launcher is inside the hook
	conn.end() // the peer goes away
	vxWaitIdle() // the reader handles the disconnect as far as it can
	close(rel)
	vxWaitIdle()
	vxRaceDetect(false)
	vxAssert(len(fin) == 1, "[C02] launch returns")
	if len(fin) == 1 {
		cmd := <-fin
		vxAssert(vxDone(cmd), "[C02] call launched during the disconnect completes")
		vxAssert(len(ch) == 1, "[C02] and is delivered exactly once")
	}
	vxAssert(vxBlockedThreads() == 0, "disconnect handling finishes (nobody left blocked)")
	select {
	case <-s.CloseNotify():
	default:
		vxFail("[C13] close notification fires after the disconnect")
	}
	vxCover("c14.launching")
}
