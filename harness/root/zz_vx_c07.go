package erpc

import "fmt"

func init() {
	vxRegister("VX_C07_History", VX_C07_History)
	vxRegister("VX_C07_AcceptHooks", VX_C07_AcceptHooks)
}

type vxSessModel struct {
	sess   Session
	conn   *vxConn
	id     string
	live   bool
	notify bool
}

// VX_C07_History: a solver-chosen history of accept / SetID / local close /
// remote close / peer-level lookups over up to 3 sessions; after every step
// (quiescent point) the session index must contain exactly the live sessions
// under their current ids, closed sessions stay closed, fail fast and have
// fired their close notification and disconnect hook exactly once.
// args: steps[, closedToo(1: SetID is also issued on sessions that have ended)]
func VX_C07_History(args []int) {
	steps := args[0]
	var log []string
	pl := newVxPlugin("rec", &log)
	p := vxNewPeer(pl)
	route := &vxRoute{name: "h"}
	vxRouteCall(p, route)
	var ms []*vxSessModel
	ids := []string{"A", "B"}
	check := func(when string) {
		live := 0
		for _, m := range ms {
			if m.live {
				live++
				got, ok := p.GetSession(m.id)
				vxAssert(ok && got == m.sess, "live session is indexed under its current id ("+when+")")
				vxAssert(m.sess.Health(), "live session is healthy ("+when+")")
				vxAssert(m.sess.ID() == m.id, "session reports its current id ("+when+")")
			} else {
				vxAssert(!m.sess.Health(), "closed session is unhealthy ("+when+")")
				if got, ok := p.GetSession(m.id); ok {
					vxAssert(got != m.sess, "closed session is not in the index ("+when+")")
				}
				select {
				case <-m.sess.CloseNotify():
				default:
					vxFail("close notification fired for a closed session (" + when + ")")
				}
			}
		}
		vxAssert(p.CountSession() == live, "index size equals the number of live sessions ("+when+")")
		n := 0
		p.RangeSession(func(s Session) bool { n++; return true })
		vxAssert(n == live, "enumeration yields exactly the live sessions ("+when+")")
	}
	for step := 0; step < steps; step++ {
		op := vxChoose("op", 5)
		switch op {
		case 0: // accept
			if len(ms) >= 3 {
				continue
			}
			k := len(ms)
			c := newVxConn("srv:1", fmt.Sprintf("cli:%d", k))
			s, st := p.ServeConn(c)
			vxAssume(st.OK())
			ms = append(ms, &vxSessModel{sess: s, conn: c, id: s.ID(), live: true})
		case 1: // SetID on a live session (fresh id, own id, or an id held by another session)
			if len(ms) == 0 {
				continue
			}
			m := ms[vxChoose("who", len(ms))]
			if !m.live {
				if len(args) > 1 && args[1] == 1 {
					// an id change on a session that has ended changes nothing in the index:
					// the session stays out of it and no live session is displaced
					nid := ids[vxChoose("id", len(ids))]
					m.sess.SetID(nid)
					vxWaitIdle()
					m.id = nid
					break
				}
				continue
			}
			nid := ids[vxChoose("id", len(ids))]
			m.sess.SetID(nid)
			vxWaitIdle()
			for _, o := range ms {
				if o != m && o.live && o.id == nid {
					o.live = false // a newer session taking over an id closes the older one
				}
			}
			m.id = nid
		case 2: // local close
			if len(ms) == 0 {
				continue
			}
			m := ms[vxChoose("who", len(ms))]
			m.sess.Close()
			m.live = false
		case 3: // remote close
			if len(ms) == 0 {
				continue
			}
			m := ms[vxChoose("who", len(ms))]
			m.conn.end()
			m.live = false
		case 4: // traffic on a closed session fails fast; on a live one a call frame is handled
			if len(ms) == 0 {
				continue
			}
			m := ms[vxChoose("who", len(ms))]
			if !m.live {
				w := m.conn.nWrites()
				st := m.sess.Push("/x", []byte("p"))
				vxAssert(st.Code() == CodeConnClosed, "push on a closed session fails fast with 102")
				cmd := m.sess.Call("/x", []byte("c"), new([]byte))
				vxAssert(cmd.Status().Code() == CodeConnClosed, "call on a closed session fails fast with 102")
				vxAssert(m.conn.nWrites() == w, "nothing written by a closed session")
				calls := route.calls
				m.conn.feed(vxFrame(TypeCall, 9, "/h", []byte("late")))
				vxWaitIdle()
				vxAssert(route.calls == calls, "no new handler starts on a closed session")
			} else {
				calls := route.calls
				m.conn.feed(vxFrame(TypeCall, 9, "/h", []byte("x")))
				vxWaitIdle()
				vxAssert(route.calls == calls+1, "live session handles a call")
			}
		}
		vxWaitIdle()
		check(fmt.Sprintf("after step %d", step))
	}
	// disconnect hook: exactly once per established session that ended
	ended := 0
	for _, m := range ms {
		if !m.live {
			ended++
		}
	}
	vxAssert(vxCount(log, "rec:PostDisconnect") == ended, "disconnect hook ran exactly once per ended session")
	vxAssert(vxBlockedThreads() <= len(ms)-ended, "only readers of live sessions are waiting")
	vxCover("c07.history")
}

type vxRenamer struct {
	vxPlugin
	to string
}

func (r *vxRenamer) PostAccept(s PreSession) *Status {
	s.SetID(r.to)
	return r.hit("PostAccept")
}

// VX_C07_AcceptHooks: accept hooks may rename the session and a later hook may
// reject it; a rejected connection is closed and never listed.
// args: rename(0/1), rejectMode(0 accept, 1 second hook rejects)
func VX_C07_AcceptHooks(args []int) {
	var log []string
	ren := &vxRenamer{to: "user-1"}
	ren.name, ren.log, ren.verdict = "ren", &log, map[string]*Status{}
	gate := newVxPlugin("gate", &log)
	var p Peer
	if args[0] == 1 {
		p = vxNewPeer(ren, gate)
	} else {
		p = vxNewPeer(gate)
	}
	code := vxInt32("code")
	if args[1] == 1 {
		vxAssume(code != 0)
		gate.verdict["PostAccept"] = NewStatus(code, "rejected", "")
	}
	c := newVxConn("srv:1", "cli:1")
	c.feed(vxFrame(TypeCall, 3, "/nothing", []byte("x")))
	s, st := p.ServeConn(c)
	vxWaitIdle()
	if args[1] == 1 {
		vxAssert(!st.OK() && s == nil, "rejected connection yields no session")
		vxAssert(st.Code() == code, "the rejecting hook's status is returned")
		vxAssert(c.isClosed(), "rejected connection is closed")
		vxAssert(p.CountSession() == 0, "rejected connection is not listed")
		_, ok := p.GetSession("user-1")
		vxAssert(!ok, "rejected connection is not reachable by its id")
		_, ok = p.GetSession("cli:1")
		vxAssert(!ok, "rejected connection is not reachable by its address")
		vxAssert(c.nWrites() == 0, "no message handled before the hooks succeeded")
		vxCover("c07.rejected")
	} else {
		vxAssert(st.OK() && s != nil && s.Health(), "accepted session healthy")
		vxAssert(p.CountSession() == 1, "accepted session listed once")
		want := "cli:1"
		if args[0] == 1 {
			want = "user-1"
		}
		got, ok := p.GetSession(want)
		vxAssert(ok && got == s, "listed under its current id")
		vxAssert(c.nWrites() == 1, "messages handled after the hooks succeeded")
		s.Close()
		vxAssert(p.CountSession() == 0, "closed session leaves the index")
		vxCover("c07.accepted")
	}
}
