package erpc

import "strings"

func init() {
	vxRegister("VX_C10_MapperTable", VX_C10_MapperTable)
	vxRegister("VX_C10_MapperSymbolic", VX_C10_MapperSymbolic)
	vxRegister("VX_C10_Lookup", VX_C10_Lookup)
	vxRegister("VX_C10_Conflict", VX_C10_Conflict)
}

// VX_C10_MapperTable: the documented mapping table.
func VX_C10_MapperTable(args []int) {
	http := [][2]string{{"AaBb", "/aa_bb"}, {"ABcXYz", "/abc_xyz"}, {"Aa__Bb", "/aa_bb"}, {"aa__bb", "/aa_bb"}, {"ABC__XYZ", "/abc_xyz"}, {"Aa_Bb", "/aa/bb"}, {"aa_bb", "/aa/bb"}, {"ABC_XYZ", "/abc/xyz"}}
	for _, r := range http {
		vxAssert(HTTPServiceMethodMapper("", r[0]) == r[1], "HTTP mapping table: "+r[0])
	}
	rpc := [][2]string{{"AaBb", "AaBb"}, {"ABcXYz", "ABcXYz"}, {"Aa__Bb", "Aa_Bb"}, {"aa__bb", "aa_bb"}, {"ABC__XYZ", "ABC_XYZ"}, {"Aa_Bb", "Aa.Bb"}, {"aa_bb", "aa.bb"}, {"ABC_XYZ", "ABC.XYZ"}}
	for _, r := range rpc {
		vxAssert(RPCServiceMethodMapper("", r[0]) == r[1], "RPC mapping table: "+r[0])
	}
	// the rules of the table applied to identifiers with several separators
	http2 := [][2]string{{"Aa_Bb_Cc", "/aa/bb/cc"}, {"A_B_C", "/a/b/c"}, {"aa_bb_cc_dd", "/aa/bb/cc/dd"}, {"Aa_Bb__Cc_Dd", "/aa/bb_cc/dd"}, {"User_Profile_Get", "/user/profile/get"}, {"AaBb_CcDd_EeFf", "/aa_bb/cc_dd/ee_ff"}, {"Aa__Bb__Cc", "/aa_bb_cc"}}
	for _, r := range http2 {
		vxAssert(HTTPServiceMethodMapper("", r[0]) == r[1], "HTTP mapping, several separators: "+r[0])
	}
	rpc2 := [][2]string{{"Aa_Bb_Cc", "Aa.Bb.Cc"}, {"aa_bb_cc_dd", "aa.bb.cc.dd"}, {"Aa_Bb__Cc_Dd", "Aa.Bb_Cc.Dd"}, {"Aa__Bb__Cc", "Aa_Bb_Cc"}}
	for _, r := range rpc2 {
		vxAssert(RPCServiceMethodMapper("", r[0]) == r[1], "RPC mapping, several separators: "+r[0])
	}
	vxAssert(HTTPServiceMethodMapper("/grp", "AaBb") == "/grp/aa_bb", "HTTP mapping with prefix")
	vxAssert(RPCServiceMethodMapper("grp", "AaBb") == "grp.AaBb", "RPC mapping with prefix")
	vxCover("c10.table")
}

func vxIdent(tag string, n int) string {
	s := vxString(tag, n)
	for k := 0; k < n; k++ {
		c := s[k]
		vxAssume((c >= 'a' && c <= 'z') || (c >= 'A' && c <= 'Z') || (c >= '0' && c <= '9') || c == '_')
	}
	return s
}

// VX_C10_MapperSymbolic: name mapping is a total, deterministic function of
// (prefix, identifier). args: nName, prefixKind(0 "", 1 "/p", 2 "p/q")
func VX_C10_MapperSymbolic(args []int) {
	name := vxIdent("name", args[0])
	prefix := []string{"", "/p", "p/q"}[args[1]]
	h1 := HTTPServiceMethodMapper(prefix, name)
	h2 := HTTPServiceMethodMapper(prefix, name)
	vxAssert(h1 == h2, "HTTP mapper deterministic")
	vxAssert(len(h1) > 0 && h1[0] == '/', "HTTP names start with /")
	vxAssert(!strings.Contains(h1, "//"), "HTTP names contain no //")
	r1 := RPCServiceMethodMapper(prefix, name)
	r2 := RPCServiceMethodMapper(prefix, name)
	vxAssert(r1 == r2, "RPC mapper deterministic")
	vxAssert(len(r1) == 0 || (r1[0] != '.' && r1[len(r1)-1] != '.'), "RPC names have no leading/trailing dot")
	vxCover("c10.mapper")
}

// VX_C10_Lookup: a registered handler is invoked exactly under the returned
// name; CALL and PUSH are separate namespaces; other names reach the
// unknown-handler if set and otherwise yield Not Found.
// args: delta(-1,0,1: requested length relative to the registered name), unknownH(0/1), kind(0 call frame, 1 push frame)
func VX_C10_Lookup(args []int) {
	delta, unknownH, kind := args[0], args[1], args[2]
	p := vxNewPeer()
	rc := &vxRoute{name: "Ab"}
	rp := &vxRoute{name: "Ab"}
	other := &vxRoute{name: "Abc"}
	nc := vxRouteCall(p, rc)
	np := vxRoutePush(p, rp)
	vxRouteCall(p, other)
	vxAssert(len(nc) == 1 && nc[0] == "/ab" && len(np) == 1 && np[0] == "/ab", "registration returns the service-method names")
	unknown := 0
	if unknownH == 1 {
		p.SetUnknownCall(func(ctx UnknownCallCtx) (interface{}, *Status) { unknown++; return nil, nil })
		p.SetUnknownPush(func(ctx UnknownPushCtx) *Status { unknown++; return nil })
	}
	req := vxString("req", len(nc[0])+delta)
	mtype := TypeCall
	if kind == 1 {
		mtype = TypePush
	}
	conn := newVxConn("srv:1", "cli:2")
	conn.feed(vxFrame(mtype, 2, req, []byte("x")))
	_, st := p.ServeConn(conn)
	vxAssume(st.OK())
	vxWaitIdle()
	if kind == 0 {
		vxAssert(rp.calls == 0, "a CALL never reaches a PUSH handler")
		vxAssert((rc.calls == 1) == (req == "/ab"), "the handler is invoked iff the requested name equals its registered name exactly")
		vxAssert((other.calls == 1) == (req == "/abc"), "a longer registered name is a different route")
		if req != "/ab" && req != "/abc" {
			vxCover("c10.unregistered")
			vxAssert(rc.calls == 0 && other.calls == 0, "unregistered name invokes no registered handler")
			if len(req) > 0 {
				if unknownH == 1 {
					vxAssert(unknown == 1, "unregistered name reaches the unknown-handler")
				} else if conn.nWrites() == 1 {
					m, _ := vxParse(conn.writes[0])
					vxAssert(m.Status(true).Code() == CodeNotFound, "unregistered name yields Not Found")
				}
			}
		}
	} else {
		vxAssert(rc.calls == 0 && other.calls == 0, "a PUSH never reaches a CALL handler")
		vxAssert((rp.calls == 1) == (req == "/ab"), "the push handler is invoked iff the name matches exactly")
		vxAssert(conn.nWrites() == 0, "[C03] push not answered")
	}
	vxCover("c10.lookup")
}

type vxMulti struct{ names []string }

func vxMultiMaker(prefix string, spec interface{}, pc *PluginContainer) ([]*Handler, error) {
	var hs []*Handler
	for _, n := range spec.(*vxMulti).names {
		r := &vxRoute{name: n}
		h, _ := vxCallMaker(prefix, r, pc)
		hs = append(hs, h...)
	}
	return hs, nil
}

// VX_C10_Conflict: two registrations never silently share a name: the second
// one is refused (Fatalf) whether it comes in a later registration or in the
// same batch. args: mode(0 later registration, 1 same batch, 2 different identifiers mapping to one name in one batch, 3 call vs push same name = allowed)
func VX_C10_Conflict(args []int) {
	p := vxNewPeer()
	sub := p.Router().subRouter
	switch args[0] {
	case 0:
		sub.reg(pnCall, vxCallMaker, &vxRoute{name: "AaBb"}, nil)
		vxCover("c10.conflict.before")
		sub.reg(pnCall, vxCallMaker, &vxRoute{name: "Aa__Bb"}, nil)
		vxFail("two registrations share a name silently (later registration)")
	case 1:
		vxCover("c10.conflict.before")
		sub.reg(pnCall, vxMultiMaker, &vxMulti{[]string{"Same", "Same"}}, nil)
		vxFail("two registrations share a name silently (same batch)")
	case 2:
		vxCover("c10.conflict.before")
		names := sub.reg(pnCall, vxMultiMaker, &vxMulti{[]string{"AaBb", "Aa__Bb"}}, nil)
		_ = names
		vxFail("two identifiers mapping to one name registered silently (same batch)")
	case 3:
		a := sub.reg(pnCall, vxCallMaker, &vxRoute{name: "Same"}, nil)
		b := sub.reg(pnPush, vxPushMaker, &vxRoute{name: "Same"}, nil)
		vxAssert(len(a) == 1 && len(b) == 1 && a[0] == b[0], "CALL and PUSH are separate namespaces")
		vxCover("c10.namespaces")
	}
}
