package erpc

func init() {
	vxRegister("VX_C01_ConcurrentCalls", VX_C01_ConcurrentCalls)
	vxRegister("VX_C07_CloseRace", VX_C07_CloseRace)
	vxRegister("VX_C02_HandlerCallsBack", VX_C02_HandlerCallsBack)
}

// VX_C01_ConcurrentCalls: two goroutines call on one session at the same time
// (all schedules with <= k pre-emptions); sequence numbers are distinct, every
// frame is written whole, and each caller gets the reply to its own call even
// when the replies arrive in the opposite order. args: preemptions, nBody
func VX_C01_ConcurrentCalls(args []int) {
	p := vxNewPeer()
	conn := newVxConn("cli:1", "srv:2")
	s, st := p.ServeConn(conn)
	vxAssume(st.OK())
	vxSched(1, args[0])
	var r1, r2 []byte
	var c1, c2 CallCmd
	done := make(chan struct{}, 2)
	go func() {
		c1 = s.AsyncCall("/a", []byte("A"), &r1, make(chan CallCmd, 1))
		done <- struct{}{}
	}()
	go func() {
		c2 = s.AsyncCall("/b", []byte("B"), &r2, make(chan CallCmd, 1))
		done <- struct{}{}
	}()
	<-done
	<-done
	vxSched(0, 0)
	vxAssert(conn.nWrites() == 2, "two frames written")
	s1, s2 := c1.Output().Seq(), c2.Output().Seq()
	vxAssert(s1 != s2, "concurrent calls get distinct sequence numbers")
	seen := map[int32]string{}
	for _, w := range conn.writes {
		m, err := vxParse(w)
		vxAssert(err == nil && m.Mtype() == TypeCall, "every write is one whole CALL frame")
		if err == nil {
			seen[m.Seq()] = m.ServiceMethod() + ":" + string(vxBodyOf(m))
		}
	}
	vxAssert(seen[s1] == "/a:A" && seen[s2] == "/b:B", "each frame carries its own call's method and argument")
	b1, b2 := vxBytes("rep1", args[1]), vxBytes("rep2", args[1])
	conn.feed(vxFrame(TypeReply, s2, "", b2))
	conn.feed(vxFrame(TypeReply, s1, "", b1))
	vxWaitIdle()
	vxAssert(vxDone(c1) && vxDone(c2) && c1.StatusOK() && c2.StatusOK(), "both calls complete OK")
	vxAssert(len(r1) == len(b1) && len(r2) == len(b2), "result lengths")
	for k := range b1 {
		if k < len(r1) && k < len(r2) {
			vxAssert(r1[k] == b1[k], "call 1 receives the reply to call 1")
			vxAssert(r2[k] == b2[k], "call 2 receives the reply to call 2")
		}
	}
	vxCover("c01.concurrent")
}

// VX_C07_CloseRace: local Close concurrent with the reader seeing EOF (all
// schedules with <= k pre-emptions): the session ends closed, its close
// notification and disconnect hook fire exactly once. args: preemptions
func VX_C07_CloseRace(args []int) {
	var log []string
	pl := newVxPlugin("rec", &log)
	p := vxNewPeer(pl)
	conn := newVxConn("srv:1", "cli:2")
	s, st := p.ServeConn(conn)
	vxAssume(st.OK())
	vxWaitIdle()
	vxSched(1, args[0])
	done := make(chan struct{}, 1)
	go func() {
		s.Close()
		done <- struct{}{}
	}()
	conn.end()
	<-done
	vxWaitIdle()
	vxSched(0, 0)
	vxAssert(!s.Health(), "session unhealthy")
	select {
	case <-s.CloseNotify():
	default:
		vxFail("close notification fired")
	}
	vxAssert(vxCount(log, "rec:PostDisconnect") == 1, "disconnect hook ran exactly once for the established session")
	vxAssert(p.CountSession() == 0, "session left the index")
	vxAssert(vxBlockedThreads() == 0, "nothing left blocked")
	vxCover("c07.closerace")
}

// VX_C02_HandlerCallsBack: a handler calls back on the same session and waits
// for the reply; the connection is lost. Every call must still complete.
func VX_C02_HandlerCallsBack(args []int) {
	p := vxNewPeer()
	route := &vxRoute{name: "cb"}
	var inner CallCmd
	route.fn = func(ctx *handlerCtx, arg []byte) (interface{}, *Status) {
		inner = ctx.Session().Call("/client/side", []byte("q"), new([]byte))
		return []byte("done"), nil
	}
	vxRouteCall(p, route)
	conn := newVxConn("srv:1", "cli:2")
	conn.feed(vxFrame(TypeCall, 5, "/cb", []byte("x")))
	_, st := p.ServeConn(conn)
	vxAssume(st.OK())
	vxWaitIdle()
	vxAssert(conn.nWrites() == 1, "handler's nested call was written")
	conn.end()
	vxWaitIdle()
	vxAssert(inner != nil, "[C02] nested call issued by a handler completes after connection loss instead of hanging")
	if inner != nil {
		vxAssert(!inner.StatusOK(), "[C02] nested call ends with an error status")
	}
	vxAssert(vxBlockedThreads() == 0, "[C02] no goroutine left blocked after connection loss")
	vxCover("c02.callback")
}

func init() { vxRegister("VX_C03_TwoFrames", VX_C03_TwoFrames) }

// VX_C03_TwoFrames: two CALL frames arrive back to back and are handled by
// concurrent handler goroutines (all schedules with <= k pre-emptions): each
// is handled once and answered once with its own sequence number and body.
// args: preemptions, secondKind(0 CALL, 1 PUSH)
func VX_C03_TwoFrames(args []int) {
	p := vxNewPeer()
	route := &vxRoute{name: "h"}
	proute := &vxRoute{name: "h"}
	vxRouteCall(p, route)
	vxRoutePush(p, proute)
	conn := newVxConn("srv:1", "cli:2")
	b1, b2 := vxBytes("b1", 1), vxBytes("b2", 1)
	conn.feed(vxFrame(TypeCall, 11, "/h", b1))
	if args[1] == 0 {
		conn.feed(vxFrame(TypeCall, 12, "/h", b2))
	} else {
		conn.feed(vxFrame(TypePush, 12, "/h", b2))
	}
	vxSched(1, args[0])
	_, st := p.ServeConn(conn)
	vxAssume(st.OK())
	vxWaitIdle()
	vxSched(0, 0)
	wantCalls, wantReplies := 2, 2
	if args[1] == 1 {
		wantCalls, wantReplies = 1, 1
		vxAssert(proute.calls == 1, "the PUSH is handled once")
	}
	vxAssert(route.calls == wantCalls, "each CALL is handled exactly once")
	vxAssert(conn.nWrites() == wantReplies, "each CALL is answered exactly once, the PUSH never")
	seen := map[int32]int{}
	for _, w := range conn.writes {
		m, err := vxParse(w)
		vxAssert(err == nil && m.Mtype() == TypeReply && m.StatusOK(), "every write is one whole OK REPLY")
		if err != nil {
			continue
		}
		seen[m.Seq()]++
		rb := vxBodyOf(m)
		if m.Seq() == 11 {
			vxAssert(len(rb) == 1 && rb[0] == b1[0], "[C01] reply 11 carries the result computed from call 11's own argument")
		} else {
			vxAssert(m.Seq() == 12 && len(rb) == 1 && rb[0] == b2[0], "[C01] reply 12 carries the result computed from call 12's own argument")
		}
	}
	vxAssert(seen[11] == 1 && (seen[12] == 1 || args[1] == 1), "one REPLY per CALL sequence number")
	vxCover("c03.twoframes")
}
