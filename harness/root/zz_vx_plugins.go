package erpc

import "net"

// vxPlugin records every hook invocation and returns harness-chosen verdicts.
type vxPlugin struct {
	name    string
	log     *[]string
	verdict map[string]*Status // stage -> status to return (nil/absent => OK)
	onHook  func(stage string)
}

func newVxPlugin(name string, log *[]string) *vxPlugin {
	return &vxPlugin{name: name, log: log, verdict: map[string]*Status{}}
}

func (p *vxPlugin) hit(stage string) *Status {
	*p.log = append(*p.log, p.name+":"+stage)
	if p.onHook != nil {
		p.onHook(stage)
	}
	return p.verdict[stage]
}

func (p *vxPlugin) Name() string                                 { return p.name }
func (p *vxPlugin) PostReg(*Handler) error                       { return nil }
func (p *vxPlugin) PostListen(net.Addr) error                    { return nil }
func (p *vxPlugin) PostDial(PreSession, bool) *Status            { return p.hit("PostDial") }
func (p *vxPlugin) PostAccept(PreSession) *Status                { return p.hit("PostAccept") }
func (p *vxPlugin) PreWriteCall(WriteCtx) *Status                { return p.hit("PreWriteCall") }
func (p *vxPlugin) PostWriteCall(WriteCtx) *Status               { return p.hit("PostWriteCall") }
func (p *vxPlugin) PreWriteReply(WriteCtx) *Status               { return p.hit("PreWriteReply") }
func (p *vxPlugin) PostWriteReply(WriteCtx) *Status              { return p.hit("PostWriteReply") }
func (p *vxPlugin) PreWritePush(WriteCtx) *Status                { return p.hit("PreWritePush") }
func (p *vxPlugin) PostWritePush(WriteCtx) *Status               { return p.hit("PostWritePush") }
func (p *vxPlugin) PreReadHeader(PreCtx) error                   { p.hit("PreReadHeader"); return nil }
func (p *vxPlugin) PostReadCallHeader(ReadCtx) *Status           { return p.hit("PostReadCallHeader") }
func (p *vxPlugin) PreReadCallBody(ReadCtx) *Status              { return p.hit("PreReadCallBody") }
func (p *vxPlugin) PostReadCallBody(ReadCtx) *Status             { return p.hit("PostReadCallBody") }
func (p *vxPlugin) PostReadPushHeader(ReadCtx) *Status           { return p.hit("PostReadPushHeader") }
func (p *vxPlugin) PreReadPushBody(ReadCtx) *Status              { return p.hit("PreReadPushBody") }
func (p *vxPlugin) PostReadPushBody(ReadCtx) *Status             { return p.hit("PostReadPushBody") }
func (p *vxPlugin) PostReadReplyHeader(ReadCtx) *Status          { return p.hit("PostReadReplyHeader") }
func (p *vxPlugin) PreReadReplyBody(ReadCtx) *Status             { return p.hit("PreReadReplyBody") }
func (p *vxPlugin) PostReadReplyBody(ReadCtx) *Status            { return p.hit("PostReadReplyBody") }
func (p *vxPlugin) PostDisconnect(BaseSession) *Status           { return p.hit("PostDisconnect") }

func vxCount(log []string, entry string) int {
	n := 0
	for _, e := range log {
		if e == entry {
			n++
		}
	}
	return n
}
