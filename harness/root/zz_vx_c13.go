package erpc

import (
	"errors"
	"fmt"
	"io"
	"net"
)

func init() {
	vxRegister("VX_C13_Redial", VX_C13_Redial)
}

// VX_C13_Redial: a client session created with redial enabled loses its
// connection while a call is in flight. Dial attempts and the dial hook's
// verdicts after the loss are solver-chosen.
// args: redialTimes(1,2; 9 = unlimited(-1)), lossBy(0 reader sees EOF, 1 remote closed and writes fail, 2 a writer notices the loss before the reader), userID(0/1)
func VX_C13_Redial(args []int) {
	R, lossBy, userID := args[0], args[1], args[2]
	rt := int32(R)
	if R == 9 {
		rt = -1
	}
	var log []string
	pl := newVxPlugin("dialhook", &log)
	p := NewPeer(PeerConfig{RedialTimes: rt, RedialInterval: vxRedialEvery}, pl)
	var conns []*vxConn
	attempts := 0
	dialOK := true
	hookOK := true
	VXSetDialHook(func(addr string) (net.Conn, error) {
		attempts++
		if attempts > 8 {
			vxAssume(false) // unlimited budget: capped at 8 attempts by assumption
		}
		if attempts > 1 {
			dialOK = vxBool("dialok")
			hookOK = vxBool("hookok")
			if !hookOK {
				pl.verdict["PostDial"] = NewStatus(401, "dial hook says no", "")
			} else {
				delete(pl.verdict, "PostDial")
			}
		}
		if !dialOK {
			return nil, errors.New("connection refused")
		}
		c := newVxConn(fmt.Sprintf("cli:%d", attempts), addr)
		conns = append(conns, c)
		return c, nil
	})
	defer VXSetDialHook(nil)
	s, st := p.Dial("srv:1")
	vxAssume(st.OK())
	id := s.ID()
	if userID == 1 {
		s.SetID("user-1")
		id = "user-1"
	}
	vxWaitIdle()
	vxAssert(s.Health() && p.CountSession() == 1, "dialed session healthy and listed")
	ch := make(chan CallCmd, 1)
	inflight := s.AsyncCall("/a", []byte("x"), new([]byte), ch)
	vxAssert(conns[0].nWrites() == 1 && !vxDone(inflight), "call in flight")
	// unexpected connection loss
	if lossBy == 2 {
		// a writer notices the loss first (its write fails with EOF), the reader afterwards
		conns[0].failWrite = io.EOF
		w := s.AsyncCall("/w", []byte("w"), new([]byte), make(chan CallCmd, 1))
		vxWaitIdle()
		vxAssert(vxDone(w) || s.Health(), "call that noticed the loss does not hang")
	}
	conns[0].end()
	if lossBy == 1 {
		conns[0].failWrite = errVxClosed
	}
	vxWaitIdle()
	vxAssert(vxDone(inflight), "call in flight at the moment of loss completes instead of hanging")
	if vxDone(inflight) {
		vxAssert(!inflight.StatusOK() && IsConnError(inflight.Status()), "with a connection error")
	}
	vxAssert(len(ch) == 1, "[C02] delivered once")
	note := ""
	if lossBy == 2 {
		note = " (a writer noticed the loss before the reader)"
	}
	got, listed := p.GetSession(s.ID())
	redialed := listed && got == s
	if redialed {
		vxCover("c13.redialed")
		vxAssert(s.Health(), "reconnected session is healthy")
		vxAssert(userID == 0 || s.ID() == id, "user-assigned id kept across redial")
		vxAssert(vxCount(log, "dialhook:PostDial") >= 2, "dial hooks ran again")
		n := len(conns)
		vxAssert(n >= 2, "reconnected on a new connection")
		c2 := s.AsyncCall("/b", []byte("y"), new([]byte), make(chan CallCmd, 1))
		vxAssert(conns[n-1].nWrites() == 1, "later call goes out on the new connection")
		conns[n-1].feed(vxFrame(TypeReply, c2.Output().Seq(), "", []byte("ok")))
		vxWaitIdle()
		vxAssert(vxDone(c2) && c2.StatusOK(), "later calls succeed once the server is reachable")
	} else {
		vxCover("c13.exhausted")
		select {
		case <-s.CloseNotify():
		default:
			vxFail("session not listed after the loss: close notification fired" + note)
		}
		vxAssert(p.CountSession() == 0, "attempts exhausted: session left the index"+note)
		vxAssert(R != 9, "unlimited redial budget: the session never gives up while the server is unreachable"+note)
		if R != 9 {
			vxAssert(attempts-1 >= R, "the session gives up only after the configured number of redial attempts"+note)
		}
		before := attempts
		c3 := s.AsyncCall("/c", []byte("z"), new([]byte), make(chan CallCmd, 1))
		vxWaitIdle()
		if g2, ok := p.GetSession(s.ID()); ok && g2 == s {
			vxCover("c13.came-back")
			vxAssert(!vxDone(c3) || c3.StatusOK() || IsConnError(c3.Status()), "call after a late reconnect")
		} else {
			vxAssert(vxDone(c3), "later call on an ended session does not hang")
			if vxDone(c3) {
				vxAssert(!c3.StatusOK() && IsConnError(c3.Status()), "later call fails with a connection error")
			}
		}
		vxAssert(rt < 0 || attempts-before <= int(rt)+1, "after at most one further bounded round of attempts")
	}
	vxAssert(vxBlockedThreads() <= 2, "nothing but readers of live connections are waiting")
	vxCover("c13.end")
}

func init() { vxRegister("VX_C13_LossWhileLaunching", VX_C13_LossWhileLaunching) }

// VX_C13_LossWhileLaunching: on a redial-enabled client session the connection
// is lost while a call has been written but its launch has not returned yet
// (it is inside a post-write hook). The call in flight completes with a
// connection error instead of hanging, whether or not the redial succeeds, and
// a later call works on the reconnected session.
// args: redialTimes, where(0 pre-write hook, 1 post-write hook)
func VX_C13_LossWhileLaunching(args []int) {
	var log []string
	pl := newVxPlugin("h", &log)
	p := NewPeer(PeerConfig{RedialTimes: int32(args[0]), RedialInterval: vxRedialEvery}, pl)
	var conns []*vxConn
	attempts := 0
	VXSetDialHook(func(addr string) (net.Conn, error) {
		attempts++
		if attempts > args[0]+3 {
			vxAssume(false)
		}
		if attempts > 1 && !vxBool("dialok") {
			return nil, errors.New("connection refused")
		}
		c := newVxConn(fmt.Sprintf("cli:%d", attempts), addr)
		conns = append(conns, c)
		return c, nil
	})
	defer VXSetDialHook(nil)
	s, st := p.Dial("srv:1")
	vxAssume(st.OK())
	s.SetID("user-1")
	vxWaitIdle()
	rel := make(chan struct{})
	entered := make(chan struct{}, 1)
	stage := "PreWriteCall"
	if args[1] == 1 {
		stage = "PostWriteCall"
	}
	armed := true
	pl.onHook = func(st string) {
		if st == stage && armed {
			armed = false
			entered <- struct{}{}
			<-rel
		}
	}
	fin := make(chan CallCmd, 1)
	ch := make(chan CallCmd, 1)
	go func() { fin <- s.AsyncCall("/a", []byte("1"), new([]byte), ch) }()
	<-entered
	conns[0].end() // unexpected loss while the launch is in progress
	vxWaitIdle()
	close(rel)
	vxWaitIdle()
	vxAssert(len(fin) == 1, "the launch returns")
	if len(fin) == 1 {
		cmd := <-fin
		if args[1] == 1 {
			vxAssert(vxDone(cmd), "a call in flight at the moment of loss completes instead of hanging")
			if vxDone(cmd) {
				vxAssert(!cmd.StatusOK() && IsConnError(cmd.Status()), "with a connection error")
			}
		} else {
			// not yet written at the moment of loss: it fails, or goes out on the new connection
			vxAssert(vxDone(cmd) || (len(conns) > 1 && conns[len(conns)-1].nWrites() == 1), "a call being launched at the moment of loss does not hang")
		}
	}
	if got, ok := p.GetSession("user-1"); ok && got == s && s.Health() {
		vxCover("c13.launching.redialed")
		n := len(conns)
		c2 := s.AsyncCall("/b", []byte("y"), new([]byte), make(chan CallCmd, 1))
		w := conns[n-1].nWrites()
		vxAssert(w >= 1, "later call goes out on the new connection")
		conns[n-1].feed(vxFrame(TypeReply, c2.Output().Seq(), "", []byte("ok")))
		vxWaitIdle()
		vxAssert(vxDone(c2) && c2.StatusOK(), "later calls succeed once the server is reachable")
	}
	vxCover("c13.launching")
}
