package erpc

func init() {
	vxRegister("VX_Root_Smoke", VX_Root_Smoke)
}

// VX_Root_Smoke: one CALL frame through the real read loop, router, handler
// and reply path over a scripted connection.
func VX_Root_Smoke(args []int) {
	p := vxNewPeer()
	route := &vxRoute{name: "echo"}
	names := vxRouteCall(p, route)
	vxAssert(len(names) == 1 && names[0] == "/echo", "route name")
	conn := newVxConn("srv:1", "cli:2")
	body := vxBytes("body", args[0])
	conn.feed(vxFrame(TypeCall, 7, "/echo", body))
	sess, stat := p.ServeConn(conn)
	vxAssert(stat.OK() && sess != nil, "ServeConn ok")
	vxWaitIdle()
	vxAssert(sess.Health(), "session healthy while the connection is up")
	conn.end()
	vxWaitIdle()
	vxAssert(route.calls == 1, "handler invoked once")
	vxAssert(conn.nWrites() == 1, "one reply written")
	if conn.nWrites() == 1 {
		m, err := vxParse(conn.writes[0])
		vxAssert(err == nil, "reply parses")
		vxAssert(m.Mtype() == TypeReply && m.Seq() == 7, "reply type and seq")
		vxAssert(m.StatusOK(), "reply status OK")
		rb := vxBodyOf(m)
		vxAssert(len(rb) == len(body), "reply body length")
		for k := range body {
			if k < len(rb) {
				vxAssert(rb[k] == body[k], "reply body echoes the argument")
			}
		}
	}
	vxAssert(!sess.Health(), "session unhealthy after EOF")
	vxCover("root.smoke")
}
