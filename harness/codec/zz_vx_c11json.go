package codec

func init() { vxRegister("VX_C11_JSONGeneric", VX_C11_JSONGeneric) }

// vxSameJSON compares two generic JSON values (nil, bool, float64, string,
// []interface{}, map[string]interface{}) including their dynamic types.
func vxSameJSON(a, b interface{}) bool {
	switch x := a.(type) {
	case nil:
		return b == nil
	case bool:
		y, ok := b.(bool)
		return ok && x == y
	case float64:
		y, ok := b.(float64)
		return ok && x == y
	case string:
		y, ok := b.(string)
		return ok && x == y
	case []interface{}:
		y, ok := b.([]interface{})
		if !ok || len(x) != len(y) {
			return false
		}
		for k := range x {
			if !vxSameJSON(x[k], y[k]) {
				return false
			}
		}
		return true
	case map[string]interface{}:
		y, ok := b.(map[string]interface{})
		if !ok || len(x) != len(y) {
			return false
		}
		for k, v := range x {
			w, ok := y[k]
			if !ok || !vxSameJSON(v, w) {
				return false
			}
		}
		return true
	}
	return false
}

// VX_C11_JSONGeneric: the JSON codec on generic values (what an untyped
// handler argument or result is): decode(encode(v)) has the same shape, values
// AND dynamic types as v, for documents with and without numbers, into each of
// the generic destinations; the encoding is stable.
// (encoding/json itself is evaluated by the host library - stub S-JSON.)
// args: doc(0 object with numbers, 1 array of numbers, 2 nested, 3 no numbers, 4 top-level number), dest(0 *interface{}, 1 *map / *[]interface{})
func VX_C11_JSONGeneric(args []int) {
	c, err := Get(ID_JSON)
	vxAssume(err == nil)
	var v interface{}
	switch args[0] {
	case 0:
		v = map[string]interface{}{"id": float64(7), "name": "x", "ok": true}
	case 1:
		v = []interface{}{float64(3), float64(1), 2.5}
	case 2:
		v = map[string]interface{}{"list": []interface{}{float64(1), "a", nil, map[string]interface{}{"n": float64(-2)}}, "s": "t"}
	case 3:
		v = map[string]interface{}{"a": "b", "c": []interface{}{"d", false, nil}}
	case 4:
		v = float64(42)
	}
	b1, err := c.Marshal(v)
	vxAssert(err == nil, "a generic value encodes")
	var out interface{}
	if args[1] == 0 {
		err = c.Unmarshal(b1, &out)
	} else {
		switch v.(type) {
		case map[string]interface{}:
			var m map[string]interface{}
			err = c.Unmarshal(b1, &m)
			out = m
		case []interface{}:
			var l []interface{}
			err = c.Unmarshal(b1, &l)
			out = l
		default:
			err = c.Unmarshal(b1, &out)
		}
	}
	vxAssert(err == nil, "its encoding decodes")
	vxAssert(vxSameJSON(v, out), "decode(encode(v)) equals v for a generic JSON value (same values and dynamic types)")
	b2, err := c.Marshal(out)
	vxAssert(err == nil && string(b1) == string(b2), "re-encoding the decoded value gives the same bytes")
	vxCover("c11.json.generic")
}
