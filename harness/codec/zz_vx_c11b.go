package codec

import (
	"bytes"
	"fmt"

	"git.apache.org/thrift.git/lib/go/thrift"
)

func init() {
	vxRegister("VX_C11_ThriftRoundTrip", VX_C11_ThriftRoundTrip)
	vxRegister("VX_C11_EncodingsIndependent", VX_C11_EncodingsIndependent)
	vxRegister("VX_C11_ThriftGarbage", VX_C11_ThriftGarbage)
	vxRegister("VX_C11_PlainWindow", VX_C11_PlainWindow)
}

// vxTStruct is a hand-written thrift struct: 1: string text, 2: i32 num.
type vxTStruct struct {
	Text string
	Num  int32
}

func (s *vxTStruct) Write(p thrift.TProtocol) error {
	if err := p.WriteStructBegin("vx"); err != nil {
		return err
	}
	if err := p.WriteFieldBegin("text", thrift.STRING, 1); err != nil {
		return err
	}
	if err := p.WriteString(s.Text); err != nil {
		return err
	}
	p.WriteFieldEnd()
	if err := p.WriteFieldBegin("num", thrift.I32, 2); err != nil {
		return err
	}
	if err := p.WriteI32(s.Num); err != nil {
		return err
	}
	p.WriteFieldEnd()
	if err := p.WriteFieldStop(); err != nil {
		return err
	}
	return p.WriteStructEnd()
}

func (s *vxTStruct) Read(p thrift.TProtocol) error {
	if _, err := p.ReadStructBegin(); err != nil {
		return err
	}
	for {
		_, tp, id, err := p.ReadFieldBegin()
		if err != nil {
			return err
		}
		if tp == thrift.STOP {
			break
		}
		switch {
		case id == 1 && tp == thrift.STRING:
			if s.Text, err = p.ReadString(); err != nil {
				return err
			}
		case id == 2 && tp == thrift.I32:
			if s.Num, err = p.ReadI32(); err != nil {
				return err
			}
		default:
			if err = p.Skip(tp); err != nil {
				return err
			}
		}
		if err = p.ReadFieldEnd(); err != nil {
			return err
		}
	}
	return p.ReadStructEnd()
}

// VX_C11_ThriftRoundTrip: Unmarshal(Marshal(v)) == v for the thrift codec
// (TBinaryProtocol over a memory buffer). args: nText
func VX_C11_ThriftRoundTrip(args []int) {
	c := ThriftCodec{}
	v := &vxTStruct{Text: vxString("text", args[0]), Num: vxInt32("num")}
	b, err := c.Marshal(v)
	vxAssert(err == nil, "thrift marshal")
	d := new(vxTStruct)
	vxAssert(c.Unmarshal(b, d) == nil, "thrift unmarshal of its own encoding")
	vxAssert(d.Text == v.Text && d.Num == v.Num, "thrift struct round trips")
	_, err = c.Marshal(42)
	vxAssert(err != nil, "a value outside the codec's domain is refused with an error")
	vxCover("c11.thrift.roundtrip")
}

// VX_C11_EncodingsIndependent: the encoding of a value stays what it was when
// another value is encoded afterwards with the same codec, and still decodes
// to the first value. args: codec(0 plain, 1 form, 2 thrift), n
func VX_C11_EncodingsIndependent(args []int) {
	which, n := args[0], args[1]
	sa, sb := vxString("a", n), vxString("b", n)
	var c Codec
	var va, vb, da interface{}
	var same func() bool
	switch which {
	case 0:
		c = PlainCodec{}
		x, y := sa, sb
		var d string
		va, vb, da = &x, &y, &d
		same = func() bool { return d == sa }
	case 1:
		c = FormCodec{}
		x, y := vxForm{S: sa, I: 1}, vxForm{S: sb, I: 2, L: []string{"q"}}
		var d vxForm
		va, vb, da = &x, &y, &d
		same = func() bool { return d.S == sa && d.I == 1 && len(d.L) == 0 }
	default:
		c = ThriftCodec{}
		x, y := vxTStruct{Text: sa, Num: 1}, vxTStruct{Text: sb + "-longer", Num: -1}
		d := new(vxTStruct)
		va, vb, da = &x, &y, d
		same = func() bool { return d.Text == sa && d.Num == 1 }
	}
	ea, err := c.Marshal(va)
	vxAssert(err == nil, "first value encodes")
	keep := append([]byte{}, ea...)
	_, err = c.Marshal(vb)
	vxAssert(err == nil, "second value encodes")
	vxAssert(bytes.Equal(ea, keep), "the encoding of a value is not changed by a later encoding")
	vxAssert(c.Unmarshal(ea, da) == nil && same(), "decoding the first encoding yields the first value")
	vxCover("c11.independent")
}

// VX_C11_ThriftGarbage: arbitrary bytes never panic out of the thrift codec.
// args: n
func VX_C11_ThriftGarbage(args []int) {
	in := vxBytes("in", args[0])
	defer func() {
		if r := recover(); r != nil {
			if s, ok := r.(string); ok && len(s) > 9 && s[:9] == "VXASSERT:" {
				panic(r)
			}
			if _, ok := r.(vxAssumeFailed); ok {
				panic(r)
			}
			vxEvent(fmt.Sprint("panic: ", r))
			vxFail("a panic leaves the thrift codec on its input")
		}
	}()
	d := new(vxTStruct)
	ThriftCodec{}.Unmarshal(in, d)
	vxCover("c11.thrift.garbage")
}

// VX_C11_PlainWindow: decoding into a destination that is a window of a larger
// buffer (spare capacity behind it) never writes outside the destination
// value, whatever the length of the input. args: window, nIn, kind(0 []byte value, 1 *[]byte)
func VX_C11_PlainWindow(args []int) {
	win, n, kind := args[0], args[1], args[2]
	frame := []byte("HEADneighbour-data")
	guard := append([]byte{}, frame...)
	in := vxBytes("in", n)
	c := PlainCodec{}
	dst := frame[:win]
	if kind == 0 {
		c.Unmarshal(in, dst)
		// a []byte passed by value can only be filled up to its length
		for k := win; k < len(frame); k++ {
			vxAssert(frame[k] == guard[k], "decoding into a byte slice never writes outside the destination value")
		}
	} else {
		err := c.Unmarshal(in, &dst)
		vxAssert(err == nil && bytes.Equal(dst, in), "decoding into a *[]byte yields exactly the input")
	}
	vxCover("c11.plain.window")
}
