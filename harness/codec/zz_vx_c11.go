package codec

import (
	"net/url"
	"bytes"
	"fmt"
)

func init() {
	vxRegister("VX_C11_PlainRoundTrip", VX_C11_PlainRoundTrip)
	vxRegister("VX_C11_PlainGarbage", VX_C11_PlainGarbage)
	vxRegister("VX_C11_PlainReuse", VX_C11_PlainReuse)
	vxRegister("VX_C11_FormRoundTrip", VX_C11_FormRoundTrip)
	vxRegister("VX_C11_FormGarbage", VX_C11_FormGarbage)
	vxRegister("VX_C11_FormIndependent", VX_C11_FormIndependent)
}

type vxName string
type vxBlob []byte

// VX_C11_PlainRoundTrip: Unmarshal(Marshal(v)) == v for the plain codec's
// value domain. args: kind, n (length for string/bytes kinds)
func VX_C11_PlainRoundTrip(args []int) {
	kind, n := args[0], args[1]
	c := PlainCodec{}
	switch kind {
	case 0: // string
		v := vxString("v", n)
		b, err := c.Marshal(v)
		vxAssert(err == nil, "marshal string")
		var d string
		vxAssert(c.Unmarshal(b, &d) == nil && d == v, "string round trip")
	case 1: // named string type
		v := vxName(vxString("v", n))
		b, err := c.Marshal(&v)
		vxAssert(err == nil, "marshal named string")
		var d vxName
		vxAssert(c.Unmarshal(b, &d) == nil && d == v, "named string round trip")
	case 2: // []byte
		v := vxBytes("v", n)
		b, err := c.Marshal(v)
		vxAssert(err == nil, "marshal bytes")
		var d []byte
		vxAssert(c.Unmarshal(b, &d) == nil && bytes.Equal(d, v), "bytes round trip")
	case 3: // named byte slice
		v := vxBlob(vxBytes("v", n))
		b, err := c.Marshal(&v)
		vxAssert(err == nil, "marshal named bytes")
		var d vxBlob
		vxAssert(c.Unmarshal(b, &d) == nil && bytes.Equal(d, v), "named bytes round trip")
	case 4: // bool
		v := vxBool("v")
		b, err := c.Marshal(v)
		vxAssert(err == nil, "marshal bool")
		var d bool
		vxAssert(c.Unmarshal(b, &d) == nil && d == v, "bool round trip")
	case 5: // int8
		v := vxInt8("v")
		b, err := c.Marshal(v)
		vxAssert(err == nil, "marshal int8")
		var d int8
		vxAssert(c.Unmarshal(b, &d) == nil && d == v, "int8 round trip")
	case 6: // int32
		v := vxInt32("v")
		b, err := c.Marshal(&v)
		vxAssert(err == nil, "marshal int32")
		var d int32
		vxAssert(c.Unmarshal(b, &d) == nil && d == v, "int32 round trip")
	case 7: // int64
		v := vxInt64("v")
		b, err := c.Marshal(v)
		vxAssert(err == nil, "marshal int64")
		var d int64
		vxAssert(c.Unmarshal(b, &d) == nil && d == v, "int64 round trip")
	case 8: // uint8
		v := vxByte("v")
		b, err := c.Marshal(v)
		vxAssert(err == nil, "marshal uint8")
		var d uint8
		vxAssert(c.Unmarshal(b, &d) == nil && d == v, "uint8 round trip")
	case 9: // uint64
		v := vxUint64("v")
		b, err := c.Marshal(v)
		vxAssert(err == nil, "marshal uint64")
		var d uint64
		vxAssert(c.Unmarshal(b, &d) == nil && d == v, "uint64 round trip")
	}
	vxCover("c11.plain.roundtrip")
}

// VX_C11_PlainGarbage: decoding arbitrary bytes returns an error or a value,
// never panics out of the codec, and the decoded value does not alias the
// input buffer. args: kind(0 *string, 1 *named string, 2 *[]byte, 3 *named bytes, 4 *bool, 5 *int8, 6 *uint8, 7 []byte dst), n
func VX_C11_PlainGarbage(args []int) {
	kind, n := args[0], args[1]
	c := PlainCodec{}
	in := vxBytes("in", n)
	orig := append([]byte{}, in...)
	clobber := func() {
		for k := range in {
			in[k] ^= 0xff
		}
	}
	defer func() {
		if r := recover(); r != nil {
			if s, ok := r.(string); ok && len(s) > 9 && s[:9] == "VXASSERT:" {
				panic(r)
			}
			if _, ok := r.(vxAssumeFailed); ok {
				panic(r)
			}
			vxFail("a panic leaves the codec on arbitrary input")
		}
	}()
	switch kind {
	case 0:
		var d string
		if c.Unmarshal(in, &d) == nil {
			clobber()
			vxAssert(d == string(orig), "decoded string is the input's content and independent of the input buffer")
		}
	case 1:
		var d vxName
		if c.Unmarshal(in, &d) == nil {
			clobber()
			vxAssert(string(d) == string(orig), "decoded named string is independent of the input buffer")
		}
	case 2:
		var d []byte
		if c.Unmarshal(in, &d) == nil {
			clobber()
			vxAssert(bytes.Equal(d, orig), "decoded bytes are independent of the input buffer")
		}
	case 3:
		var d vxBlob
		if c.Unmarshal(in, &d) == nil {
			clobber()
			vxAssert(bytes.Equal(d, orig), "decoded named bytes are independent of the input buffer")
		}
	case 4:
		var d bool
		c.Unmarshal(in, &d)
	case 5:
		var d int8
		if c.Unmarshal(in, &d) == nil {
			vxCover("c11.plain.int8-parsed")
		}
	case 6:
		var d uint8
		c.Unmarshal(in, &d)
	case 7:
		d := make([]byte, 2)
		guard := []byte{7, 7}
		all := append(d[:2:2], guard...)
		_ = all
		c.Unmarshal(in, d)
		vxAssert(len(d) == 2, "decoding into a []byte never writes outside the destination")
	}
	vxCover("c11.plain.garbage")
}

// VX_C11_PlainReuse: decoding into a destination that already holds a longer
// value yields exactly the new value. args: nOld, nNew
func VX_C11_PlainReuse(args []int) {
	c := PlainCodec{}
	d := vxBytes("old", args[0])
	in := vxBytes("new", args[1])
	vxAssert(c.Unmarshal(in, &d) == nil, "decode into reused destination")
	vxAssert(bytes.Equal(d, in), "reused destination holds exactly the decoded value")
	var s string = vxString("olds", args[0])
	vxAssert(c.Unmarshal(in, &s) == nil && s == string(in), "reused string destination")
	vxCover("c11.plain.reuse")
}

type vxInner struct {
	X string `form:"x"`
}

type vxForm struct {
	S string   `form:"s"`
	I int8     `form:"i"`
	B bool     `form:"b"`
	L []string `form:"l"`
	A [2]string `form:"a"`
	Inner vxInner
}

// VX_C11_FormRoundTrip: Unmarshal(Marshal(v)) == v, element order included.
// One field group is symbolic per instance, the others hold distinct concrete
// values. args: group(0 scalars, 1 slice, 2 array, 3 nested), nStr, nList
func VX_C11_FormRoundTrip(args []int) {
	group, nStr, nList := args[0], args[1], args[2]
	c := FormCodec{}
	v := vxForm{S: "s0", I: 7, B: true}
	v.A = [2]string{"a0", "a1"}
	v.Inner.X = "x0"
	for k := 0; k < nList; k++ {
		v.L = append(v.L, string(rune('p'+k)))
	}
	switch group {
	case 0:
		v.S, v.I, v.B = vxString("s", nStr), vxInt8("i"), vxBool("b")
	case 1:
		for k := range v.L {
			v.L[k] = vxString("l", nStr)
		}
	case 2:
		v.A = [2]string{vxString("a", nStr), vxString("a", nStr)}
	case 3:
		v.Inner.X = vxString("x", nStr)
	}
	b, err := c.Marshal(&v)
	vxAssert(err == nil, "form marshal")
	var d vxForm
	err = c.Unmarshal(b, &d)
	vxAssert(err == nil, "form unmarshal of its own encoding")
	vxAssert(d.S == v.S && d.I == v.I && d.B == v.B, "scalar fields round trip")
	vxAssert(d.Inner.X == v.Inner.X, "nested struct field round trips")
	vxAssert(len(d.L) == len(v.L), "slice length round trips")
	for k := range v.L {
		if k < len(d.L) {
			vxAssert(d.L[k] == v.L[k], "slice elements round trip in order")
		}
	}
	vxAssert(d.A[0] == v.A[0] && d.A[1] == v.A[1], "array elements round trip in order")
	vxCover("c11.form.roundtrip")
}

// VX_C11_FormGarbage: arbitrary bytes (and well-formed queries with more
// values than an array field has room for) never panic out of the codec.
// args: mode(0 arbitrary bytes, 1 "a=..&a=..&a=.." with k values), n
func VX_C11_FormGarbage(args []int) {
	mode, n := args[0], args[1]
	c := FormCodec{}
	var in []byte
	if mode == 0 {
		in = vxBytes("in", n)
	} else {
		for k := 0; k < n; k++ {
			if k > 0 {
				in = append(in, '&')
			}
			in = append(in, 'a', '=', 'v')
		}
	}
	defer func() {
		if r := recover(); r != nil {
			if s, ok := r.(string); ok && len(s) > 9 && s[:9] == "VXASSERT:" {
				panic(r)
			}
			if _, ok := r.(vxAssumeFailed); ok {
				panic(r)
			}
			vxEvent(fmt.Sprint("panic: ", r))
			vxFail("a panic leaves the form codec on its input")
		}
	}()
	var d vxForm
	c.Unmarshal(in, &d)
	vxCover("c11.form.garbage")
}

// VX_C11_FormIndependent: a value decoded by the form codec does not share
// storage with the input buffer (the framework decodes bodies out of a pooled
// receive buffer that the next frame overwrites): after the input bytes are
// overwritten, the decoded string fields, list elements and generic
// url.Values still hold what was decoded. args: n (length of each value)
func VX_C11_FormIndependent(args []int) {
	n := args[0]
	c := FormCodec{}
	s0, l0 := vxString("s", n), vxString("l", n)
	for k := 0; k < n; k++ {
		vxAssume(s0[k] >= 'a' && s0[k] <= 'z' && l0[k] >= 'a' && l0[k] <= 'z')
	}
	in := []byte("s=" + s0 + "&l=" + l0)
	var d vxForm
	vxAssert(c.Unmarshal(in, &d) == nil, "form decodes a well-formed query")
	var generic url.Values
	in2 := append([]byte{}, in...)
	vxAssert(c.Unmarshal(in2, &generic) == nil, "form decodes into url.Values")
	vxAssert(d.S == s0 && len(d.L) == 1 && d.L[0] == l0 && generic.Get("s") == s0, "form decodes the values sent")
	for k := range in {
		in[k] = 'X'
		in2[k] = 'X'
	}
	vxAssert(d.S == s0, "decoded string field is independent of the input buffer")
	vxAssert(len(d.L) == 1 && d.L[0] == l0, "decoded list element is independent of the input buffer")
	vxAssert(generic.Get("s") == s0, "decoded url.Values are independent of the input buffer")
	vxCover("c11.form.independent")
}

func init() { vxRegister("VX_C11_FormTwoTypes", VX_C11_FormTwoTypes) }

func vxLocalTypeA(c FormCodec, in []byte) (string, error) {
	type T struct {
		X string `form:"x"`
	}
	var d T
	err := c.Unmarshal(in, &d)
	return d.X, err
}

func vxLocalTypeB(c FormCodec, in []byte) (string, string, error) {
	type T struct {
		P string `form:"p"`
		Q string `form:"q"`
		R string `form:"r"`
	}
	var d T
	err := c.Unmarshal(in, &d)
	if err == nil {
		b, e2 := c.Marshal(&d)
		var d2 T
		if e2 != nil || c.Unmarshal(b, &d2) != nil || d2 != d {
			return "", "", fmt.Errorf("re-encoding does not round trip")
		}
	}
	return d.P, d.R, err
}

// VX_C11_FormTwoTypes: the form codec handles several struct types in one
// process: two unnamed struct types and two function-local types of the same
// name, one after the other. Each decodes (and re-encodes) by its own field
// tags whatever type was handled before; nothing panics. args: order(0 small type first, 1 large first)
func VX_C11_FormTwoTypes(args []int) {
	c := FormCodec{}
	v := vxString("v", 1)
	vxAssume(v[0] >= 'a' && v[0] <= 'z')
	defer func() {
		if r := recover(); r != nil {
			if s, ok := r.(string); ok && len(s) > 9 && s[:9] == "VXASSERT:" {
				panic(r)
			}
			if _, ok := r.(vxAssumeFailed); ok {
				panic(r)
			}
			vxFail("a panic leaves the form codec when it handles a second struct type")
		}
	}()
	small := func() {
		var a struct {
			X string `form:"x"`
		}
		vxAssert(c.Unmarshal([]byte("x="+v), &a) == nil && a.X == v, "an unnamed struct type decodes by its own tags whatever type was decoded before")
		x, err := vxLocalTypeA(c, []byte("x="+v))
		vxAssert(err == nil && x == v, "a function-local type decodes by its own tags whatever type was decoded before")
	}
	large := func() {
		var b struct {
			P string `form:"p"`
			Q string `form:"q"`
			R string `form:"r"`
		}
		vxAssert(c.Unmarshal([]byte("p=1&q=2&r="+v), &b) == nil && b.P == "1" && b.Q == "2" && b.R == v, "a second unnamed struct type decodes by its own tags")
		out, err := c.Marshal(&b)
		var b2 struct {
			P string `form:"p"`
			Q string `form:"q"`
			R string `form:"r"`
		}
		vxAssert(err == nil && c.Unmarshal(out, &b2) == nil && b2 == b, "and round trips")
		p, r, err := vxLocalTypeB(c, []byte("p=1&q=2&r="+v))
		vxAssert(err == nil && p == "1" && r == v, "a second function-local type of the same name decodes by its own tags")
	}
	if args[0] == 0 {
		small()
		large()
	} else {
		large()
		small()
	}
	vxCover("c11.form.twotypes")
}
