#!/bin/bash
# run_all.sh [tier]: runs every registered check on the current tree, prints a one-line verdict per property.
export GOFLAGS=-mod=mod GOPROXY=off GOSUMDB=off GOTOOLCHAIN=local
T=${1:-quick}
for c in $(python3 -c "import json;print(' '.join(x['property_id'] for x in json.load(open('${VERIF_ROOT:-/verif}/MANIFEST.json'))['checks']))"); do
  s=$(date +%s); timeout 3000 ${VERIF_ROOT:-/verif}/bin/gosymx check $c --tier $T > /tmp/runall_$c.log 2>&1; e=$?; echo "$c exit=$e $(( $(date +%s)-s ))s $(grep -c '^KNOWN-FINDING' /tmp/runall_$c.log) known; $(grep -m1 'tier=' /tmp/runall_$c.log | cut -c1-150)"
  [ $e -ne 0 ] && grep "INCONCL\|VIOLATION\|counterexample" /tmp/runall_$c.log | cut -c1-300 | head -5
done
