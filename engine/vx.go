package main

// The vx* harness API as seen by the engine. The same functions have native
// bodies (harness/shim) that read a replay file, so a harness is also its own
// replay test.

import (
	"strings"
	"fmt"
	"go/token"
	"go/types"
)

const (
	addTok = token.ADD
	eqlTok = token.EQL
)

var vxFuncs map[string]externalFn

func init() {
	mkInt := func(k types.BasicKind) externalFn {
		return func(fr *frame, a []value) value {
			name, _ := concreteStr(a[0])
			t := fr.i.freshSym(name, kindWidth(k))
			return sym{t, k}
		}
	}
	vxFuncs = map[string]externalFn{
		"vxBool": func(fr *frame, a []value) value {
			name, _ := concreteStr(a[0])
			return sym{fr.i.freshSym(name, 0), types.Bool}
		},
		"vxByte":   mkInt(types.Uint8),
		"vxInt8":   mkInt(types.Int8),
		"vxUint16": mkInt(types.Uint16),
		"vxInt16":  mkInt(types.Int16),
		"vxInt32":  mkInt(types.Int32),
		"vxUint32": mkInt(types.Uint32),
		"vxInt64":  mkInt(types.Int64),
		"vxUint64": mkInt(types.Uint64),
		"vxInt":    mkInt(types.Int),
		"vxUint":   mkInt(types.Uint),
		"vxBytes": func(fr *frame, a []value) value {
			name, _ := concreteStr(a[0])
			n := int(fr.i.concretize(a[1], "vxBytes.n"))
			r := make([]value, n)
			for k := range r {
				r[k] = sym{fr.i.freshSym(fmt.Sprintf("%s_%d", name, k), 8), types.Uint8}
			}
			return r
		},
		"vxString": func(fr *frame, a []value) value {
			name, _ := concreteStr(a[0])
			n := int(fr.i.concretize(a[1], "vxString.n"))
			if n == 0 {
				return ""
			}
			r := make([]value, n)
			for k := range r {
				r[k] = sym{fr.i.freshSym(fmt.Sprintf("%s_%d", name, k), 8), types.Uint8}
			}
			return &symstr{r}
		},
		// vxChoose returns a value in [0,n): an input symbol, forked over.
		"vxChoose": func(fr *frame, a []value) value {
			i := fr.i
			name, _ := concreteStr(a[0])
			n := i.concretize(a[1], "vxChoose.n")
			if n <= 1 {
				return 0
			}
			t := i.freshSym(name, 64)
			i.addPC(i.tc.Cmp("bvult", t, i.tc.Const(64, uint64(n))))
			// the harness asked for an n-way case split: all n values are explored
			saved := i.cfg.maxConcretize
			if int(n) > saved {
				i.cfg.maxConcretize = int(n)
			}
			defer func() { i.cfg.maxConcretize = saved }()
			return int(i.concretize(sym{t, types.Int}, "vxChoose:"+name))
		},
		"vxAssume": func(fr *frame, a []value) value {
			i := fr.i
			switch c := a[0].(type) {
			case bool:
				if !c {
					panic(pathAbort{"assume", "assumption false"})
				}
			case sym:
				ok, m := i.feasible(c.t)
				if !ok {
					panic(pathAbort{"assume", "assumption infeasible"})
				}
				i.addPC(c.t)
				if i.path.model == nil {
					i.path.model = m
				}
			}
			return nil
		},
		"vxAssert": func(fr *frame, a []value) value {
			i := fr.i
			msg, _ := concreteStr(a[1])
			i.st.obligations++
			switch c := a[0].(type) {
			case bool:
				i.st.concreteAsserts++
				if !c {
					i.reportViolation("assert", msg, nil)
					if i.foreignAssertion(msg) {
						// owned by another property's check: recorded there; this check goes on to its own assertions
						return nil
					}
					panic(pathAbort{"stop", "assertion failed: " + msg})
				}
				i.st.discharged++
			case sym:
				nc := i.tc.Not(c.t)
				before := i.st.unknown
				ok, m := i.feasible(nc)
				if ok && i.st.unknown == before {
					if m == nil {
						// model cache said feasible; fetch a real model
						i.solver.push()
						i.solver.assert(nc)
						if i.solver.check() == "sat" {
							m = i.solver.model()
						}
						i.solver.pop()
					}
					i.reportViolation("assert", msg, m)
					// continue on the side where the assertion holds, if any
					if ok2, _ := i.feasible(c.t); !ok2 {
						panic(pathAbort{"stop", "assertion failed: " + msg})
					}
					i.addPC(c.t)
				} else if !ok {
					i.st.discharged++
					i.addPC(c.t)
				} else {
					// unknown: inconclusive, already counted
					i.addPC(c.t)
				}
			}
			return nil
		},
		"vxFail": func(fr *frame, a []value) value {
			msg, _ := concreteStr(a[0])
			fr.i.st.obligations++
			fr.i.reportViolation("assert", msg, nil)
			panic(pathAbort{"stop", "vxFail: " + msg})
		},
		"vxCover": func(fr *frame, a []value) value {
			l, _ := concreteStr(a[0])
			fr.i.path.covers[l] = true
			return nil
		},
		"vxEvent": func(fr *frame, a []value) value {
			l, _ := concreteStr(a[0])
			fr.i.event(l)
			return nil
		},
		"vxWaitIdle": func(fr *frame, a []value) value {
			fr.i.waitIdle()
			return nil
		},
		"vxYield": func(fr *frame, a []value) value {
			fr.i.yieldPoint("vxYield")
			return nil
		},
		// vxHandoff: the current thread lets every other runnable thread run until it
		// blocks or finishes (deterministic, independent of the scheduling mode)
		"vxFireTimers": func(fr *frame, a []value) value {
			i := fr.i
			if i.sch.evalDepth > 0 {
				return nil
			}
			for _, t := range i.world.timers {
				if t.stopped || t.fired {
					continue
				}
				t.fired = true
				fn := t.fn
				i.spawn("timer", func() {
					call(i, nil, token.NoPos, fn, nil)
				})
				i.event("timer fired")
			}
			// the timer functions run before the caller goes on (time has passed)
			t := i.sch.cur
			for _, x := range i.sch.threads {
				if x != t && x.enabled() {
					t.state = thRunnable
					i.handoff(x)
					i.park(t)
					break
				}
			}
			return nil
		},
		"vxHandoff": func(fr *frame, a []value) value {
			i := fr.i
			if i.sch.evalDepth > 0 {
				return nil
			}
			t := i.sch.cur
			for _, x := range i.sch.threads {
				if x != t && x.enabled() {
					t.state = thRunnable
					i.handoff(x)
					i.park(t)
					break
				}
			}
			return nil
		},
		"vxSched": func(fr *frame, a []value) value {
			fr.i.sch.mode = int(asInt64(a[0]))
			fr.i.sch.maxPreempt = int(asInt64(a[1]))
			return nil
		},
		// vxStepBudget(m): allow up to m million interpreted instructions per path (heavy library code)
		"vxStepBudget": func(fr *frame, a []value) value {
			fr.i.cfg.maxSteps = asInt64(a[0]) * 1_000_000
			return nil
		},
		"vxPoolMode": func(fr *frame, a []value) value {
			fr.i.world.poolMode = int(asInt64(a[0]))
			return nil
		},
		"vxAllocGuard": func(fr *frame, a []value) value {
			fr.i.allocLimit = a[0]
			fr.i.allocLabel, _ = concreteStr(a[1])
			return nil
		},
		"vxAllocGuardEnd": func(fr *frame, a []value) value {
			fr.i.allocLimit = nil
			return nil
		},
		"vxCheckSize": func(fr *frame, a []value) value {
			if fr.i.allocLimit != nil {
				w, _ := concreteStr(a[1])
				fr.i.checkSizeAgainstLimit(a[0], w)
			}
			return nil
		},
		"vxRegister": extNop,
		"vxRaceDetect": func(fr *frame, a []value) value {
			if fr.i.race == nil {
				fr.i.race = newRaceState()
			}
			fr.i.race.on = a[0].(bool)
			return nil
		},
		"vxWaitUntil": func(fr *frame, a []value) value {
			i := fr.i
			f := a[0]
			i.yieldPoint("waituntil")
			i.block(func() bool { return i.truth(call(i, nil, 0, f, nil), "waituntil") }, "vxWaitUntil")
			return nil
		},
		"vxSymbolic": func(fr *frame, a []value) value { return true },
		// vxHung reports whether the run would be hung now: no other thread
		// can run and some thread other than the caller is blocked.
		"vxBlockedThreads": func(fr *frame, a []value) value {
			n := 0
			for _, t := range fr.i.sch.threads {
				if t.state == thBlocked && t != fr.i.sch.cur {
					n++
				}
			}
			return n
		},
		"vxFreeze": func(fr *frame, a []value) value {
			// vxFreeze(ptr interface{}, name string): all cells of *ptr become read-only
			name, _ := concreteStr(a[1])
			it := a[0].(iface)
			if p, ok := it.v.(*value); ok && p != nil {
				fr.i.freeze(p, name)
			}
			return nil
		},
		"vxConcreteInt": func(fr *frame, a []value) value {
			return int(fr.i.concretize(a[0], "vxConcreteInt"))
		},
		"vxIsConcreteStr": func(fr *frame, a []value) value {
			_, ok := concreteStr(a[0])
			return ok
		},
		"vxSameBacking": func(fr *frame, a []value) value {
			// reports whether two byte sequences share storage (alias check)
			x, y := backing(a[0]), backing(a[1])
			if len(x) == 0 || len(y) == 0 {
				return false
			}
			for k := range x {
				for j := range y {
					if &x[k] == &y[j] {
						return true
					}
				}
			}
			return false
		},
	}
}

func backing(v value) []value {
	switch x := v.(type) {
	case []value:
		return x[:cap(x)]
	case *symstr:
		return x.b
	case iface:
		if x.v != nil {
			return backing(x.v)
		}
	}
	return nil
}

func (i *interpreter) freeze(p *value, name string) {
	if i.frozen == nil {
		i.frozen = map[*value]string{}
	}
	var walk func(c *value)
	walk = func(c *value) {
		i.frozen[c] = name
		switch x := (*c).(type) {
		case structure:
			for k := range x {
				walk(&x[k])
			}
		case array:
			for k := range x {
				walk(&x[k])
			}
		}
	}
	walk(p)
}

func (i *interpreter) frozenWrite(name string) {
	i.st.obligations++
	i.reportViolation("frozen-write", "store into frozen object "+name, nil)
}


// foreignAssertion reports whether an assertion belongs to another property
// than the one being checked (gosymx check Cnn): tagged "[Cxx] ..." or, when
// untagged, owned by the harness's VX_Cxx_ prefix.
func (i *interpreter) foreignAssertion(msg string) bool {
	if i.ownerFilter == "" {
		return false
	}
	own := ownerOf(msg)
	if own == "" && strings.HasPrefix(i.job.harness, "VX_C") && len(i.job.harness) >= 6 {
		own = i.job.harness[3:6]
	}
	return own != "" && own != i.ownerFilter
}
