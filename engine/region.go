package main

// If-conversion of side-effect-free branch regions (the && / || chains of
// character-class predicates that dominate parser code): instead of forking
// at every comparison, the region's blocks are evaluated symbolically once and
// a single decision is taken among the region's exit blocks; phis at the exit
// become ite terms.

import (
	"go/token"
	"go/types"

	"golang.org/x/tools/go/ssa"
)

type regionEdge struct {
	from *ssa.BasicBlock
	cond *Term
}

// pureIfBlock reports whether b consists only of pure, non-panicking scalar
// instructions followed by an If or Jump, and has no phis.
func pureIfBlock(b *ssa.BasicBlock) bool {
	n := len(b.Instrs)
	if n == 0 || n > 12 {
		return false
	}
	for k, ins := range b.Instrs {
		last := k == n-1
		switch x := ins.(type) {
		case *ssa.If:
			if !last {
				return false
			}
		case *ssa.Jump:
			if !last {
				return false
			}
		case *ssa.DebugRef:
		case *ssa.BinOp:
			switch x.Op {
			case token.QUO, token.REM, token.SHL, token.SHR:
				return false
			}
			if _, ok := basicKindOf(x.X.Type()); !ok {
				return false
			}
		case *ssa.UnOp:
			if x.Op == token.MUL || x.Op == token.ARROW {
				return false
			}
		case *ssa.Convert:
			if _, ok := basicKindOf(x.X.Type()); !ok {
				return false
			}
			if _, ok := basicKindOf(x.Type()); !ok {
				return false
			}
		case *ssa.ChangeType:
		default:
			return false
		}
	}
	return true
}

func (fr *frame) symbolicIf(instr *ssa.If, c sym) {
	i := fr.i
	tc := i.tc
	B := fr.block
	why := "if@" + i.posStr(instr.Pos(), fr.fn)
	processed := map[*ssa.BasicBlock]bool{B: true}
	entry := map[*ssa.BasicBlock]*Term{B: tc.tt}
	// edges leaving processed blocks
	type edge struct {
		from, to *ssa.BasicBlock
		cond     *Term
	}
	var edges []edge
	edges = append(edges, edge{B, B.Succs[0], c.t}, edge{B, B.Succs[1], tc.Not(c.t)})
	if B.Succs[0] == B.Succs[1] {
		fr.prevBlock, fr.block = B, B.Succs[0]
		return
	}
	for steps := 0; steps < 64; steps++ {
		// find a candidate target all of whose preds are processed
		var X *ssa.BasicBlock
		for _, e := range edges {
			t := e.to
			if processed[t] || !pureIfBlock(t) {
				continue
			}
			ok := true
			for _, p := range t.Preds {
				if !processed[p] {
					ok = false
					break
				}
			}
			if ok {
				X = t
				break
			}
		}
		if X == nil {
			break
		}
		// entry condition of X and removal of its incoming edges
		ec := tc.ff
		var rest []edge
		for _, e := range edges {
			if e.to == X {
				ec = tc.Or(ec, e.cond)
			} else {
				rest = append(rest, e)
			}
		}
		edges = rest
		entry[X] = ec
		processed[X] = true
		// evaluate X's pure instructions
		for _, ins := range X.Instrs[:len(X.Instrs)-1] {
			i.path.steps++
			visitInstr(fr, ins)
		}
		switch last := X.Instrs[len(X.Instrs)-1].(type) {
		case *ssa.Jump:
			edges = append(edges, edge{X, X.Succs[0], ec})
		case *ssa.If:
			cv := fr.get(last.Cond)
			ct, _ := i.termOf(cv)
			edges = append(edges, edge{X, X.Succs[0], tc.And(ec, ct)}, edge{X, X.Succs[1], tc.And(ec, tc.Not(ct))})
		}
	}
	// group exit edges by target, in first-seen order
	var targets []*ssa.BasicBlock
	byT := map[*ssa.BasicBlock][]regionEdge{}
	for _, e := range edges {
		if e.cond.op == "false" {
			continue
		}
		if _, ok := byT[e.to]; !ok {
			targets = append(targets, e.to)
		}
		byT[e.to] = append(byT[e.to], regionEdge{e.from, e.cond})
	}
	if len(targets) == 0 {
		panic(pathAbort{"infeasible", "region without feasible exit"})
	}
	var T *ssa.BasicBlock
	for k, t := range targets {
		if k == len(targets)-1 {
			T = t
			ct := tc.ff
			for _, e := range byT[t] {
				ct = tc.Or(ct, e.cond)
			}
			// the last target is implied by the negation of the others; still
			// make sure the path stays feasible
			if ok, _ := i.feasible(ct); !ok {
				panic(pathAbort{"infeasible", "region exit"})
			}
			i.addPC(ct)
			break
		}
		ct := tc.ff
		for _, e := range byT[t] {
			ct = tc.Or(ct, e.cond)
		}
		if i.decide(ct, why) {
			T = t
			break
		}
	}
	es := byT[T]
	// phis of T
	var phis []*ssa.Phi
	for _, ins := range T.Instrs {
		if p, ok := ins.(*ssa.Phi); ok {
			phis = append(phis, p)
		} else {
			break
		}
	}
	if len(es) > 1 && len(phis) > 0 {
		// can all phis be merged?
		mergeable := true
		for _, p := range phis {
			if _, ok := basicKindOf(p.Type()); ok {
				continue
			}
			// non-scalar: all incoming values must be identical
			var first value
			for k, e := range es {
				v := fr.get(p.Edges[predIndexOf(T, e.from)])
				if k == 0 {
					first = v
				} else if !sameValue(first, v) {
					mergeable = false
				}
			}
		}
		if !mergeable {
			// fork on the edge actually taken
			for k, e := range es {
				if k == len(es)-1 || i.decide(e.cond, why+"#edge") {
					if k == len(es)-1 {
						i.addPC(e.cond)
					}
					es = []regionEdge{e}
					break
				}
			}
		}
	}
	if len(es) == 1 || len(phis) == 0 {
		fr.prevBlock, fr.block = es[0].from, T
		return
	}
	// merged phis: ite over edge conditions
	vals := make([]value, len(phis))
	for pk, p := range phis {
		kind, scalar := basicKindOf(p.Type())
		if !scalar {
			vals[pk] = fr.get(p.Edges[predIndexOf(T, es[0].from)])
			continue
		}
		var acc *Term
		for k := len(es) - 1; k >= 0; k-- {
			v := fr.get(p.Edges[predIndexOf(T, es[k].from)])
			t, _ := i.termOf(v)
			if acc == nil {
				acc = t
			} else {
				acc = tc.Ite(es[k].cond, t, acc)
			}
		}
		if kind == types.UntypedBool {
			kind = types.Bool
		}
		vals[pk] = mkVal(acc, kind)
	}
	for pk, p := range phis {
		fr.env[p] = vals[pk]
	}
	fr.prevBlock, fr.block = es[0].from, T
	fr.phisDone = true
}

func predIndexOf(b, pred *ssa.BasicBlock) int {
	for k, p := range b.Preds {
		if p == pred {
			return k
		}
	}
	panic(engineError("predIndexOf"))
}

// sameValue is a conservative identity test for non-scalar values.
func sameValue(a, b value) bool {
	switch x := a.(type) {
	case *value:
		y, ok := b.(*value)
		return ok && x == y
	case string:
		y, ok := b.(string)
		return ok && x == y
	case bool, int, int8, int16, int32, int64, uint, uint8, uint16, uint32, uint64, uintptr:
		return a == b
	}
	return false
}
