package main

// Summaries of the strconv integer formatters/parsers for SYMBOLIC integers
// (stub S-STRCONV): FormatInt/FormatUint/AppendInt/AppendUint/Itoa produce
// fresh digit bytes constrained to be a canonical numeral of the argument in
// the given base (exact value relation for numerals of <= 3 digits, digit
// alphabet + no-leading-zero + length relation beyond), and ParseInt/ParseUint/
// Atoi applied to exactly such a numeral return the original integer
// (contract: Parse(Format(x,b),b) == x). Anything else is interpreted from the
// real strconv code. Concrete arguments always run the real code.

import (
	"fmt"
	"go/types"
)

type fmtRec struct {
	digits []*Term
	x      *Term // 64-bit value (two's complement for signed)
	base   int
	neg    bool
	signed bool
}

type fallThroughT struct{}

// fallThrough tells callSSA to interpret the function body after all.
var fallThrough = fallThroughT{}

func init() {
	externals["strconv.FormatInt"] = func(fr *frame, a []value) value { return symFormat(fr, a[0], a[1], true, nil) }
	externals["strconv.FormatUint"] = func(fr *frame, a []value) value { return symFormat(fr, a[0], a[1], false, nil) }
	externals["strconv.AppendInt"] = func(fr *frame, a []value) value { return symFormat(fr, a[1], a[2], true, a[0]) }
	externals["strconv.AppendUint"] = func(fr *frame, a []value) value { return symFormat(fr, a[1], a[2], false, a[0]) }
	externals["strconv.Itoa"] = func(fr *frame, a []value) value {
		if s, ok := a[0].(sym); ok {
			return symFormat(fr, fr.i.symConv(types.Int64, s), 10, true, nil)
		}
		return fallThrough
	}
	externals["strconv.ParseInt"] = func(fr *frame, a []value) value { return symParse(fr, a[0], a[1], a[2], true) }
	externals["strconv.ParseUint"] = func(fr *frame, a []value) value { return symParse(fr, a[0], a[1], a[2], false) }
	externals["strconv.Atoi"] = func(fr *frame, a []value) value {
		r := symParse(fr, a[0], 10, 0, true)
		if t, ok := r.(tuple); ok {
			if s, ok := t[0].(sym); ok {
				t[0] = fr.i.symConv(types.Int, s)
			} else if v, ok := t[0].(int64); ok {
				t[0] = int(v)
			}
			return t
		}
		return r
	}
}

func symFormat(fr *frame, xv, basev value, signed bool, dst value) value {
	s, ok := xv.(sym)
	if !ok {
		return fallThrough
	}
	i := fr.i
	tc := i.tc
	base := int(i.concretize(basev, "format.base"))
	if base < 2 || base > 36 {
		return fallThrough
	}
	x := s.t
	if x.w != 64 {
		panic(engineError("symFormat width"))
	}
	neg := false
	mag := x
	if signed {
		if i.decide(tc.Cmp("bvslt", x, tc.Const(64, 0)), "format.neg") {
			neg = true
			mag = tc.Neg(x)
		}
	}
	// number of digits
	n := 1
	pow := uint64(base)
	for {
		if i.decide(tc.Cmp("bvult", mag, tc.Const(64, pow)), "format.len") {
			break
		}
		n++
		hi, lo := mul64(pow, uint64(base))
		if hi != 0 {
			break // mag >= base^(n-1) and base^n overflows: n digits
		}
		pow = lo
	}
	rec := fmtRec{x: x, base: base, neg: neg, signed: signed}
	var bytes []value
	if neg {
		bytes = append(bytes, uint8('-'))
	}
	// formatting is a function: the same integer yields the same numeral
	var reuse *fmtRec
	for k := range i.world.fmtRecs {
		r := &i.world.fmtRecs[k]
		if r.x == x && r.base == base && r.neg == neg && r.signed == signed && len(r.digits) == n {
			reuse = r
			break
		}
	}
	var sum *Term
	for k := 0; k < n && reuse != nil; k++ {
		bytes = append(bytes, sym{reuse.digits[k], types.Uint8})
	}
	for k := 0; k < n && reuse == nil; k++ {
		name := i.freshName(fmt.Sprintf("digit%d", len(i.world.fmtRecs)))
		i.solver.declare(name, 8)
		d := tc.Var(name, 8)
		rec.digits = append(rec.digits, d)
		bytes = append(bytes, sym{d, types.Uint8})
		// alphabet
		isNum := tc.And(tc.Cmp("bvule", tc.Const(8, '0'), d), tc.Cmp("bvule", d, tc.Const(8, uint64('0'+minInt(base, 10)-1))))
		valid := isNum
		if base > 10 {
			isAl := tc.And(tc.Cmp("bvule", tc.Const(8, 'a'), d), tc.Cmp("bvule", d, tc.Const(8, uint64('a'+base-11))))
			valid = tc.Or(isNum, isAl)
		}
		i.addPC(valid)
		if k == 0 && n > 1 {
			i.addPC(tc.Not(tc.Cmp("=", d, tc.Const(8, '0'))))
		}
		if n <= 3 {
			dv := tc.Ite(tc.Cmp("bvule", d, tc.Const(8, '9')), tc.BV("bvsub", d, tc.Const(8, '0')), tc.BV("bvsub", d, tc.Const(8, 'a'-10)))
			dv64 := tc.ZExt(64, dv)
			if sum == nil {
				sum = dv64
			} else {
				sum = tc.BV("bvadd", tc.BV("bvmul", sum, tc.Const(64, uint64(base))), dv64)
			}
		}
	}
	if sum != nil {
		i.addPC(tc.Cmp("=", sum, mag))
	}
	if reuse == nil {
		i.world.fmtRecs = append(i.world.fmtRecs, rec)
	}
	if dst != nil {
		d := dst.([]value)
		r := make([]value, len(d), len(d)+len(bytes))
		copy(r, d)
		if len(d)+len(bytes) <= cap(d) {
			ext := d[:len(d)+len(bytes)]
			for k := range bytes {
				i.setCell(&ext[len(d)+k], bytes[k])
			}
			return ext
		}
		return append(r, bytes...)
	}
	return &symstr{bytes}
}

func minInt(a, b int) int {
	if a < b {
		return a
	}
	return b
}

func mul64(a, b uint64) (hi, lo uint64) {
	const mask32 = 1<<32 - 1
	a0, a1 := a&mask32, a>>32
	b0, b1 := b&mask32, b>>32
	w0 := a0 * b0
	t := a1*b0 + w0>>32
	w1 := t & mask32
	w2 := t >> 32
	w1 += a0 * b1
	hi = a1*b1 + w2 + w1>>32
	lo = a * b
	return
}

func symParse(fr *frame, sv, basev, bitsv value, signed bool) value {
	ss, ok := sv.(*symstr)
	if !ok {
		return fallThrough
	}
	if _, conc := concreteStr(ss); conc {
		return fallThrough
	}
	i := fr.i
	base, okb := basev.(int)
	bits, okbs := bitsv.(int)
	if !okb || !okbs {
		return fallThrough
	}
	if bits == 0 {
		bits = 64
	}
	b := ss.b
	neg := false
	if len(b) > 0 {
		if c, ok := b[0].(uint8); ok && c == '-' {
			neg = true
			b = b[1:]
		}
	}
	for _, rec := range i.world.fmtRecs {
		if rec.base != base || rec.neg != neg || len(rec.digits) != len(b) || (neg && !signed) {
			continue
		}
		match := true
		for k := range b {
			s, ok := b[k].(sym)
			if !ok || s.t != rec.digits[k] {
				match = false
				break
			}
		}
		if !match {
			continue
		}
		// range check for the requested bit size
		x := rec.x
		kind := types.Int64
		if !signed {
			kind = types.Uint64
		}
		if signed != rec.signed {
			// signed numeral parsed as unsigned (or vice versa): only non-negative values agree
			if i.decide(i.tc.Cmp("bvslt", x, i.tc.Const(64, 0)), "parse.signmix") {
				return fallThrough
			}
		}
		if bits < 64 {
			var fits *Term
			if signed {
				fits = i.tc.Cmp("=", i.tc.SExt(64, i.tc.Extract(bits-1, 0, x)), x)
			} else {
				fits = i.tc.Cmp("=", i.tc.ZExt(64, i.tc.Extract(bits-1, 0, x)), x)
			}
			if !i.decide(fits, "parse.range") {
				return fallThrough
			}
		}
		return tuple{mkVal(x, kind), iface{}}
	}
	return fallThrough
}
