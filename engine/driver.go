package main

// Program loading (regenerated from /repo on every run, harness files injected
// by overlay), package initialisation policy, and the per-job path loop.

import (
	"crypto/sha256"
	"encoding/hex"
	"encoding/json"
	"fmt"
	"go/token"
	"go/types"
	"os"
	"path/filepath"
	"regexp"
	"sort"
	"strings"
	"sync"
	"time"

	"golang.org/x/tools/go/packages"
	"golang.org/x/tools/go/ssa"
	"golang.org/x/tools/go/ssa/ssautil"
)

var repoRoot = func() string {
	if v := os.Getenv("VERIF_REPO"); v != "" {
		return v
	}
	return "/repo"
}()
const repoModule = "github.com/henrylee2cn/erpc/v6"

type program struct {
	prog     *ssa.Program
	pkgs     []*ssa.Package
	byPath   map[string]*ssa.Package
	sizes    types.Sizes
	loadWall time.Duration
	overlay  map[string][]byte
	rebound  []string // renames of unexported identifiers the harness files were rebound to
	rtypeM   methodSet
	errorM   methodSet
	reflPkg  *ssa.Package
}

// harnessOverlay builds the overlay map for the given repo-relative package
// dirs ("." for the root package): every /verif/harness/<dir>/*.go plus the shim.
func harnessOverlay(verifRoot string, dirs []string) (map[string][]byte, error) {
	ov := map[string][]byte{}
	shim, err := os.ReadFile(filepath.Join(verifRoot, "harness", "shim", "zz_vx_shim.go.txt"))
	if err != nil {
		return nil, err
	}
	for _, d := range dirs {
		hd := d
		if d == "." {
			hd = "root"
		}
		files, _ := filepath.Glob(filepath.Join(verifRoot, "harness", hd, "*.go"))
		pkgName := ""
		for _, f := range files {
			b, err := os.ReadFile(f)
			if err != nil {
				return nil, err
			}
			if strings.HasSuffix(f, "_test.go") {
				continue
			}
			ov[filepath.Join(repoRoot, d, filepath.Base(f))] = b
			if pkgName == "" {
				for _, line := range strings.Split(string(b), "\n") {
					if strings.HasPrefix(line, "package ") {
						pkgName = strings.TrimSpace(strings.TrimPrefix(line, "package "))
						break
					}
				}
			}
		}
		if pkgName == "" {
			return nil, fmt.Errorf("no harness files for %s", d)
		}
		ov[filepath.Join(repoRoot, d, "zz_vx_shim.go")] = []byte(strings.Replace(string(shim), "package PKG", "package "+pkgName, 1))
		// shared helper files (scripted conn, frames) for packages above socket/
		switch d {
		case "socket", "utils", "codec", "xfer", "xfer/gzip", "xfer/md5":
			// (packages below or beside socket/: the shared file imports socket, and
			// socket's own tests import the filters - an import cycle in the native build)
		default:
			sh, _ := filepath.Glob(filepath.Join(verifRoot, "harness", "shared", "*.go.txt"))
			for _, f := range sh {
				b, err := os.ReadFile(f)
				if err != nil {
					return nil, err
				}
				name := strings.TrimSuffix(filepath.Base(f), ".txt")
				ov[filepath.Join(repoRoot, d, name)] = []byte(strings.Replace(string(b), "package PKG", "package "+pkgName, 1))
			}
		}
	}
	// dial hook (H-dial): the real dialer.go, regenerated from /repo on every run, with one
	// line inserted at the top of dialOne that consults a harness-provided hook
	if b, err := os.ReadFile(filepath.Join(repoRoot, "dialer.go")); err == nil {
		src := string(b)
		// the one method of *Dialer that connects to a single address (dialOne in the pinned tree)
		re := regexp.MustCompile(`func \((\w+) \*Dialer\) [a-z]\w*\((?:(\w+) context\.Context, )?(\w+) string\) \(net\.Conn, error\) \{\n`)
		if m := re.FindAllStringSubmatch(src, -1); len(m) == 1 && !strings.Contains(src, "vxDialHook") {
			sig := m[0][0]
			ins := "\tif vxDialHook != nil {\n"
			if ctxName := m[0][2]; ctxName != "" && ctxName != "_" {
				// a dial that is given a context honours it (contract of net.Dialer.DialContext)
				ins += "\t\tif err := " + ctxName + ".Err(); err != nil {\n\t\t\treturn nil, err\n\t\t}\n"
			}
			ins += "\t\treturn vxDialHook(" + m[0][3] + ")\n\t}\n"
			src = strings.Replace(src, sig, sig+ins, 1)
			src += "\n// vxDialHook is installed by verification harnesses (overlay only).\nvar vxDialHook func(addr string) (net.Conn, error)\n\n// VXSetDialHook installs the dial hook (overlay only).\nfunc VXSetDialHook(f func(addr string) (net.Conn, error)) { vxDialHook = f }\n"
			ov[filepath.Join(repoRoot, "dialer.go")] = []byte(src)
		}
	}
	// QUIC stub so that the root package type-checks/links without qtls
	if b, err := os.ReadFile(filepath.Join(verifRoot, "overlay", "quic_stub.go.txt")); err == nil {
		ov[filepath.Join(repoRoot, "quic", "quic.go")] = b
		ov[filepath.Join(repoRoot, "quic", "inherit.go")] = []byte("package quic\n")
	}
	return ov, nil
}

func loadProgram(verifRoot string, dirs []string) (*program, error) {
	t0 := time.Now()
	ov, err := harnessOverlay(verifRoot, dirs)
	if err != nil {
		return nil, err
	}
	var patterns []string
	for _, d := range dirs {
		if d == "." {
			patterns = append(patterns, repoModule)
		} else {
			patterns = append(patterns, repoModule+"/"+d)
		}
	}
	patterns = append(patterns, "unicode/utf8", "errors", "runtime")
	cfg := &packages.Config{
		Mode:    packages.LoadAllSyntax,
		Dir:     repoRoot,
		Overlay: ov,
		Env:     append(os.Environ(), "GOFLAGS=-mod=mod", "GOPROXY=off", "GOSUMDB=off", "GOTOOLCHAIN=local", "CGO_ENABLED=0"),
	}
	initial, err := packages.Load(cfg, patterns...)
	if err != nil {
		return nil, err
	}
	countErrs := func(print bool) (n, inHarness int) {
		packages.Visit(initial, nil, func(p *packages.Package) {
			for _, e := range p.Errors {
				if strings.HasPrefix(p.PkgPath, repoModule) {
					if print {
						fmt.Fprintf(os.Stderr, "load error in %s: %v\n", p.PkgPath, e)
					}
					n++
					if strings.Contains(e.Pos, "zz_vx") {
						inHarness++
					}
				}
			}
		})
		return
	}
	var rebound []string
	if n, h := countErrs(false); n > 0 && n == h {
		// only the harness files fail to type-check: try to follow renames of
		// unexported identifiers (see heal.go), then load once more
		if files, notes := healHarness(initial, ov, loadBaselineShape(verifRoot)); files > 0 {
			rebound = notes
			fmt.Fprintf(os.Stderr, "harness rebound to renamed identifiers: %s\n", strings.Join(notes, "; "))
			initial, err = packages.Load(cfg, patterns...)
			if err != nil {
				return nil, err
			}
		}
	}
	if nerr, _ := countErrs(true); nerr > 0 {
		return nil, fmt.Errorf("%d load errors in repo packages", nerr)
	}
	if os.Getenv("VX_WRITE_SHAPE") != "" {
		if b, err := json.MarshalIndent(collectShape(initial), "", " "); err == nil {
			os.WriteFile(os.Getenv("VX_WRITE_SHAPE"), b, 0644)
		}
	}
	prog, pkgs := ssautil.AllPackages(initial, ssa.InstantiateGenerics|ssa.SanityCheckFunctions*0)
	prog.Build()
	p := &program{prog: prog, byPath: map[string]*ssa.Package{}, overlay: ov, rebound: rebound}
	for _, sp := range prog.AllPackages() {
		p.byPath[sp.Pkg.Path()] = sp
	}
	p.pkgs = pkgs
	p.sizes = types.SizesFor("gc", "amd64")
	initReflectProg(p)
	p.loadWall = time.Since(t0)
	return p, nil
}

// skipInit lists packages whose init functions are not executed (their
// globals stay zero; code depending on them is replaced by intrinsics).
func skipInit(path string) bool {
	switch path {
	case "runtime", "os", "syscall", "net", "reflect", "time", "sync", "sync/atomic",
		"internal/poll", "internal/cpu", "internal/godebug", "os/signal", "os/exec", "os/user",
		"crypto/tls", "crypto/x509", "log", "math/rand", "math/big", "crypto/rand",
		"internal/syscall/unix", "internal/testlog", "internal/bisect", "vendor/golang.org/x/net/idna",
		"encoding/json", "encoding/xml", "encoding/gob", "html", "mime", "mime/multipart",
		"github.com/henrylee2cn/goutil/coarsetime", "github.com/henrylee2cn/goutil/graceful",
		"github.com/henrylee2cn/goutil/pool", "flag", "testing", "unicode", "text/template", "html/template",
		"go/token", "go/ast", "go/parser", "go/format", "go/printer", "go/scanner", "go/build",
		"crypto/md5", "crypto/sha1", "crypto/sha256", "crypto/sha512",
		"crypto/aes", "crypto/cipher", "crypto/des", "crypto/elliptic", "crypto/ecdsa", "crypto/rsa", "crypto/ed25519",
		"github.com/henrylee2cn/cfgo", "github.com/henrylee2cn/goutil/errors", "errors":
		return true
	}
	if path == "compress/flate" || path == "compress/gzip" || path == "hash/crc32" || path == "hash" ||
		path == "net/http" || path == "net/textproto" || path == "net/url" || path == "vendor/golang.org/x/net/http/httpguts" || path == "net/http/internal/ascii" || path == "net/http/internal" {
		return false
	}
	for _, pre := range []string{"runtime/", "internal/", "crypto/", "vendor/", "golang.org/x/", "net/", "google.golang.org/", "github.com/golang/protobuf", "github.com/gogo/protobuf",
		"github.com/lucas-clemente", "github.com/xtaci", "github.com/klauspost", "github.com/templexxx", "github.com/tjfoc", "github.com/marten-seemann", "github.com/cheekybits", "github.com/francoispqt",
		"git.apache.org/", "github.com/kavu", "gopkg.in/", "github.com/pkg/", "github.com/henrylee2cn/ameda", "github.com/tidwall/evio", "github.com/montanaflynn", "database/", "text/", "regexp", "log/", "image", "debug/", "archive/", "container/", "expvar", "embed", "hash/"} {
		if strings.HasPrefix(path, pre) {
			return true
		}
	}
	return false
}

func newInterpreter(p *program, cfg config, solverKind string, timeoutMs int) (*interpreter, error) {
	i := &interpreter{
		prog:     p.prog,
		sizes:    p.sizes,
		cfg:      cfg,
		extCache: map[*ssa.Function]externalFn{},
		fnSize:   map[*ssa.Function]int{},
	}
	i.rtypeMethods = p.rtypeM
	i.errorMethods = p.errorM
	i.reflectPackage = p.reflPkg
	rt := p.prog.ImportedPackage("runtime")
	if rt == nil {
		return nil, fmt.Errorf("program lacks runtime")
	}
	i.runtimeErrorString = rt.Type("errorString").Object().Type()
	s, err := newSolver(solverKind, timeoutMs)
	if err != nil {
		return nil, err
	}
	i.solver = s
	i.st.unsupportedMsgs = map[string]int{}
	i.st.covers = map[string]int{}
	i.funcsRun = map[*ssa.Function]int{}
	return i, nil
}

// resetWorld re-creates all mutable target state (globals, side tables) and
// runs package initialisation for the job's package.
func (i *interpreter) resetWorld(p *program, main *ssa.Package) {
	i.globals = make(map[*ssa.Global]*value)
	for _, pkg := range i.prog.AllPackages() {
		for _, m := range pkg.Members {
			if g, ok := m.(*ssa.Global); ok {
				cell := zero(mustDeref(g.Type()))
				i.globals[g] = &cell
			}
		}
		if skipInit(pkg.Pkg.Path()) {
			if g, ok := pkg.Members["init$guard"].(*ssa.Global); ok {
				*i.globals[g] = true
			}
		}
	}
	if osp := i.prog.ImportedPackage("os"); osp != nil {
		if g, ok := osp.Members["Args"].(*ssa.Global); ok {
			*i.globals[g] = []value{"/vx/bin"}
		}
	}
	i.side = newSideState()
	i.world = &world{counters: map[string]int{}, poolMode: 1}
	i.frozen = nil
	i.allocLimit = nil
}

type jobResult struct {
	job        job
	st         stats
	violations []violation
	witnesses  []violation
	wall       time.Duration
	solverWall time.Duration
	nSat       int
	nUnsat     int
	nUnknown   int
	nErr       int
	samples    []map[string]interface{}
	funcs      map[string]int
	inconcl    []string
}

// runJob explores all paths of one harness instance.
func (i *interpreter) runJob(p *program, jb job) jobResult {
	t0 := time.Now()
	i.job = jb
	i.st = stats{unsupportedMsgs: map[string]int{}, covers: map[string]int{}}
	i.violations = nil
	i.witnesses = nil
	i.work = [][]decision{nil}
	res := jobResult{job: jb}
	pkg := p.byPath[jb.pkg]
	if pkg == nil {
		res.inconcl = append(res.inconcl, "package not loaded: "+jb.pkg)
		return res
	}
	fn := pkg.Func(jb.harness)
	if fn == nil {
		res.inconcl = append(res.inconcl, "harness not found: "+jb.harness)
		return res
	}
	if !i.initWorld(p, pkg) {
		res.inconcl = append(res.inconcl, i.path.endMsg)
		res.st = i.st
		return res
	}
	for len(i.work) > 0 {
		if i.st.paths >= i.cfg.maxPaths {
			res.inconcl = append(res.inconcl, fmt.Sprintf("path budget %d exhausted with %d prefixes pending", i.cfg.maxPaths, len(i.work)))
			break
		}
		prefix := i.work[len(i.work)-1]
		i.work = i.work[:len(i.work)-1]
		i.runPath(p, pkg, fn, prefix)
		if os.Getenv("VX_PROGRESS") != "" && i.st.paths%200 == 0 {
			fmt.Fprintf(os.Stderr, "progress: paths=%d pending=%d ok=%d last=%s/%s steps=%d decisions=%d solver=%v\n", i.st.paths, len(i.work), i.st.pathsOK, i.path.ended, i.path.endMsg, i.path.steps, len(i.path.trace), i.solver.wall)
		}
		if len(res.samples) < 3 && i.path.ended == "ok" {
			res.samples = append(res.samples, i.pathSample())
		}
		if i.solver.dead {
			res.inconcl = append(res.inconcl, "solver process died")
			break
		}
	}
	res.st = i.st
	res.violations = i.violations
	res.witnesses = i.witnesses
	res.wall = time.Since(t0)
	res.solverWall = i.solver.wall
	res.nSat, res.nUnsat, res.nUnknown, res.nErr = i.solver.nSat, i.solver.nUnsat, i.solver.nUnknown, i.solver.nErr
	if i.st.unknown > 0 || i.solver.nErr > 0 {
		res.inconcl = append(res.inconcl, fmt.Sprintf("%d solver answers unknown/error", i.st.unknown+i.solver.nErr))
	}
	if n := i.st.pathsUnsupported; n > 0 {
		res.inconcl = append(res.inconcl, fmt.Sprintf("%d paths aborted as unsupported: %v", n, i.st.unsupportedMsgs))
	}
	if n := i.st.pathsBudget; n > 0 {
		res.inconcl = append(res.inconcl, fmt.Sprintf("%d paths truncated by a budget: %v", n, i.st.unsupportedMsgs))
	}
	if n := i.st.pathsEngine; n > 0 {
		res.inconcl = append(res.inconcl, fmt.Sprintf("%d paths hit an engine error: %v", n, i.st.unsupportedMsgs))
	}
	res.funcs = map[string]int{}
	for f, n := range i.funcsRun {
		res.funcs[f.String()] += n
	}
	return res
}

func (i *interpreter) pathSample() map[string]interface{} {
	m := map[string]interface{}{"harness": i.job.harness, "args": i.job.args, "decisions": len(i.path.trace), "steps": i.path.steps}
	var pcs []string
	for k, c := range i.path.pc {
		if k >= 6 {
			pcs = append(pcs, "…")
			break
		}
		s := c.String()
		if len(s) > 160 {
			s = s[:160] + "…"
		}
		pcs = append(pcs, s)
	}
	m["path_condition"] = pcs
	var cov []string
	for c := range i.path.covers {
		cov = append(cov, c)
	}
	sort.Strings(cov)
	m["covers"] = cov
	return m
}

// runThreads runs body as the main interpreted thread of the current path
// until the path ends, then kills every remaining thread.
func (i *interpreter) runThreads(body func()) {
	var wg sync.WaitGroup
	i.sch = &schedState{done: make(chan struct{}), maxPreempt: 2, wg: &wg}
	main := i.spawnMain(body)
	i.handoff(main)
	<-i.sch.done
	i.killAll()
	wg.Wait()
}

// initWorld creates the globals and runs package initialisation once per
// job; the resulting heap is the snapshot every path starts from.
func (i *interpreter) initWorld(p *program, pkg *ssa.Package) bool {
	i.logging = false
	i.epoch = 0
	i.undo, i.undoFns = nil, nil
	i.path = &pathState{nsym: map[string]int{}, covers: map[string]bool{}}
	i.tc = newTctx()
	i.solver.push()
	i.resetWorld(p, pkg)
	i.runThreads(func() {
		call(i, nil, token.NoPos, pkg.Func("init"), nil)
	})
	i.solver.pop()
	ok := i.path.ended == "ok" && len(i.path.trace) == 0 && i.sch.crash == "" && i.sch.hang == ""
	if !ok {
		i.path.endMsg = fmt.Sprintf("package initialisation failed: %s %s %s %s", i.path.ended, i.path.endMsg, i.sch.crash, i.sch.hang)
	}
	i.snapSide = i.side
	i.st.steps += i.path.steps
	i.logging = true
	return ok
}

func (i *interpreter) runPath(p *program, pkg *ssa.Package, fn *ssa.Function, prefix []decision) {
	i.st.paths++
	i.epoch++
	i.path = &pathState{prefix: prefix, nsym: map[string]int{}, covers: map[string]bool{}}
	i.tc = newTctx()
	i.solver.push()
	i.side = i.snapSide.clone()
	i.world = &world{counters: map[string]int{}, poolMode: 1}
	i.frozen = nil
	i.allocLimit = nil
	i.race = nil
	i.inAtomic, i.inMapWrite, i.inSyncMap = false, false, false

	args := make([]value, len(i.job.args))
	for k, a := range i.job.args {
		args[k] = a
	}
	nViolBefore := len(i.violations)
	i.runThreads(func() {
		call(i, nil, token.NoPos, fn, []value{args})
	})
	if os.Getenv("VX_DEBUG") == "4" {
		for _, t := range i.sch.threads {
			fmt.Fprintf(os.Stderr, "thread %d %s state=%d what=%s\n", t.id, t.name, t.state, t.what)
		}
		for _, e := range i.path.events {
			fmt.Fprintln(os.Stderr, "  event:", e)
		}
	}
	i.rollback()

	// classify the outcome
	st := &i.st
	if i.sch.crash != "" && i.path.ended == "" {
		i.path.ended = "crash"
		i.path.endMsg = i.sch.crash
	}
	if i.sch.hang != "" && i.path.ended == "" {
		i.path.ended = "hang"
		i.path.endMsg = i.sch.hang
	}
	switch i.path.ended {
	case "ok":
		st.pathsOK++
		i.maybeWitness(nViolBefore)
	case "assume":
		st.pathsAssume++
	case "stop", "fatal":
		st.pathsOK++
	case "crash":
		st.crashes++
		i.st.obligations++
		i.reportViolation("crash", i.path.endMsg, nil)
	case "hang":
		st.hangs++
		i.st.obligations++
		i.reportViolation("hang", i.path.endMsg, nil)
	case "unsupported":
		st.pathsUnsupported++
		st.unsupportedMsgs[i.path.endMsg]++
	case "budget":
		st.pathsBudget++
		st.unsupportedMsgs[i.path.endMsg]++
		if strings.HasPrefix(i.path.endMsg, "instruction budget exceeded") {
			// a thread that keeps running may be a livelock (a retry loop that can
			// never succeed): the native replay decides - it is reported only if
			// the real build does not finish either (test deadline)
			i.st.obligations++
			i.reportViolation("hang", "a thread keeps running without completing (instruction budget exhausted): livelock unless the native run finishes", nil)
		}
	case "infeasible":
		st.pathsInfeasible++
	default:
		st.pathsEngine++
		st.unsupportedMsgs[i.path.ended+": "+i.path.endMsg]++
	}
	if i.path.ended == "ok" || i.path.ended == "stop" || i.path.ended == "fatal" {
		for c := range i.path.covers {
			st.covers[c]++
		}
	}
	st.steps += i.path.steps
	i.solver.pop()
}

// spawnMain creates the harness thread; its normal return ends the path.
func (i *interpreter) spawnMain(body func()) *thread {
	return i.spawn("main", func() {
		body()
		if i.path.ended == "" {
			i.path.ended = "ok"
		}
		i.endPath()
		panic(pathAbort{"killed", ""})
	})
}

func fileHash(path string) string {
	b, err := os.ReadFile(path)
	if err != nil {
		return ""
	}
	h := sha256.Sum256(b)
	return hex.EncodeToString(h[:8])
}


// maybeWitness keeps, per job, the completed violation-free paths with the
// smallest trace hashes (a deterministic pseudo-random sample) together with a
// model of their path condition: the check later runs the natively compiled
// harness on those inputs and compares outcome and cover labels with what the
// symbolic execution predicted (validation of the encoding against the real
// build). Paths whose trace contains scheduling decisions are skipped: the
// native scheduler cannot be made to follow them.
func (i *interpreter) maybeWitness(nViolBefore int) {
	if i.maxWitnesses <= 0 || len(i.violations) != nViolBefore || i.path.truncated {
		return
	}
	h := uint64(14695981039346656037)
	for _, d := range i.path.trace {
		if d.W == "sched" || strings.HasPrefix(d.W, "preempt@") || d.W == "select" {
			return
		}
		h ^= uint64(d.N)*31 + uint64(len(d.K))
		h *= 1099511628211
		h ^= uint64(d.V)
		h *= 1099511628211
	}
	h ^= h >> 29
	h *= 0xbf58476d1ce4e5b9
	h ^= h >> 32
	if len(i.witnesses) >= i.maxWitnesses {
		worst := 0
		for k := range i.witnesses {
			if i.witnesses[k].hash > i.witnesses[worst].hash {
				worst = k
			}
		}
		if i.witnesses[worst].hash <= h {
			return
		}
		i.witnesses = append(i.witnesses[:worst], i.witnesses[worst+1:]...)
	}
	model := i.path.model
	if model == nil {
		i.solver.push()
		if i.solver.check() == "sat" {
			model = i.solver.model()
		}
		i.solver.pop()
	}
	if model == nil {
		return
	}
	v := violation{Kind: "witness", Model: map[string]uint64{}, Harness: i.job.harness, Args: i.job.args, hash: h, Threads: len(i.sch.threads)}
	for _, in := range i.path.inputs {
		in.Val = model[in.Name] & maskB(in.W)
		v.Inputs = append(v.Inputs, in)
		v.Model[in.Name] = in.Val
	}
	for c := range i.path.covers {
		v.Covers = append(v.Covers, c)
	}
	sort.Strings(v.Covers)
	i.witnesses = append(i.witnesses, v)
}
