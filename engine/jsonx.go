package main

// Stub S-JSON (generic values): encoding/json is not interpreted (its package
// initialiser builds tables through reflection the engine does not model).
// For *concrete* generic JSON values - nil, bool, numbers, strings, []interface{},
// map[string]interface{} and pointers/interfaces holding them - Marshal,
// Unmarshal and (*Decoder).Decode are evaluated by the host's encoding/json,
// honouring the decoder options the interpreted code set (UseNumber). The code
// under test decides WHICH api it calls and with which options; what that api
// does with a concrete document is the host library's behaviour (part of the
// claim, listed with the stubs). Anything else falls through to the previous
// handling.

import (
	"bytes"
	"encoding/json"
	"go/types"
	"sort"
)

var emptyIfaceType = types.NewInterfaceType(nil, nil).Complete()

func (i *interpreter) jsonNumberType() types.Type {
	if p := i.prog.ImportedPackage("encoding/json"); p != nil {
		if t := p.Type("Number"); t != nil {
			return t.Type()
		}
	}
	return types.Typ[types.String]
}

// hostFromEngine converts a concrete engine value of static type t to a host value.
func (i *interpreter) hostFromEngine(v value, t types.Type, depth int) (interface{}, bool) {
	if depth > 16 {
		return nil, false
	}
	switch x := v.(type) {
	case iface:
		if x.t == nil {
			return nil, true
		}
		return i.hostFromEngine(x.v, x.t, depth+1)
	case nil:
		return nil, true
	case bool:
		return x, true
	case float64:
		return x, true
	case float32:
		return x, true
	case int:
		return x, true
	case int8:
		return x, true
	case int16:
		return x, true
	case int32:
		return x, true
	case int64:
		return x, true
	case uint:
		return x, true
	case uint8:
		return x, true
	case uint16:
		return x, true
	case uint32:
		return x, true
	case uint64:
		return x, true
	case string:
		if n, ok := t.(*types.Named); ok && n.Obj().Name() == "Number" && n.Obj().Pkg() != nil && n.Obj().Pkg().Path() == "encoding/json" {
			return json.Number(x), true
		}
		return x, true
	case *symstr:
		s, ok := concreteStr(x)
		if !ok {
			return nil, false
		}
		return i.hostFromEngine(s, t, depth)
	case *value:
		if x == nil {
			return nil, true
		}
		pt, ok := t.Underlying().(*types.Pointer)
		if !ok {
			return nil, false
		}
		return i.hostFromEngine(*x, pt.Elem(), depth+1)
	case []value:
		st, ok := t.Underlying().(*types.Slice)
		if !ok {
			return nil, false
		}
		if b, ok := st.Elem().Underlying().(*types.Basic); ok && b.Kind() == types.Uint8 {
			return nil, false // []byte is base64 in JSON: not a generic value, leave it to the other handling
		}
		if x == nil {
			return []interface{}(nil), true
		}
		out := make([]interface{}, len(x))
		for k, e := range x {
			h, ok := i.hostFromEngine(e, st.Elem(), depth+1)
			if !ok {
				return nil, false
			}
			out[k] = h
		}
		return out, true
	case *omap:
		mt, ok := t.Underlying().(*types.Map)
		if !ok {
			return nil, false
		}
		if b, ok := mt.Key().Underlying().(*types.Basic); !ok || b.Kind() != types.String {
			return nil, false
		}
		if x == nil {
			return map[string]interface{}(nil), true
		}
		out := map[string]interface{}{}
		for _, e := range x.entries {
			if e.dead {
				continue
			}
			ks, ok := concreteStr(e.key)
			if !ok {
				return nil, false
			}
			h, ok := i.hostFromEngine(e.val, mt.Elem(), depth+1)
			if !ok {
				return nil, false
			}
			out[ks] = h
		}
		return out, true
	}
	return nil, false
}

// engineFromHost builds the engine value (an interface value) of a decoded generic document.
func (i *interpreter) engineFromHost(h interface{}) iface {
	switch x := h.(type) {
	case nil:
		return iface{}
	case bool:
		return iface{types.Typ[types.Bool], x}
	case float64:
		return iface{types.Typ[types.Float64], x}
	case string:
		return iface{types.Typ[types.String], x}
	case json.Number:
		return iface{i.jsonNumberType(), string(x)}
	case []interface{}:
		out := make([]value, len(x))
		for k, e := range x {
			out[k] = i.engineFromHost(e)
		}
		return iface{types.NewSlice(emptyIfaceType), out}
	case map[string]interface{}:
		keys := make([]string, 0, len(x))
		for k := range x {
			keys = append(keys, k)
		}
		sort.Strings(keys)
		m := i.newOmap()
		for _, k := range keys {
			i.mapInsert(m, types.Typ[types.String], k, i.engineFromHost(x[k]))
		}
		return iface{types.NewMap(types.Typ[types.String], emptyIfaceType), m}
	}
	panic(unsupported("json bridge: host value of an unexpected type"))
}

// jsonGenericDest reports whether dst (the interface value passed as the
// decode destination) is a pointer to interface{}, map[string]interface{} or
// []interface{}.
func jsonGenericDest(dst value) (*value, types.Type, bool) {
	itf, ok := dst.(iface)
	if !ok || itf.t == nil {
		return nil, nil, false
	}
	pt, ok := itf.t.(*types.Pointer)
	if !ok {
		return nil, nil, false
	}
	cell, ok := itf.v.(*value)
	if !ok || cell == nil {
		return nil, nil, false
	}
	switch e := pt.Elem().Underlying().(type) {
	case *types.Interface:
		if e.NumMethods() == 0 {
			return cell, pt.Elem(), true
		}
	case *types.Map:
		if b, ok := e.Key().Underlying().(*types.Basic); ok && b.Kind() == types.String {
			if ie, ok := e.Elem().Underlying().(*types.Interface); ok && ie.NumMethods() == 0 {
				return cell, pt.Elem(), true
			}
		}
	case *types.Slice:
		if ie, ok := e.Elem().Underlying().(*types.Interface); ok && ie.NumMethods() == 0 {
			return cell, pt.Elem(), true
		}
	}
	return nil, nil, false
}

func (i *interpreter) jsonErr(fr *frame, err error) value {
	fn := i.lookupFunc("errors", "New")
	return call(i, fr, 0, fn, []value{err.Error()})
}

// jsonDecodeInto decodes raw (concrete) into the generic destination.
func (i *interpreter) jsonDecodeInto(fr *frame, raw []byte, cell *value, et types.Type, useNumber bool) value {
	d := json.NewDecoder(bytes.NewReader(raw))
	if useNumber {
		d.UseNumber()
	}
	var h interface{}
	if err := d.Decode(&h); err != nil {
		return i.jsonErr(fr, err)
	}
	ev := i.engineFromHost(h)
	switch et.Underlying().(type) {
	case *types.Interface:
		i.setCell(cell, ev)
	default:
		// map or slice destination: the document must have that shape
		if ev.t == nil {
			i.setCell(cell, zero(et))
		} else if types.Identical(ev.t.Underlying(), et.Underlying()) {
			i.setCell(cell, ev.v)
		} else {
			return i.jsonErr(fr, &json.UnmarshalTypeError{Value: "value", Offset: 0})
		}
	}
	return iface{}
}

func extJSONMarshalGeneric(fr *frame, args []value) value {
	itf, ok := args[0].(iface)
	if !ok {
		return fallThrough
	}
	if itf.t != nil {
		// only generic documents: interface{}, maps, slices of interface values, json.Number and pointers to them
		switch u := itf.t.Underlying().(type) {
		case *types.Map, *types.Slice:
		case *types.Pointer:
			switch u.Elem().Underlying().(type) {
			case *types.Map, *types.Slice, *types.Interface:
			default:
				return fallThrough
			}
		case *types.Basic:
			if _, named := itf.t.(*types.Named); !named {
				return fallThrough
			}
		default:
			return fallThrough
		}
	}
	h, ok := fr.i.hostFromEngine(itf, emptyIfaceType, 0)
	if !ok {
		return fallThrough
	}
	b, err := json.Marshal(h)
	if err != nil {
		return tuple{[]value(nil), fr.i.jsonErr(fr, err)}
	}
	out := make([]value, len(b))
	for k := range b {
		out[k] = b[k]
	}
	return tuple{out, iface{}}
}

func extJSONUnmarshalGeneric(fr *frame, args []value) value {
	cell, et, ok := jsonGenericDest(args[1])
	if !ok {
		return fallThrough
	}
	data, ok := args[0].([]value)
	if !ok {
		return fallThrough
	}
	raw, ok := concreteBytes(data)
	if !ok {
		panic(unsupported("encoding/json.Unmarshal of symbolic bytes into a generic value"))
	}
	return fr.i.jsonDecodeInto(fr, raw, cell, et, false)
}

func structFieldIndex(t types.Type, name string) (int, types.Type) {
	st, ok := t.Underlying().(*types.Struct)
	if !ok {
		return -1, nil
	}
	for k := 0; k < st.NumFields(); k++ {
		if st.Field(k).Name() == name {
			return k, st.Field(k).Type()
		}
	}
	return -1, nil
}

// extJSONDecoderDecode: (*json.Decoder).Decode(v) for a generic destination and
// a decoder over a bytes.Reader / strings.Reader holding concrete data.
func extJSONDecoderDecode(fr *frame, args []value) value {
	i := fr.i
	cell, et, ok := jsonGenericDest(args[1])
	if !ok {
		return fallThrough
	}
	dp, ok := args[0].(*value)
	if !ok || dp == nil {
		return fallThrough
	}
	pkg := i.prog.ImportedPackage("encoding/json")
	if pkg == nil || pkg.Type("Decoder") == nil {
		return fallThrough
	}
	dt := pkg.Type("Decoder").Type()
	ds, ok := (*dp).(structure)
	if !ok {
		return fallThrough
	}
	ri, _ := structFieldIndex(dt, "r")
	di, dst := structFieldIndex(dt, "d")
	if ri < 0 || di < 0 {
		return fallThrough
	}
	ui, _ := structFieldIndex(dst, "useNumber")
	useNumber := false
	if ui >= 0 {
		if b, ok := ds[di].(structure)[ui].(bool); ok {
			useNumber = b
		}
	}
	rd, ok := ds[ri].(iface)
	if !ok || rd.t == nil {
		return fallThrough
	}
	rp, ok := rd.v.(*value)
	if !ok || rp == nil {
		return fallThrough
	}
	rs, ok := (*rp).(structure)
	if !ok {
		return fallThrough
	}
	rpt, ok := rd.t.(*types.Pointer)
	if !ok {
		return fallThrough
	}
	si, _ := structFieldIndex(rpt.Elem(), "s")
	ii, _ := structFieldIndex(rpt.Elem(), "i")
	if si < 0 || ii < 0 {
		return fallThrough
	}
	var raw []byte
	switch s := rs[si].(type) {
	case []value:
		b, ok := concreteBytes(s)
		if !ok {
			panic(unsupported("json.Decoder over symbolic bytes"))
		}
		raw = b
	case string:
		raw = []byte(s)
	case *symstr:
		str, ok := concreteStr(s)
		if !ok {
			panic(unsupported("json.Decoder over a symbolic string"))
		}
		raw = []byte(str)
	default:
		return fallThrough
	}
	off := int(asInt64(rs[ii]))
	if off > len(raw) {
		off = len(raw)
	}
	res := i.jsonDecodeInto(fr, raw[off:], cell, et, useNumber)
	i.setCell(&rs[ii], int64(len(raw)))
	return res
}
