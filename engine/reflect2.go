package main

// Extension of the fake reflect package of ssa/interp: addressable Values
// (the payload of a settable Value is an raddr pointing at the cell), setters,
// MakeSlice, Bytes, and index/field access that preserves addressability —
// the subset used by codec/plain_codec.go and codec/form_codec.go.

import (
	"fmt"
	"go/types"
	"reflect"
)

// raddr marks a reflect.Value payload as addressable: the value lives in *p.
type raddr struct{ p *value }

func payloadOf(v value) value { return v.(structure)[1] }

func mkAddrValue(t types.Type, p *value) value { return structure{rtype{t}, raddr{p}} }

func init() {
	ov := map[string]externalFn{
		"(reflect.Value).Elem": func(fr *frame, a []value) value {
			switch x := rV2V(a[0]).(type) {
			case iface:
				return makeReflectValue(x.t, x.v)
			case *value:
				et := rV2T(a[0]).t.Underlying().(*types.Pointer).Elem()
				if x == nil {
					return structure{iface{}, iface{}}
				}
				return mkAddrValue(et, x)
			}
			panic(targetPanic{v: iface{fr.i.runtimeErrorString, "reflect: call of reflect.Value.Elem on non-pointer Value"}})
		},
		"(reflect.Value).Field": func(fr *frame, a []value) value {
			k := int(asInt64(a[1]))
			st := rV2T(a[0]).t.Underlying().(*types.Struct)
			ft := st.Field(k).Type()
			if ad, ok := payloadOf(a[0]).(raddr); ok && st.Field(k).Exported() {
				return mkAddrValue(ft, &(*ad.p).(structure)[k])
			}
			return makeReflectValue(ft, rV2V(a[0]).(structure)[k])
		},
		"(reflect.Value).Index": func(fr *frame, a []value) value {
			k := int(fr.i.concretize(a[1], "reflect.Index"))
			t := rV2T(a[0]).t.Underlying()
			switch tt := t.(type) {
			case *types.Slice:
				s := rV2V(a[0]).([]value)
				if k < 0 || k >= len(s) {
					panic(targetPanic{v: iface{fr.i.runtimeErrorString, "reflect: slice index out of range"}})
				}
				return mkAddrValue(tt.Elem(), &s[k])
			case *types.Array:
				if ad, ok := payloadOf(a[0]).(raddr); ok {
					arr := (*ad.p).(array)
					if k < 0 || k >= len(arr) {
						panic(targetPanic{v: iface{fr.i.runtimeErrorString, "reflect: array index out of range"}})
					}
					return mkAddrValue(tt.Elem(), &arr[k])
				}
				arr := rV2V(a[0]).(array)
				if k < 0 || k >= len(arr) {
					panic(targetPanic{v: iface{fr.i.runtimeErrorString, "reflect: array index out of range"}})
				}
				return makeReflectValue(tt.Elem(), arr[k])
			case *types.Basic:
				s := rV2V(a[0])
				if k < 0 || k >= strLen(s) {
					panic(targetPanic{v: iface{fr.i.runtimeErrorString, "reflect: string index out of range"}})
				}
				return makeReflectValue(types.Typ[types.Uint8], strByte(s, k))
			}
			panic(engineError(fmt.Sprintf("reflect.Value.Index on %s", t)))
		},
		"(reflect.Value).CanSet":  func(fr *frame, a []value) value { _, ok := payloadOf(a[0]).(raddr); return ok },
		"(reflect.Value).CanAddr": func(fr *frame, a []value) value { _, ok := payloadOf(a[0]).(raddr); return ok },
		"(reflect.Value).Set": func(fr *frame, a []value) value {
			ad := mustAddr(fr, a[0])
			fr.i.storeRaw(rV2T(a[0]).t, ad.p, convForSet(rV2T(a[0]).t, a[1]))
			return nil
		},
		"(reflect.Value).SetString": func(fr *frame, a []value) value {
			fr.i.setCell(mustAddr(fr, a[0]).p, a[1])
			return nil
		},
		"(reflect.Value).SetBool": func(fr *frame, a []value) value {
			fr.i.setCell(mustAddr(fr, a[0]).p, a[1])
			return nil
		},
		"(reflect.Value).SetInt": func(fr *frame, a []value) value {
			k := rV2T(a[0]).t.Underlying().(*types.Basic).Kind()
			fr.i.setCell(mustAddr(fr, a[0]).p, convInt(fr.i, k, a[1]))
			return nil
		},
		"(reflect.Value).SetUint": func(fr *frame, a []value) value {
			k := rV2T(a[0]).t.Underlying().(*types.Basic).Kind()
			fr.i.setCell(mustAddr(fr, a[0]).p, convInt(fr.i, k, a[1]))
			return nil
		},
		"(reflect.Value).SetFloat": func(fr *frame, a []value) value {
			k := rV2T(a[0]).t.Underlying().(*types.Basic).Kind()
			f := a[1].(float64)
			if k == types.Float32 {
				fr.i.setCell(mustAddr(fr, a[0]).p, float32(f))
			} else {
				fr.i.setCell(mustAddr(fr, a[0]).p, f)
			}
			return nil
		},
		"(reflect.Value).SetBytes": func(fr *frame, a []value) value {
			fr.i.setCell(mustAddr(fr, a[0]).p, a[1])
			return nil
		},
		"(reflect.Value).Bytes": func(fr *frame, a []value) value { return rV2V(a[0]) },
		"(reflect.Value).Len": func(fr *frame, a []value) value {
			switch v := rV2V(a[0]).(type) {
			case string, *symstr:
				return strLen(v)
			case array:
				return len(v)
			case []value:
				return len(v)
			case *omap:
				return v.len()
			case *vchan:
				return len(v.buf)
			}
			panic(engineError("reflect.Value.Len"))
		},
		"(reflect.Value).Int": func(fr *frame, a []value) value {
			x := rV2V(a[0])
			if s, ok := x.(sym); ok {
				return fr.i.symConv(types.Int64, s)
			}
			return asInt64(x)
		},
		"(reflect.Value).Uint": func(fr *frame, a []value) value {
			x := rV2V(a[0])
			if s, ok := x.(sym); ok {
				return fr.i.symConv(types.Uint64, s)
			}
			return uint64(asInt64(x))
		},
		"(reflect.Value).Interface": func(fr *frame, a []value) value {
			t := rV2T(a[0]).t
			v := rV2V(a[0])
			if _, isI := t.Underlying().(*types.Interface); isI {
				if it, ok := v.(iface); ok {
					return it
				}
			}
			return iface{t, v}
		},
		"(reflect.Value).String": func(fr *frame, a []value) value {
			if t, ok := a[0].(structure)[0].(rtype); ok {
				if b, ok := t.t.Underlying().(*types.Basic); ok && b.Kind() == types.String {
					return rV2V(a[0])
				}
				return "<" + t.t.String() + " Value>"
			}
			return "<invalid Value>"
		},
		"(reflect.Value).Bool": func(fr *frame, a []value) value { return rV2V(a[0]) },
		"(reflect.Value).Float": func(fr *frame, a []value) value {
			switch f := rV2V(a[0]).(type) {
			case float32:
				return float64(f)
			case float64:
				return f
			}
			panic(engineError("reflect.Value.Float"))
		},
		"reflect.MakeSlice": func(fr *frame, a []value) value {
			t := a[0].(iface).v.(rtype).t
			n, c := int(fr.i.concretize(a[1], "MakeSlice.len")), int(fr.i.concretize(a[2], "MakeSlice.cap"))
			et := t.Underlying().(*types.Slice).Elem()
			s := make([]value, c)
			for k := range s {
				s[k] = zero(et)
			}
			return makeReflectValue(t, s[:n])
		},
		"(reflect.Value).Kind": func(fr *frame, a []value) value {
			t, ok := a[0].(structure)[0].(rtype)
			if !ok {
				return uint(reflect.Invalid)
			}
			return uint(reflectKind(t.t))
		},
		"(reflect.Value).IsValid": func(fr *frame, a []value) value {
			_, ok := a[0].(structure)[0].(rtype)
			return ok
		},
	}
	for k, v := range ov {
		externals[k] = v
	}
}

func mustAddr(fr *frame, v value) raddr {
	ad, ok := payloadOf(v).(raddr)
	if !ok {
		panic(targetPanic{v: iface{fr.i.runtimeErrorString, "reflect: reflect.Value.Set using unaddressable value"}})
	}
	return ad
}

// convForSet unwraps the reflect.Value argument of Set.
func convForSet(t types.Type, arg value) value {
	v := rV2V(arg)
	if _, isI := t.Underlying().(*types.Interface); isI {
		if it, ok := v.(iface); ok {
			return it
		}
		return iface{rV2T(arg).t, v}
	}
	return v
}

func convInt(i *interpreter, k types.BasicKind, v value) value {
	if s, ok := v.(sym); ok {
		return i.symConv(k, s)
	}
	u, _, _ := intBits(v)
	return fromBits(k, u)
}
