// Derived from golang.org/x/tools/go/ssa/interp (BSD licence, The Go Authors).
// Modified: symbolic scalars and strings, path forking, cooperative threads,
// insertion-ordered maps, modelled channels, intrinsics for runtime/sync.

package main

import (
	"fmt"
	"go/token"
	"go/types"
	"os"
	"runtime"
	"runtime/debug"
	"slices"
	"strings"

	"golang.org/x/tools/go/ssa"
)

type continuation int

const (
	kNext continuation = iota
	kReturn
	kJump
)

type methodSet map[string]*ssa.Function

type config struct {
	maxSteps      int64
	maxDecisions  int
	maxConcretize int
	maxPaths      int
	trace         bool
}

// job identifies one harness instance.
type job struct {
	pkg     string
	harness string
	args    []int
}

// interpreter is the per-worker state. prog is shared and read-only.
type interpreter struct {
	prog               *ssa.Program
	globals            map[*ssa.Global]*value
	reflectPackage     *ssa.Package
	errorMethods       methodSet
	rtypeMethods       methodSet
	runtimeErrorString types.Type
	sizes              types.Sizes

	cfg        config
	tc         *tctx
	solver     *solver
	path       *pathState
	st         stats
	work       [][]decision
	job        job
	violations []violation
	witnesses    []violation
	maxWitnesses int
	sch        *schedState
	extCache   map[*ssa.Function]externalFn
	fnSize     map[*ssa.Function]int
	side       *sideState
	world      *world
	pkgs       []*ssa.Package
	initOrder  []*ssa.Package
	frozen     map[*value]string
	allocLimit value // nil or int/sym: limit for guarded allocations
	allocLabel string
	funcsRun   map[*ssa.Function]int

	// undo log: mutations after the post-initialisation snapshot
	logging  bool
	epoch    int
	undo     []undoRec
	undoFns  []func()
	snapSide *sideState
	initDone bool
	race     *raceState
	inAtomic   bool
	inMapWrite bool
	inSyncMap  bool
	pcNames    map[uintptr]string
	ownerFilter string // property id of the running check ("" for gosymx run)
}

type undoRec struct {
	addr *value
	old  value
}

// setCell is the single funnel for writes to existing heap cells.
func (i *interpreter) setCell(addr *value, v value) {
	if i.race != nil && i.race.on {
		i.raceAccess(addr, true, i.inAtomic)
	}
	if i.logging {
		i.undo = append(i.undo, undoRec{addr, *addr})
	}
	*addr = v
}

// rollback restores the heap to the post-initialisation snapshot.
func (i *interpreter) rollback() {
	for k := len(i.undo) - 1; k >= 0; k-- {
		*i.undo[k].addr = i.undo[k].old
	}
	i.undo = i.undo[:0]
	for k := len(i.undoFns) - 1; k >= 0; k-- {
		i.undoFns[k]()
	}
	i.undoFns = i.undoFns[:0]
}

type deferred struct {
	fn    value
	args  []value
	instr *ssa.Defer
	tail  *deferred
}

type frame struct {
	i                *interpreter
	caller           *frame
	fn               *ssa.Function
	block, prevBlock *ssa.BasicBlock
	env              map[ssa.Value]value
	locals           []value
	defers           *deferred
	result           value
	panicking        bool
	panic            interface{}
	phitemps         []value
	phisDone         bool
}

func (fr *frame) get(key ssa.Value) value {
	switch key := key.(type) {
	case nil:
		return nil
	case *ssa.Function, *ssa.Builtin:
		return key
	case *ssa.Const:
		return constValue(key)
	case *ssa.Global:
		if r, ok := fr.i.globals[key]; ok {
			return r
		}
	}
	if r, ok := fr.env[key]; ok {
		return r
	}
	panic(engineError(fmt.Sprintf("get: no value for %T: %v", key, key.Name())))
}

// isTargetPanic reports whether a recovered Go panic value is a panic of the
// interpreted program (as opposed to a path abort or an engine failure).
func isTargetPanic(r interface{}) bool {
	switch x := r.(type) {
	case targetPanic, rtError:
		return true
	case runtime.Error:
		// a failed type assertion on engine types is an engine bug, not a
		// run-time panic of the interpreted program
		if strings.Contains(x.Error(), "main.") {
			return false
		}
		return true
	}
	return false
}

func rethrowIfEngine(r interface{}) {
	if r == nil {
		return
	}
	if pa, ok := r.(pathAbort); ok {
		panic(pa)
	}
	if !isTargetPanic(r) {
		msg := fmt.Sprintf("interpreter panic: %v", r)
		if os.Getenv("VX_DEBUG") != "" {
			msg += "\n" + string(debug.Stack())
		}
		panic(engineError(msg))
	}
}

func (fr *frame) runDefer(d *deferred) {
	var ok bool
	defer func() {
		if !ok {
			r := recover()
			rethrowIfEngine(r)
			fr.panicking = true
			fr.panic = r
		}
	}()
	call(fr.i, fr, d.instr.Pos(), d.fn, d.args)
	ok = true
}

func (fr *frame) runDefers() {
	for d := fr.defers; d != nil; d = d.tail {
		fr.runDefer(d)
	}
	fr.defers = nil
	if fr.panicking {
		panic(fr.panic)
	}
}

func lookupMethod(i *interpreter, typ types.Type, meth *types.Func) *ssa.Function {
	switch typ {
	case rtypeType:
		return i.rtypeMethods[meth.Id()]
	case errorType:
		return i.errorMethods[meth.Id()]
	}
	return i.prog.LookupMethod(typ, meth.Pkg(), meth.Name())
}

func mustDeref(t types.Type) types.Type {
	if p, ok := t.Underlying().(*types.Pointer); ok {
		return p.Elem()
	}
	panic(engineError("mustDeref: " + t.String()))
}

func visitInstr(fr *frame, instr ssa.Instruction) continuation {
	i := fr.i
	if i.race != nil && i.race.on {
		if c := i.sch.cur; c != nil {
			c.fr = fr
			if p := instr.Pos(); p.IsValid() {
				c.pos = p
			}
		}
	}
	switch instr := instr.(type) {
	case *ssa.DebugRef:
		// no-op

	case *ssa.UnOp:
		fr.env[instr] = i.unop(instr, fr.get(instr.X))

	case *ssa.BinOp:
		fr.env[instr] = i.binop(instr.Op, instr.X.Type(), fr.get(instr.X), fr.get(instr.Y))

	case *ssa.Call:
		fn, args := prepareCall(fr, &instr.Call)
		fr.env[instr] = call(fr.i, fr, instr.Pos(), fn, args)

	case *ssa.ChangeInterface:
		fr.env[instr] = fr.get(instr.X)

	case *ssa.ChangeType:
		fr.env[instr] = fr.get(instr.X)

	case *ssa.Convert:
		fr.env[instr] = i.conv(instr.Type(), instr.X.Type(), fr.get(instr.X))

	case *ssa.SliceToArrayPointer:
		fr.env[instr] = sliceToArrayPointer(instr.Type(), instr.X.Type(), fr.get(instr.X))

	case *ssa.MakeInterface:
		fr.env[instr] = iface{t: instr.X.Type(), v: fr.get(instr.X)}

	case *ssa.Extract:
		fr.env[instr] = fr.get(instr.Tuple).(tuple)[instr.Index]

	case *ssa.Slice:
		fr.env[instr] = i.slice(fr.get(instr.X), fr.get(instr.Low), fr.get(instr.High), fr.get(instr.Max))

	case *ssa.Return:
		switch len(instr.Results) {
		case 0:
		case 1:
			fr.result = fr.get(instr.Results[0])
		default:
			var res []value
			for _, r := range instr.Results {
				res = append(res, fr.get(r))
			}
			fr.result = tuple(res)
		}
		fr.block = nil
		return kReturn

	case *ssa.RunDefers:
		fr.runDefers()

	case *ssa.Panic:
		panic(targetPanic{v: fr.get(instr.X)})

	case *ssa.Send:
		i.chanSend(fr.get(instr.Chan).(*vchan), fr.get(instr.X))

	case *ssa.Store:
		i.store(mustDeref(instr.Addr.Type()), fr.get(instr.Addr), fr.get(instr.Val))

	case *ssa.If:
		c := fr.get(instr.Cond)
		if s, ok := c.(sym); ok {
			fr.symbolicIf(instr, s)
			return kJump
		}
		succ := 1
		if c.(bool) {
			succ = 0
		}
		fr.prevBlock, fr.block = fr.block, fr.block.Succs[succ]
		return kJump

	case *ssa.Jump:
		fr.prevBlock, fr.block = fr.block, fr.block.Succs[0]
		return kJump

	case *ssa.Defer:
		fn, args := prepareCall(fr, &instr.Call)
		defers := &fr.defers
		if into := fr.get(instr.DeferStack); into != nil {
			defers = into.(**deferred)
		}
		*defers = &deferred{fn: fn, args: args, instr: instr, tail: *defers}

	case *ssa.Go:
		fn, args := prepareCall(fr, &instr.Call)
		i.goStmt(fr, instr.Pos(), fn, args)

	case *ssa.MakeChan:
		fr.env[instr] = &vchan{cap: int(i.concretize(fr.get(instr.Size), "makechan")), elem: instr.Type().Underlying().(*types.Chan).Elem(), epoch: i.epoch}

	case *ssa.Alloc:
		var addr *value
		if instr.Heap {
			addr = new(value)
			fr.env[instr] = addr
		} else {
			addr = fr.env[instr].(*value)
		}
		*addr = zero(mustDeref(instr.Type()))

	case *ssa.MakeSlice:
		lenV, capV := fr.get(instr.Len), fr.get(instr.Cap)
		i.checkAlloc(capV, instr.Pos(), fr.fn)
		c := i.concretize(capV, "makeslice.cap")
		l := i.concretize(lenV, "makeslice.len")
		if l < 0 || c < l || c > 1<<26 {
			if l < 0 || c < l {
				panic(targetRuntimeError("makeslice: len out of range"))
			}
			panic(unsupported(fmt.Sprintf("make([]T, %d) too large for the engine", c)))
		}
		slice := make([]value, c)
		tElt := instr.Type().Underlying().(*types.Slice).Elem()
		for k := range slice {
			slice[k] = zero(tElt)
		}
		fr.env[instr] = slice[:l]

	case *ssa.MakeMap:
		fr.env[instr] = i.newOmap()

	case *ssa.Range:
		fr.env[instr] = i.rangeIter(fr.get(instr.X), instr.X.Type())

	case *ssa.Next:
		fr.env[instr] = fr.get(instr.Iter).(iter).next()

	case *ssa.FieldAddr:
		p := fr.get(instr.X).(*value)
		if p == nil {
			panic(targetRuntimeError("invalid memory address or nil pointer dereference"))
		}
		fr.env[instr] = &(*p).(structure)[instr.Field]

	case *ssa.Field:
		fr.env[instr] = fr.get(instr.X).(structure)[instr.Field]

	case *ssa.IndexAddr:
		x := fr.get(instr.X)
		idx := fr.get(instr.Index)
		var elems []value
		switch x := x.(type) {
		case []value:
			elems = x
		case *value: // *array
			if x == nil {
				panic(targetRuntimeError("invalid memory address or nil pointer dereference"))
			}
			elems = (*x).(array)
		default:
			panic(engineError(fmt.Sprintf("unexpected x type in IndexAddr: %T", x)))
		}
		if s, ok := idx.(sym); ok {
			i.boundsCheck(s, len(elems), fr)
			if scalarElems(elems) && len(elems) <= 256 {
				fr.env[instr] = &symptr{elems: elems, idx: s}
				break
			}
			// non-scalar elements: case split over the (in-range) index values
			saved := i.cfg.maxConcretize
			if len(elems) <= 256 && len(elems) > saved {
				i.cfg.maxConcretize = len(elems)
			}
			idx = int(i.concretize(s, "indexaddr"))
			i.cfg.maxConcretize = saved
		}
		k := asInt64(idx)
		if k < 0 || k >= int64(len(elems)) {
			panic(targetRuntimeError(fmt.Sprintf("index out of range [%d] with length %d", k, len(elems))))
		}
		fr.env[instr] = &elems[k]

	case *ssa.Index:
		x := fr.get(instr.X)
		idx := fr.get(instr.Index)
		switch x := x.(type) {
		case array:
			if s, ok := idx.(sym); ok {
				i.boundsCheck(s, len(x), fr)
				fr.env[instr] = i.selectElem(x, s)
				break
			}
			k := asInt64(idx)
			if k < 0 || k >= int64(len(x)) {
				panic(targetRuntimeError(fmt.Sprintf("index out of range [%d] with length %d", k, len(x))))
			}
			fr.env[instr] = x[k]
		case string, *symstr:
			n := strLen(x)
			if s, ok := idx.(sym); ok {
				i.boundsCheck(s, n, fr)
				fr.env[instr] = i.selectElem(strBytesView(x), s)
				break
			}
			k := asInt64(idx)
			if k < 0 || k >= int64(n) {
				panic(targetRuntimeError(fmt.Sprintf("index out of range [%d] with length %d", k, n)))
			}
			fr.env[instr] = strByte(x, int(k))
		default:
			panic(engineError(fmt.Sprintf("unexpected x type in Index: %T", x)))
		}

	case *ssa.Lookup:
		fr.env[instr] = i.lookup(instr, fr.get(instr.X), fr.get(instr.Index))

	case *ssa.MapUpdate:
		m := fr.get(instr.Map).(*omap)
		if m == nil {
			panic(targetPanic{v: iface{i.runtimeErrorString, "assignment to entry in nil map"}})
		}
		kt := instr.Map.Type().Underlying().(*types.Map).Key()
		i.mapInsert(m, kt, fr.get(instr.Key), fr.get(instr.Value))

	case *ssa.TypeAssert:
		fr.env[instr] = typeAssert(fr.i, instr, fr.get(instr.X).(iface))

	case *ssa.MakeClosure:
		var bindings []value
		for _, binding := range instr.Bindings {
			bindings = append(bindings, fr.get(binding))
		}
		fr.env[instr] = &closure{instr.Fn.(*ssa.Function), bindings}

	case *ssa.Phi:
		panic(engineError("unreachable phi"))

	case *ssa.Select:
		fr.env[instr] = i.selectStmt(fr, instr)

	default:
		panic(engineError(fmt.Sprintf("unexpected instruction: %T", instr)))
	}
	return kNext
}

func (i *interpreter) posStr(pos token.Pos, fn *ssa.Function) string {
	if pos == token.NoPos {
		if fn != nil {
			return fn.Name()
		}
		return "?"
	}
	p := i.prog.Fset.Position(pos)
	f := p.Filename
	if k := lastSlashes(f, 2); k >= 0 {
		f = f[k+1:]
	}
	return fmt.Sprintf("%s:%d", f, p.Line)
}

func lastSlashes(s string, n int) int {
	for k := len(s) - 1; k >= 0; k-- {
		if s[k] == '/' {
			n--
			if n == 0 {
				return k
			}
		}
	}
	return -1
}

func scalarElems(e []value) bool {
	if len(e) == 0 {
		return false
	}
	switch e[0].(type) {
	case sym:
		return true
	}
	_, _, ok := intBits(e[0])
	return ok
}

// boundsCheck forks on idx out of [0,n) and raises the Go panic on that side.
func (i *interpreter) boundsCheck(idx sym, n int, fr *frame) {
	var inb *Term
	w := idx.t.w
	if w < 64 && uint64(n) > mask(w) && !kindSigned(idx.k) {
		return // every value of an unsigned w-bit index is in range
	}
	if w < 64 && kindSigned(idx.k) {
		// widen so that the length is representable; negative values are out of range
		idx = sym{i.tc.SExt(64, idx.t), types.Int64}
		w = 64
	}
	// unsigned comparison covers negative values of signed kinds too
	inb = i.tc.Cmp("bvult", idx.t, i.tc.Const(w, uint64(n)))
	if !i.decide(inb, "bounds") {
		where := ""
		if fr != nil && os.Getenv("VX_DEBUG") != "" {
			where = " in " + fr.fn.String() + " idx=" + idx.t.String()
		}
		panic(targetRuntimeError(fmt.Sprintf("index out of range [sym] with length %d%s", n, where)))
	}
}

// selectElem builds an ite chain elems[idx] for scalar elements.
func (i *interpreter) selectElem(elems []value, idx sym) value {
	if len(elems) == 0 {
		panic(engineError("selectElem on empty"))
	}
	if !scalarElems(elems) || len(elems) > 256 {
		k := i.concretize(idx, "index")
		return elems[k]
	}
	_, kind := i.termOf(elems[0])
	var acc *Term
	for k := len(elems) - 1; k >= 0; k-- {
		t, _ := i.termOf(elems[k])
		if acc == nil {
			acc = t
			continue
		}
		acc = i.tc.Ite(i.tc.Cmp("=", idx.t, i.tc.Const(idx.t.w, uint64(k))), t, acc)
	}
	return mkVal(acc, kind)
}

// symptr is the address elems[idx] with a symbolic index (scalar elements).
type symptr struct {
	elems []value
	idx   sym
}

func prepareCall(fr *frame, call *ssa.CallCommon) (fn value, args []value) {
	v := fr.get(call.Value)
	if call.Method == nil {
		fn = v
	} else {
		recv := v.(iface)
		if recv.t == nil {
			panic(targetRuntimeError("invalid memory address or nil pointer dereference (method on nil interface)"))
		}
		if f := lookupMethod(fr.i, recv.t, call.Method); f == nil {
			panic(engineError(fmt.Sprintf("method set for dynamic type %v does not contain %s", recv.t, call.Method)))
		} else {
			fn = f
		}
		args = append(args, recv.v)
	}
	for _, arg := range call.Args {
		args = append(args, fr.get(arg))
	}
	return
}

func call(i *interpreter, caller *frame, callpos token.Pos, fn value, args []value) value {
	switch fn := fn.(type) {
	case *ssa.Function:
		if fn == nil {
			panic(targetRuntimeError("invalid memory address or nil pointer dereference (nil func)"))
		}
		return callSSA(i, caller, callpos, fn, args, nil)
	case *closure:
		return callSSA(i, caller, callpos, fn.Fn, args, fn.Env)
	case *ssa.Builtin:
		return callBuiltin(caller, callpos, fn, args)
	case *nativeFunc:
		return fn.f(caller, args)
	}
	panic(engineError(fmt.Sprintf("cannot call %T", fn)))
}

// nativeFunc is an engine-implemented function value.
type nativeFunc struct {
	name string
	f    func(fr *frame, args []value) value
}

func callSSA(i *interpreter, caller *frame, callpos token.Pos, fn *ssa.Function, args []value, env []value) value {
	if i.cfg.trace {
		fmt.Fprintf(os.Stderr, "Entering %s\n", fn)
	}
	fr := &frame{i: i, caller: caller, fn: fn}
	ext, cached := i.extCache[fn]
	if !cached {
		ext = i.findExternal(fn)
		i.extCache[fn] = ext
	}
	if ext != nil {
		r := ext(fr, args)
		if _, ft := r.(fallThroughT); !ft {
			return r
		}
	}
	if fn.Blocks == nil {
		where := ""
		if caller != nil {
			where = " <- " + caller.stack()
		}
		panic(unsupported("no code for function: " + fn.String() + where))
	}
	if fn.TypeParams().Len() > 0 && len(fn.TypeArgs()) == 0 {
		panic(engineError("uninstantiated generic " + fn.String()))
	}
	if i.funcsRun != nil {
		i.funcsRun[fn]++
	}

	nv, ok := i.fnSize[fn]
	if !ok {
		nv = len(fn.Params) + len(fn.FreeVars) + len(fn.Locals)
		for _, b := range fn.Blocks {
			for _, ins := range b.Instrs {
				if _, isV := ins.(ssa.Value); isV {
					nv++
				}
			}
		}
		i.fnSize[fn] = nv
	}
	fr.env = make(map[ssa.Value]value, nv)
	fr.block = fn.Blocks[0]
	fr.locals = make([]value, len(fn.Locals))
	for k, l := range fn.Locals {
		fr.locals[k] = zero(mustDeref(l.Type()))
		fr.env[l] = &fr.locals[k]
	}
	for k, p := range fn.Params {
		fr.env[p] = args[k]
	}
	for k, fv := range fn.FreeVars {
		fr.env[fv] = env[k]
	}
	for fr.block != nil {
		runFrame(fr)
	}
	return fr.result
}

func runFrame(fr *frame) {
	defer func() {
		if fr.block == nil {
			return // normal return
		}
		r := recover()
		if r != nil && !isTargetPanic(r) {
			if _, ok := r.(pathAbort); !ok {
				r = engineError(fmt.Sprintf("interpreter panic: %v\n  in %s", r, fr.stack()))
				if os.Getenv("VX_DEBUG") == "2" {
					os.Stderr.Write(debug.Stack())
				}
			}
		}
		rethrowIfEngine(r)
		if os.Getenv("VX_DEBUG") == "3" {
			if _, ok := r.(runtime.Error); ok {
				os.Stderr.Write(debug.Stack())
			}
		}
		switch x := r.(type) {
		case runtime.Error:
			r = rtError{msg: strings.TrimPrefix(x.Error(), "runtime error: "), where: fr.stack()}
		case rtError:
			if x.where == "" {
				x.where = fr.stack()
				r = x
			}
		case targetPanic:
			if x.where == "" {
				x.where = fr.stack()
				r = x
			}
		}
		fr.panicking = true
		fr.panic = r
		fr.runDefers()
		fr.block = fr.fn.Recover
	}()

	i := fr.i
	for {
		nonPhis := executePhis(fr)
		for _, instr := range nonPhis {
			i.path.steps++
			if i.path.steps > i.cfg.maxSteps {
				i.path.truncated = true
				panic(pathAbort{"budget", "instruction budget exceeded in " + fr.fn.String()})
			}
			if i.cfg.trace {
				if v, ok := instr.(ssa.Value); ok {
					fmt.Fprintln(os.Stderr, "\t", v.Name(), "=", instr)
				} else {
					fmt.Fprintln(os.Stderr, "\t", instr)
				}
			}
			if visitInstr(fr, instr) == kReturn {
				return
			}
		}
	}
}

func executePhis(fr *frame) []ssa.Instruction {
	firstNonPhi := -1
	for i, instr := range fr.block.Instrs {
		if _, ok := instr.(*ssa.Phi); !ok {
			firstNonPhi = i
			break
		}
	}
	nonPhis := fr.block.Instrs[firstNonPhi:]
	if fr.phisDone {
		fr.phisDone = false
		return nonPhis
	}
	if firstNonPhi > 0 {
		phis := fr.block.Instrs[:firstNonPhi]
		predIndex := slices.Index(fr.block.Preds, fr.prevBlock)
		fr.phitemps = fr.phitemps[:0]
		for _, phi := range phis {
			phi := phi.(*ssa.Phi)
			fr.phitemps = append(fr.phitemps, fr.get(phi.Edges[predIndex]))
		}
		for i, phi := range phis {
			fr.env[phi.(*ssa.Phi)] = fr.phitemps[i]
		}
	}
	return nonPhis
}

// doRecover implements the recover() built-in.
func doRecover(caller *frame) value {
	if caller != nil && !caller.panicking &&
		caller.caller != nil && caller.caller.panicking {
		caller.caller.panicking = false
		p := caller.caller.panic
		caller.caller.panic = nil
		switch p := p.(type) {
		case targetPanic:
			return p.v
		case rtError:
			return iface{caller.i.runtimeErrorString, p.Error()}
		case runtime.Error:
			return iface{caller.i.runtimeErrorString, p.Error()}
		default:
			panic(engineError(fmt.Sprintf("unexpected panic type %T in target call to recover()", p)))
		}
	}
	return iface{}
}

func (fr *frame) stack() string {
	var sb strings.Builder
	for f, n := fr, 0; f != nil && n < 12; f, n = f.caller, n+1 {
		if n > 0 {
			sb.WriteString(" <- ")
		}
		sb.WriteString(f.fn.String())
	}
	return sb.String()
}
