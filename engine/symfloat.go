package main

// symFloat is a float whose bit pattern is symbolic. It can be stored, passed
// around and turned back into its bits; floating-point arithmetic or
// comparison on it is outside the engine (the path ends as unsupported).
type symFloat struct{ bits sym }
