package main

// Registry of property checks: which harness instances (harness x shape
// vector) make up the quick and thorough tier of each property.

var stdAssumptions = []string{
	"sequentially consistent memory; cooperative scheduling of interpreted goroutines",
	"sizes/lengths of inputs are concrete per harness instance (shape vector); contents are symbolic",
	"SMT solver z3 5.1.0 (z3-new) is sound for QF_BV; any unknown/timeout/error makes the run inconclusive",
	"package init of runtime/os/net/crypto/reflect/time/sync is not executed (intrinsics replace what the code needs from them)",
	"fmt.Sprintf/Errorf are evaluated natively on concrete arguments (message text with symbolic arguments is approximate)",
	"logging (Debugf/Infof/Warnf/Errorf/Printf/Tracef) has no effect",
}

func init() {
	registerCheck(&checkSpec{
		id:    "C05",
		dirs:  []string{"socket", "proto/jsonproto", "proto/thriftproto", "proto/httproto", "mixer/websocket/pbSubProto", "mixer/websocket/jsonSubProto"},
		level: "other",
		jobs: func(tier string) []job {
			var js []job
			js = append(js, J("socket", "VX_Smoke_Minus"))
			// nMethod, nBody, nMetaPairs, nMetaKV, statusMode, nStatusStr, seqMode(0 symbolic int32, 1 symbolic byte, else concrete)
			shapes := [][]int{
				{0, 0, 0, 0, 0, 0, 77}, {1, 1, 0, 0, 0, 0, 0}, {2, 2, 0, 0, 0, 0, -5}, {2, 1, 1, 1, 0, 0, 2147483647},
				{0, 1, 1, 0, 0, 0, 1}, {0, 0, 0, 0, 1, 1, 9}, {1, 0, 2, 1, 0, 0, -2147483648}, {0, 0, 0, 0, 1, 0, 3},
			}
			if tier == "thorough" {
				shapes = append(shapes, [][]int{{3, 3, 0, 0, 0, 0, 5}, {0, 4, 0, 0, 0, 0, 0}, {1, 0, 1, 2, 0, 0, 7}, {0, 0, 0, 0, 1, 2, 11}, {2, 0, 1, 2, 0, 0, 1}, {0, 0, 2, 1, 0, 0, 2}, {0, 0, 0, 0, 1, 1, 0}}...)
			}
			for _, a := range shapes {
				js = append(js, J("socket", "VX_C05_RawRoundTrip", a...))
			}
			// pipeCode1, pipeCode2, nBody, nCuts, bufSize
			streams := [][]int{{9, 2, 1, 1, 0}, {27, 0, 1, 1, 16}, {0, 0, 2, 1, 0}}
			if tier == "thorough" {
				streams = append(streams, [][]int{{9, 2, 1, 2, 0}, {27, 6, 2, 2, 16}, {1, 39, 1, 2, 16}}...)
			}
			for _, a := range streams {
				js = append(js, J("socket", "VX_C05_RawStream", a...))
			}
			js = append(js, J("socket", "VX_C05_RawSizeIndependent", 1, 2), J("socket", "VX_C05_RawSizeIndependent", 3, 0))
			js = append(js, J("socket", "VX_C05_ReusedMessage", 1), J("socket", "VX_C20_Args", 2, -1, 3), J("proto/jsonproto", "VX_C05_JSONRetained", 1), J("socket", "VX_C05_RawRetained", 1), J("proto/thriftproto", "VX_C05_ThriftRetained", 1),
				J("socket", "VX_C05_RawLongFields", 256, 10), J("socket", "VX_C05_RawLongFields", 10, 256), J("socket", "VX_C05_RawLongFields", 255, 255), J("socket", "VX_C05_RawLongFields", 300, 700), J("socket", "VX_C05_RawLongFields", 0, 65000),
				J("proto/httproto", "VX_C05_HTTPGzipStream", 100), J("proto/thriftproto", "VX_C05_ThriftPipeSeq", 60), J("proto/thriftproto", "VX_C01_ThriftMetaSeq", 0),
				J("proto/thriftproto", "VX_C05_ThriftConcurrentPack", 1, 1), J("proto/thriftproto", "VX_C05_ThriftConcurrentPack", 0, 1))
			if tier == "thorough" {
				js = append(js, J("proto/thriftproto", "VX_C05_ThriftConcurrentPack", 1, 2), J("proto/thriftproto", "VX_C05_ThriftConcurrentPack", 0, 2))
			}
			// thrift binary protocol (apache thrift THeader transport/protocol interpreted)
			for g := 0; g <= 3; g++ {
				js = append(js, J("proto/thriftproto", "VX_C05_ThriftBinary", g, 2))
			}
			js = append(js, J("proto/thriftproto", "VX_C05_ThriftBinary", 4, 0), J("proto/thriftproto", "VX_C05_ThriftSize", 1))
			// http-style protocol (net/http.Header, net/url interpreted): request + response back to back
			js = append(js, J("proto/httproto", "VX_C05_HTTPRoundTrip", 1, 0), J("proto/httproto", "VX_C05_HTTPRoundTrip", 0, 2))
			js = append(js, J("proto/thriftproto", "VX_C05_ThriftStruct", 0, 2), J("proto/thriftproto", "VX_C05_ThriftStruct", 1, 2), J("proto/thriftproto", "VX_C05_ThriftStruct", 2, 1), J("proto/thriftproto", "VX_C05_ThriftStruct", 3, 1), J("proto/thriftproto", "VX_C05_ThriftStruct", 4, 0))
			// json protocol: group(method, body, meta value, status msg), n, class(0 any byte = recorded finding, 1 text)
			for g := 0; g <= 3; g++ {
				js = append(js, J("proto/jsonproto", "VX_C05_JSONRoundTrip", g, 1, 1), J("proto/jsonproto", "VX_C05_JSONRoundTrip", g, 0, 1))
			}
			js = append(js, J("proto/jsonproto", "VX_C05_JSONRoundTrip", 1, 1, 0), J("proto/jsonproto", "VX_C05_JSONRoundTrip", 0, 1, 0), J("proto/jsonproto", "VX_C05_JSONRoundTrip", 1, 2, 1))
			// websocket sub-protocols
			js = append(js, J("mixer/websocket/pbSubProto", "VX_C05_WSPbRoundTrip", 1, 1, 1, 7), J("mixer/websocket/pbSubProto", "VX_C05_WSPbRoundTrip", 0, 2, 0, 0), J("mixer/websocket/pbSubProto", "VX_C05_WSPbRoundTrip", 2, 0, 1, -9),
				J("mixer/websocket/jsonSubProto", "VX_C05_WSJsonRoundTrip", 1), J("mixer/websocket/jsonSubProto", "VX_C05_WSJsonRoundTrip", 90))
			if tier == "thorough" {
				for g := 0; g <= 3; g++ {
					js = append(js, J("proto/jsonproto", "VX_C05_JSONRoundTrip", g, 2, 1))
				}
				js = append(js, J("mixer/websocket/pbSubProto", "VX_C05_WSPbRoundTrip", 2, 3, 2, 0))
			}
			return js
		},
		assumptions: append(append([]string{}, stdAssumptions...), "strconv Format/Parse of SYMBOLIC integers are summarised by the round-trip contract (stub S-STRCONV); concrete integers run the real strconv code"),
		explanation: "symbolic execution of the real raw-protocol Pack/Unpack code (go/ssa rebuilt from /repo) with symbolic field contents and solver-chosen short-read positions; each vxAssert is an SMT query (unsat = holds for all values of the symbolic bytes within the shape)",
		bounds:      "raw protocol in depth; json protocol (gjson interpreted) with one symbolic text field of <= 2 bytes per instance; websocket protobuf sub-protocol (gogo-generated code interpreted) with symbolic seq/mtype/codec/method/meta/body; websocket json sub-protocol on concrete fields (frame built with fmt.Sprintf); thrift binary protocol (apache thrift THeader code interpreted) with one symbolic field of <= 2 bytes or a symbolic seq per instance; thrift struct protocol likewise with a hand-written TStruct body, two frames back to back; http-style protocol: request + OK response with symbolic seq or body (error responses carry the status as encoding/json text: outside); pbproto not covered here; raw: method<=3 bytes, body<=4, meta<=3 pairs of <=2-byte key/value, status msg/cause<=2 bytes, seq symbolic int32 or samples incl. extremes, two frames with <=2 short reads at any offset, transfer pipes of <=3 filters; also: a reset message reused for a second frame, three frames decoded into retained messages (raw/json/thrift), status text and metadata of 255/256/300/700/65000 bytes (concrete content, one symbolic byte), thrift binary + struct protocols, http-style protocol (request + OK response; gzip-filtered OK and error responses with concrete statuses); rounds 5-6: two goroutines packing through one thrift protocol instance (1 preemption quick, 2 thorough) with size and race oracles",
	})
	registerCheck(&checkSpec{
		id:    "C06",
		dirs:  []string{"socket", "proto/jsonproto", "proto/httproto", "proto/thriftproto", "."},
		level: "other",
		jobs: func(tier string) []job {
			var js []job
			ns := []int{0, 1, 3, 4, 5, 6, 8}
			if tier == "thorough" {
				ns = []int{0, 1, 2, 3, 4, 5, 6, 7, 8, 9, 10}
			}
			for _, n := range ns {
				js = append(js, J("socket", "VX_C06_RawUnpackBytes", n, 24))
			}
			js = append(js, J("socket", "VX_C06_RawOversize", 24, 2), J("socket", "VX_C06_RawOversize", 100, 0))
			jn := []int{0, 3, 4, 5, 6}
			if tier == "thorough" {
				jn = []int{0, 1, 2, 3, 4, 5, 6, 7, 8}
			}
			for _, n := range jn {
				js = append(js, J("proto/jsonproto", "VX_C06_JSONUnpackBytes", n, 16))
			}
			js = append(js, J("proto/httproto", "VX_C06_HTTPContentLength", 7, 65536), J("proto/httproto", "VX_C06_HTTPOversizeOnSession", 0), J("proto/httproto", "VX_C06_HTTPOversizeOnSession", 1), J("proto/httproto", "VX_C06_HTTPBytes", 0, 4), J("proto/httproto", "VX_C06_HTTPBytes", 1, 4))
			// the real session read loop around the raw parser
			for _, n := range []int{0, 1, 4, 5} {
				js = append(js, J(".", "VX_C06_SessionBytes", n, n%2))
				js = append(js, J(".", "VX_C06_PoolAfterOversize", n+1))
			}
			js = append(js, J("proto/thriftproto", "VX_C06_ThriftOversize", 8192, 12000))
			js = append(js, J(".", "VX_C06_SessionFieldBytes", 3, 1), J(".", "VX_C06_SessionFieldBytes", 4, 1), J(".", "VX_C03_Frame", 9, 0, 0, 0, 0, 0, 1, 0),
				J(".", "VX_C02_DuplicateReply", 1, 1), J(".", "VX_C02_DuplicateReply", 4, 1), J(".", "VX_C02_ReplyThenLoss", 0, 1, 0), J(".", "VX_C02_ReplyThenLoss", 0, 4, 0))
			js = append(js, J(".", "VX_C06_SessionFieldBytes", 0, 3), J(".", "VX_C06_SessionFieldBytes", 1, 2), J(".", "VX_C06_SessionFieldBytes", 2, 2))
			js = append(js, J(".", "VX_C06_RealIPMeta", 0, 2), J(".", "VX_C06_RealIPMeta", 1, 1), J(".", "VX_C06_RealIPMeta", 2, 1), J(".", "VX_C06_RealIPMeta", 0, 0))
			if tier == "thorough" {
				js = append(js, J(".", "VX_C06_SessionFieldBytes", 1, 3), J(".", "VX_C06_SessionFieldBytes", 2, 3))
				js = append(js, J(".", "VX_C06_SessionBytes", 6, 1), J(".", "VX_C06_SessionBytes", 7, 0))
			}
			if tier == "thorough" {
				js = append(js, J("proto/httproto", "VX_C06_HTTPContentLength", 8, 1024), J("proto/httproto", "VX_C06_HTTPBytes", 0, 6), J("proto/httproto", "VX_C06_HTTPBytes", 1, 5))
			}
			return js
		},
		assumptions: stdAssumptions,
		explanation: "the real raw-protocol Unpack is executed on a fully symbolic byte stream (every byte a solver variable) of each listed length followed by EOF; the engine checks every make([]byte,n) reached against the configured limit (n is a solver term), termination (instruction budget = unwinding assertion), and that a well-formed frame still decodes afterwards",
		bounds:      "raw protocol parser on streams <= 8 (quick) / 10 (thorough) bytes, limit 24; session read loop on <= 5 (quick) / 7 (thorough) arbitrary bytes and on well-framed messages with <= 3 arbitrary bytes in one field; json protocol parser on <= 6/8 bytes; http protocol: response with symbolic 7-8 digit Content-Length and <= 4-6 arbitrary bytes after the method prefix; thrift binary protocol: one oversize frame (limit 8 KiB); pb parser and arbitrary bytes into thrift not covered; also: a REPLY to a pending typed call with an arbitrary body-codec byte, an arbitrary message-type byte, two sessions decoding at overlapping times after a refused oversize frame; rounds 5-6: X-Real-IP metadata of <= 2 arbitrary printable bytes on CALL, PUSH and REPLY frames",
	})
	registerCheck(&checkSpec{
		id:    "C12",
		dirs:  []string{"socket", ".", "xfer/md5", "xfer/gzip", "mixer/websocket/pbSubProto", "mixer/websocket/jsonSubProto"},
		level: "other",
		jobs: func(tier string) []job {
			js := []job{J("socket", "VX_C12_PipeInverts", 0, 2), J("socket", "VX_C12_PipeInverts", 1, 2), J("socket", "VX_C12_PipeInverts", 2, 2),
				J("mixer/websocket/pbSubProto", "VX_C12_WSPbUnregistered"), J("mixer/websocket/jsonSubProto", "VX_C12_WSJsonUnregistered", 63), J("mixer/websocket/jsonSubProto", "VX_C12_WSJsonUnregistered", 0), J("socket", "VX_C12_RecycledPipe", 1, 1, 2), J("socket", "VX_C12_RecycledPipe", 6, 2, 1), J("socket", "VX_C12_RecycledPipe", 0, 1, 1), J("socket", "VX_C12_PipeOnWire", 1, 1), J("socket", "VX_C12_PipeOnWire", 2, 1), J("socket", "VX_C12_Unregistered"), J("socket", "VX_C12_TooLong"),
				J("socket", "VX_C12_UnregisteredInPipe", 2, 0), J("socket", "VX_C12_UnregisteredInPipe", 2, 1), J("socket", "VX_C12_UnregisteredInPipe", 3, 0), J("socket", "VX_C12_UnregisteredInPipe", 3, 1), J("socket", "VX_C12_UnregisteredInPipe", 3, 2),
				J("socket", "VX_C12_PipeLengthOnWire", 255, 1), J("socket", "VX_C12_PipeLengthOnWire", 254, 1), J("socket", "VX_C12_PipeLengthOnWire", 128, 2), J("socket", "VX_C12_PipeLengthOnWire", 127, 1),
				J("xfer/gzip", "VX_C12_GzipPipe", 0, 300), J("xfer/gzip", "VX_C12_GzipPipe", 1, 300), J("xfer/gzip", "VX_C12_GzipPipe", 2, 64), J("xfer/gzip", "VX_C12_GzipPipe", 3, 300),
				J("xfer/md5", "VX_C12_MD5Pipe", 1, 1), J("xfer/md5", "VX_C12_MD5Pipe", 2, 0), J("xfer/md5", "VX_C12_MD5Pipe", 2, 1), J("xfer/md5", "VX_C12_MD5Sequence", 2),
				// a reply (also an error reply) goes through the caller's pipe: [C12]-tagged assertion of the frame harness
				J(".", "VX_C03_Frame", 1, 0, 0, 0, 0, 0, 1, 1), J(".", "VX_C03_Frame", 1, 1, 0, 0, 0, 0, 1, 1), J(".", "VX_C03_Frame", 1, 2, 0, 0, 0, 0, 0, 1), J(".", "VX_C03_Frame", 1, 0, 0, 1, 0, 0, 1, 1), J(".", "VX_C03_Frame", 1, 0, 0, 2, 0, 0, 1, 1), J(".", "VX_C03_Frame", 1, 0, 0, 0, 2, 0, 1, 1)}
			for _, a := range [][]int{{2, 0}, {2, 1}, {1, 2}, {2, 3}, {0, 2}, {0, 0}} {
				js = append(js, J("xfer/md5", "VX_C12_MD5", a...))
			}
			if tier == "thorough" {
				js = append(js, J("xfer/md5", "VX_C12_MD5", 4, 1), J("xfer/md5", "VX_C12_MD5", 4, 3))
				js = append(js, J("socket", "VX_C12_PipeInverts", 3, 4), J("socket", "VX_C12_PipeInverts", 4, 1), J("socket", "VX_C12_PipeOnWire", 3, 2))
			}
			return js
		},
		assumptions: append(append([]string{}, stdAssumptions...), "filters are three harness-defined invertible, mutually non-commuting filters plus the shipped md5 integrity filter with crypto/md5 as an uninterpreted collision-free function (equal digests imply equal inputs; both content and checksum altered consistently is outside the claim); gzip internals outside reach"),
		explanation: "the real xfer.XferPipe (Append/IDs/OnPack/OnUnpack/check) and the raw protocol's pipe transport are executed symbolically; pipe = solver-chosen sequence of filter ids, payload symbolic",
		bounds:      "pipes of length <= 2 (quick) / 4 (thorough) over 3 filters with repeats, payload <= 4 bytes, 255/256 boundary concrete; also: pipes of 127/128/254/255 filters on the wire followed by a second frame; the md5 filter inside pipes of 1-2 integrity stages with the payload cut at every length; the shipped gzip filter (real compress/gzip interpreted, concrete payloads of 64-300 bytes) in pipes of up to 3 gzip stages; rounds 5-6: one unregistered id at every position of pipes of length 1-3; md5 filter over sequences with rejected frames (pooled hasher)",
	})
	registerCheck(&checkSpec{
		id:    "C20",
		dirs:  []string{"socket", "."},
		level: "other",
		jobs: func(tier string) []job {
			js := []job{
				J("socket", "VX_C20_Message", 1, 1, 0, 1), J("socket", "VX_C20_Message", 1, 1, 1, 1), J("socket", "VX_C20_Message", 1, 1, 2, 0), J("socket", "VX_C20_Message", 1, 1, 3, 1),
				J("socket", "VX_C20_Args", 1, 1, 1), J("socket", "VX_C20_Args", 2, 1, 1), J("socket", "VX_C20_ArgsAfterDelete", 3, 3, 1), J("socket", "VX_C20_ArgsAfterDelete", 2, 2, 1), J("socket", "VX_C20_XferPipe", 2), J("socket", "VX_C20_ByteBuffer", 2, 1), J("socket", "VX_C20_GetMessagePanic", 1, 0), J("socket", "VX_C20_GetMessagePanic", 1, 1),
				J(".", "VX_C20_ContextReuse", 0, 1), J(".", "VX_C20_ContextReuse", 1, 1), J(".", "VX_C20_ContextReuse", 2, 0),
				J(".", "VX_C20_PreSessionPools", 0, 0), J(".", "VX_C20_PreSessionPools", 0, 1), J(".", "VX_C20_PreSessionPools", 1, 0), J(".", "VX_C20_PreSessionPools", 1, 1), J(".", "VX_C20_PreSessionPools", 2, 0), J(".", "VX_C20_PreSessionPools", 2, 1),
				J("socket", "VX_C20_Socket", 2, 1), J("socket", "VX_C20_Socket", 1, 0), J("socket", "VX_C20_Socket", 2, 1, 1), J("socket", "VX_C20_Socket", 1, 0, 1),
				J(".", "VX_C20_ContextStatus", 0, 2), J(".", "VX_C20_ContextStatus", 1, 2), J(".", "VX_C20_ContextStatus", 2, 2), J(".", "VX_C20_ContextStatus", 3, 2),
				J(".", "VX_C20_ContextAfterEarlyFailure", 0, 0), J(".", "VX_C20_ContextAfterEarlyFailure", 1, 0), J(".", "VX_C20_ContextAfterEarlyFailure", 2, 0), J(".", "VX_C20_ContextAfterEarlyFailure", 0, 1), J(".", "VX_C20_ContextAfterEarlyFailure", 2, 1),
			}
			js = append(js, msgSeqJobs(tier)...)
			if tier == "thorough" {
				js = append(js, J("socket", "VX_C20_Message", 2, 1, 0, 2), J("socket", "VX_C20_Message", 2, 2, 3, 2), J("socket", "VX_C20_Args", 1, 1, 2), J("socket", "VX_C20_Args", 2, -1, 3), J("socket", "VX_C05_ReusedMessage", 2))
			}
			return js
		},
		assumptions: append(append([]string{}, stdAssumptions...), "sync.Pool hands back the most recently released object (the case the property is about); Pool's own behaviour is outside the claim"),
		explanation: "differential symbolic execution: an object dirtied with symbolic field values is released, re-acquired from the pool and compared field by field and by its packed bytes with a freshly constructed one, before and after a solver-chosen next use",
		bounds:      "message, utils.Args, xfer.XferPipe, utils.ByteBuffer, and handler contexts recycled between two requests of one session (first request ok / status / panic); pooled sockets not covered; dirty strings <= 2 bytes, <= 2 metadata pairs, next-use wire input <= 3 bytes; also: pooled sockets (id, swap, buffered input, use after Close), pre-session PreCall/PreSend/PreReply with failing writes, contexts recycled after failing requests, message sequences of 3 (quick) / 4 (thorough) solver-chosen kinds under LIFO pools; rounds 5-6: GetMessage with a panicking setting; handler context whose use ended before a header was decoded (filter rejects, silent close, type 0)",
	})
	registerCheck(&checkSpec{
		id:    "C03",
		dirs:  []string{"."},
		level: "other",
		jobs: func(tier string) []job {
			js := []job{J(".", "VX_C03_AfterDeadlineBoundWrite", 0), J(".", "VX_C03_AfterDeadlineBoundWrite", 1), J(".", "VX_C03_HandlerOutlastsContextAge")}
			add := func(a ...int) { js = append(js, J(".", "VX_C03_Frame", a...)) }
			// mtypeMode, methodMode, unknownH, outcome, vetoStage, writeFail, nBody, pipe
			for _, oc := range []int{0, 1, 2, 3, 4} {
				add(1, 0, 0, oc, 0, 0, 1, 0)
			}
			add(0, 0, 0, 0, 0, 0, 1, 0) // every message type
			add(0, 1, 0, 0, 0, 0, 0, 1)
			add(9, 0, 0, 0, 0, 0, 1, 0)
			for _, mm := range [][]int{{1, 0}, {1, 1}, {2, 0}} {
				add(1, mm[0], mm[1], 0, 0, 0, 1, 1)
			}
			for vs := 1; vs <= 3; vs++ {
				add(1, 0, 0, 0, vs, 0, 1, 1)
				add(3, 0, 0, 0, vs, 0, 1, 0)
			}
			for wf := 1; wf <= 2; wf++ {
				add(1, 0, 0, 0, 0, wf, 1, 0)
				add(1, 0, 0, 3, 0, wf, 1, 0)
			}
			add(3, 0, 0, 2, 0, 0, 1, 0)
			add(3, 1, 1, 0, 0, 0, 1, 0)
			js = append(js, J(".", "VX_C03_TwoFrames", 1, 0), J(".", "VX_C03_TwoFrames", 1, 1))
			for st := 0; st <= 5; st++ {
				js = append(js, J(".", "VX_C03_HookPanic", st))
			}
			js = append(js, J(".", "VX_C03_HookPanic", 5, 1), J(".", "VX_C03_HookPanic", 2, 1), J(".", "VX_C03_HookPanic", 3, 1))
			js = append(js, historyJobs(tier, false)...)
			if tier == "thorough" {
				js = append(js, J(".", "VX_Session_History", 4, -1, 0, 1)) // with stray replies and unsupported-type frames
			} else {
				js = append(js, J(".", "VX_Session_History", 3, -1, 0, 1))
			}
			js = append(js, J(".", "VX_C03_CancelledQueuedWrite", 0))
			// vetoes of the reply-side hooks; panics whose value is a *Status
			js = append(js, J(".", "VX_C03_Frame", 1, 0, 0, 0, 4, 0, 1, 0), J(".", "VX_C03_Frame", 1, 0, 0, 0, 5, 0, 1, 0), J(".", "VX_C03_Frame", 1, 0, 0, 5, 0, 0, 1, 0), J(".", "VX_C03_Frame", 1, 0, 0, 6, 0, 0, 1, 0))
			if tier == "thorough" {
				js = append(js, J(".", "VX_C03_TwoFrames", 2, 0))
			}
			if tier == "thorough" {
				for _, mm := range [][]int{{0, 0}, {1, 0}, {1, 1}, {2, 0}} {
					for vs := 0; vs <= 3; vs++ {
						for _, oc := range []int{0, 1, 2, 3, 4} {
							for wf := 0; wf <= 2; wf++ {
								add(0, mm[0], mm[1], oc, vs, wf, 2, 1)
							}
						}
					}
				}
			}
			return js
		},
		assumptions: append(append([]string{}, stdAssumptions...), "handlers are installed through SubRouter.reg with a harness HandlersMaker (reflection-based controller extraction not executed)", "scripted in-memory net.Conn (stub S-CONN); goroutine pool = plain spawn; spawned handler runs when the reader blocks"),
		explanation: "the real read loop, binding, routing, plugin stages, handler dispatch, reply construction and session.write are executed symbolically for one received frame with symbolic type/seq/body/plugin and handler statuses; handler outcome, vetoing stage, route kind and transport failure are enumerated shape parameters",
		bounds:      "one frame per path; body <= 2 bytes; raw protocol; plain-bytes bodies; timeouts (context/session age) disabled; also: two frames handled concurrently, a hook of each of 5 stages panicking, reply-side hook vetoes, panics carrying a *Status, a write abandoned while queued behind a stuck reply write (context cancellation), session histories of 4 (quick) / 5 (thorough) solver-chosen events; rounds 5-6: panicking handler / hooks with a context age set",
	})
	c02jobs := func(tier string) []job {
		var js []job
		add := func(a ...int) { js = append(js, J(".", "VX_C02_Replies", a...)) }
		// seqMode, codecMode, statusMode, nBody, resultKind, cut, nMeta
		add(0, 1, 0, 1, 0, 0, 0) // symbolic seq: correlation
		add(0, 1, 1, 1, 0, 0, 1)
		add(1, 1, 0, 2, 0, 0, 1)
		add(1, 0, 0, 1, 0, 0, 0)
		add(1, 0, 0, 1, 1, 0, 0) // non-bytes result, nil/unknown codec
		add(1, 3, 0, 1, 1, 0, 0)
		add(2, 1, 1, 0, 0, 0, 0)
		add(3, 1, 0, 1, 0, 0, 0)
		js = append(js, J(".", "VX_C02_CloseThenLoss", 0), J(".", "VX_C02_CloseThenLoss", 1), J(".", "VX_C02_HandlerCallsBack"))
		js = append(js, J(".", "VX_C02_FastReply", 0, 1), J(".", "VX_C02_FastReply", 1, 0), J(".", "VX_C02_FastReply", 2, 0))
		js = append(js, J(".", "VX_C02_DuplicateReply", 1, 1), J(".", "VX_C02_DuplicateReply", 4, 1), J(".", "VX_C02_DuplicateReply", 4, 0))
		js = append(js, J(".", "VX_C02_CallDuringClose", 0, 0), J(".", "VX_C02_CallDuringClose", 0, 1), J(".", "VX_C02_CallDuringClose", 1, 0), J(".", "VX_C02_CallDuringClose", 1, 1))
		js = append(js, historyJobs(tier, true)...)
		js = append(js, J(".", "VX_C02_ReplyThenLoss", 0, 1, 0), J(".", "VX_C02_ReplyThenLoss", 0, 4, 0), J(".", "VX_C02_ReplyThenLoss", 1, 1, 0), J(".", "VX_C02_ReplyThenLoss", 0, 1, 1),
			J(".", "VX_C14_DisconnectWhileLaunching", 0, 0), J(".", "VX_C14_DisconnectWhileLaunching", 1, 1), J(".", "VX_C14_DisconnectWhileLaunching", 0, 1), J(".", "VX_C14_DisconnectWhileLaunching", 0, 2), J(".", "VX_C14_DisconnectWhileLaunching", 1, 2),
			J("proto/httproto", "VX_C02_HTTPErrorReply", 0), J(".", "VX_C06_SessionFieldBytes", 4, 1))
		for _, cut := range []int{1, 3, 4, 5, 9, 14, 18} {
			add(1, 1, 0, 2, 0, cut, 0)
		}
		if tier == "thorough" {
			for cut := 1; cut <= 24; cut++ {
				add(1, 1, 0, 2, 0, cut, 1)
				add(0, 0, 1, 1, 0, cut, 0)
			}
			add(0, 0, 1, 2, 0, 0, 1)
			add(0, 0, 0, 2, 1, 0, 0)
		}
		return js
	}
	registerCheck(&checkSpec{
		id: "C02", dirs: []string{".", "proto/httproto"}, level: "other", jobs: c02jobs,
		assumptions: append(append([]string{}, stdAssumptions...), "scripted in-memory net.Conn (stub S-CONN); the remote peer's reply is an arbitrary well-framed raw-protocol frame (symbolic seq/status/codec/body) or a truncation of one; library body codecs (json/xml/form/protobuf/thrift) excluded"),
		explanation: "the real AsyncCall, read loop, bindReply/handleReply, readDisconnected and callCmd.done/cancel are executed symbolically with two pending calls, one hostile reply frame and connection loss; completion is observed through Done() and the completion channel; a goroutine left blocked is a violation",
		bounds:      "2 pending calls, 1 reply frame (whole or cut at listed byte offsets), then EOF; reply body <= 2 bytes; sequential schedule (spawned handler runs when the reader blocks); also: reply processed before the transport write returns, reply and loss arriving together (incl. all schedules with 1 pre-emption), loss while a call is being launched, malformed 299 reply over the http-style protocol, session histories of 4 (quick) / 6 (thorough) solver-chosen events; rounds 5-6: a call or push issued while Close waits for a pending call, on accepted-style and on dialled redial-enabled sessions",
	})
	rootAssume := append(append([]string{}, stdAssumptions...), "scripted in-memory net.Conn (stub S-CONN); goroutine pool = plain spawn; handlers installed through SubRouter.reg with a harness HandlersMaker", "schedules: deterministic run-to-block order plus the interleavings scripted by the harness (handler blocked / Close in progress / reader at EOF); not all interleavings")
	registerCheck(&checkSpec{
		id: "C08", dirs: []string{"."}, level: "other",
		jobs: func(tier string) []job {
			js := []job{J(".", "VX_C08_GracefulClose", 0, 1), J(".", "VX_C08_GracefulClose", 1, 1), J(".", "VX_C08_GracefulClose", 2, 1), J(".", "VX_C02_CloseThenLoss", 1), J(".", "VX_C02_CloseThenLoss", 0),
				J(".", "VX_C08_CloseTwoPending", 0), J(".", "VX_C08_CloseTwoPending", 1), J(".", "VX_C02_CallDuringClose", 1, 0), J(".", "VX_C02_CallDuringClose", 0, 1),
				J(".", "VX_C08_CloseHandlerNeedsTraffic", 0), J(".", "VX_C08_CloseHandlerNeedsTraffic", 1), J(".", "VX_C07_CloseWaitsThenLoss", 0),
				J(".", "VX_C08_OverlappingClose", 0), J(".", "VX_C08_OverlappingClose", 1), J(".", "VX_C08_OverlappingClose", 2), J(".", "VX_C08_PeerCloseAfterRedial", 0), J(".", "VX_C08_PeerCloseAfterRedial", 1), J(".", "VX_C08_CloseDuringLaunch")}
			js = append(js, historyJobs(tier, true)...)
			// the parked handler ends with an error status / a panic
			js = append(js, J(".", "VX_Session_History", 3, -1, 1), J(".", "VX_Session_History", 3, -1, 2))
			if tier == "thorough" {
				js = append(js, J(".", "VX_Session_History", 5, -1, 1), J(".", "VX_Session_History", 5, -1, 2))
			}
			if tier == "thorough" {
				js = append(js, J(".", "VX_C08_GracefulClose", 0, 3), J(".", "VX_C08_GracefulClose", 1, 3), J(".", "VX_C08_GracefulClose", 2, 0))
			}
			return js
		},
		assumptions: rootAssume,
		explanation: "the real Close/closeLocked, wait groups, read loop, readDisconnected, handleCall/writeReply and session.write are executed with a handler that is entered and blocked, a local Close in progress and (variant) the reader reaching EOF meanwhile; the order of the reply write and the socket close is observed on the scripted connection",
		bounds:      "1 in-flight handler, 1 outstanding call, scripted interleavings (3 variants); handler durations finite; also: two outstanding calls answered one by one during Close, a handler that pushes or awaits a nested reply during Close, overlapping Close calls (session/session, peer/session), Close waiting while the connection is lost, session histories of 4 (quick) / 6 (thorough) events; rounds 5-6: Peer.Close with a running handler on a redialled session (default and custom id)",
	})
	registerCheck(&checkSpec{
		id: "C01", dirs: []string{"socket", ".", "proto/thriftproto"}, level: "other",
		jobs: func(tier string) []job {
			js := []job{
				J("socket", "VX_C01_BodyStableAcrossFrames", 2, 1, 0, 0), J("socket", "VX_C01_BodyStableAcrossFrames", 1, 2, 1, 0), J("socket", "VX_C01_BodyStableAcrossFrames", 2, 2, 0, 1),
				J(".", "VX_C02_Replies", 0, 1, 0, 1, 0, 0, 1), J(".", "VX_C02_Replies", 0, 1, 1, 2, 0, 0, 0),
				J(".", "VX_C03_Frame", 1, 0, 0, 0, 0, 0, 2, 1), J(".", "VX_C03_Frame", 3, 0, 0, 0, 0, 0, 2, 0),
				J("socket", "VX_C20_Message", 1, 1, 3, 1),
				J(".", "VX_C01_ConcurrentCalls", 1, 1),
				J(".", "VX_C01_MetaAcrossRequests", 0, 1), J(".", "VX_C01_MetaAcrossRequests", 1, 1), J(".", "VX_C01_MetaAcrossRequests", 0, 1, 1), J(".", "VX_C01_MetaAcrossRequests", 1, 2, 1), J(".", "VX_C10_RealRoutes", 1),
				J(".", "VX_C01_CtrlOverlap", 1, 1), J(".", "VX_C01_CtrlOverlap", 0, 1),
				J(".", "VX_C01_TwoSessionsSameSeq", 0, 1), J(".", "VX_C01_TwoSessionsSameSeq", 1, 1), J(".", "VX_C01_SeqAcrossRedial", 2), J(".", "VX_C01_SeqAcrossRedial", 3),
				J("socket", "VX_C01_OverlappingPacks", 0, 1), J("socket", "VX_C01_OverlappingPacks", 1, 1), J("socket", "VX_C01_OverlappingPacks", 2, 0), J("socket", "VX_C01_OverlappingPacks", 3, 1), J("socket", "VX_C01_OverlappingPacks", 4, 1),
				J("proto/thriftproto", "VX_C01_ThriftMetaSeq", 0),
			}
			js = append(js, msgSeqJobs(tier)...)
			if tier == "thorough" {
				js = append(js, J("proto/thriftproto", "VX_C01_ThriftMetaSeq", 1), J("socket", "VX_C01_BodyStableAcrossFrames", 3, 3, 0, 9), J(".", "VX_C02_Replies", 0, 0, 1, 2, 0, 0, 1), J(".", "VX_C01_ConcurrentCalls", 2, 1), J(".", "VX_C01_MetaAcrossRequests", 0, 4, 0), J(".", "VX_C01_MetaAcrossRequests", 1, 4, 1))
			}
			return js
		},
		assumptions: rootAssume,
		explanation: "non-interference decomposed: (a) reply correlation by sequence number with two pending calls and a symbolic reply (real bindReply/handleReply), (b) a received body is not aliased to the pooled receive buffer of later frames (real raw Unpack, pooled buffers reused), (c) the handler sees exactly the frame's body and the reply carries the handler's result (real handle/handleCall), (d) recycled messages carry nothing over",
		bounds:      "2 pending calls, 2 frames, body <= 3 bytes; concurrency of writers and sequence allocation not yet covered (sequential schedules); also: requests over recycled contexts on the same / another session (CALL and PUSH), overlapping invocations of one struct controller built by the real RouteCall, two sessions with equal pending sequence numbers, message sequences of 3/4 solver-chosen kinds; rounds 5-6: two raw-protocol packs overlapping in time on two connections after each kind of failed pack (LIFO buffer pool); sequence numbers across a redial; round 7: four messages through one thrift-binary connection with every presence pattern of metadata",
	})
	registerCheck(&checkSpec{
		id: "C04", dirs: []string{"socket", ".", "proto/jsonproto", "proto/thriftproto", "proto/httproto", "mixer/websocket/pbSubProto", "mixer/websocket/jsonSubProto"}, level: "other",
		jobs: func(tier string) []job {
			js := []job{J("socket", "VX_C04_ResetLeavesSharedStatus", 1), J(".", "VX_C04_VetoOrder", 2, 0, 0), J(".", "VX_C04_VetoOrder", 0, 1, 0), J(".", "VX_C04_VetoOrder", 1, 0, 1), J(".", "VX_C04_VetoOrder", 2, 1, 1)}
			js = append(js, c02jobs("quick")[:8]...)
			for _, oc := range []int{0, 1, 2, 3, 4} {
				js = append(js, J(".", "VX_C03_Frame", 1, 0, 0, oc, 0, 0, 1, 0))
			}
			js = append(js, J(".", "VX_C03_Frame", 1, 1, 0, 0, 0, 0, 1, 0), J(".", "VX_C03_Frame", 1, 2, 0, 0, 0, 0, 1, 0), J(".", "VX_C03_Frame", 1, 1, 1, 0, 0, 0, 1, 0), J(".", "VX_C03_Frame", 1, 0, 0, 0, 2, 0, 1, 0))
			js = append(js, J(".", "VX_C03_Frame", 1, 0, 0, 5, 0, 0, 1, 0), J(".", "VX_C03_Frame", 1, 0, 0, 6, 0, 0, 1, 0), J(".", "VX_C03_Frame", 1, 0, 0, 0, 4, 0, 1, 0))
			js = append(js, msgSeqJobs(tier)...)
			js = append(js, J(".", "VX_C02_FastReply", 2, 0))
			// wire link over the other protocols
			js = append(js, J("proto/jsonproto", "VX_C05_JSONRoundTrip", 3, 1, 1), J("proto/jsonproto", "VX_C05_JSONRoundTrip", 3, 0, 1),
				J("mixer/websocket/pbSubProto", "VX_C04_WSPbStatus"), J("mixer/websocket/jsonSubProto", "VX_C04_WSJsonStatus"),
				J("proto/thriftproto", "VX_C05_ThriftBinary", 3, 2), J("proto/thriftproto", "VX_C04_ThriftBinarySeq", 1), J("proto/thriftproto", "VX_C05_ThriftStruct", 3, 1),
				J("socket", "VX_C05_RawLongFields", 256, 10), J("socket", "VX_C05_RawLongFields", 10, 256), J("socket", "VX_C05_RawLongFields", 300, 700), J("proto/httproto", "VX_C05_HTTPGzipStream", 100))
			if tier == "thorough" {
				js = append(js, c02jobs("thorough")...)
			}
			return js
		},
		assumptions: rootAssume,
		explanation: "three links on real code: server side (status of the reply as a function of handler outcome / framework rule), raw wire (status round trip, shared with C05), client side (callCmd status from the reply's status and the decode result); statuses symbolic",
		bounds:      "wire link over raw, json, thrift-binary (incl. four replies in sequence on one connection) and the two websocket sub-protocols; server/client links over raw; library body codecs excluded (decode failure is produced by an unregistered codec id or the nil codec); also: the http-style protocol with gzip, long statuses on the raw wire, panics carrying a *Status, reply-side vetoes, message sequences of 3/4 kinds; rounds 5-6: two plugins on one pre-handler hook, the first vetoing (global+global and global+route-level)",
	})
	c19jobs := func(tier string) []job {
		var js []job
		// realIP, backendMode, nBody, nMeta, replyMeta
		for _, a := range [][]int{{0, 0, 1, 1, 1}, {1, 0, 1, 0, 0}, {0, 1, 1, 0, 1}, {1, 1, 0, 1, 0}, {0, 2, 1, 0, 0}, {1, 2, 1, 1, 0}, {0, 0, 2, 0, 0, 0}, {0, 0, 1, 0, 1, 3}, {0, 0, 0, 0, 0, 2}} {
			js = append(js, J("plugin/proxy", "VX_C19_ProxyCall", a...))
		}
		for _, a := range [][]int{{0, 0, 1}, {1, 0, 1}, {0, 1, 1}, {1, 1, 0}} {
			js = append(js, J("plugin/proxy", "VX_C19_ProxyPush", a...))
		}
		js = append(js, J("plugin/proxy", "VX_C19_Sequence", 3), J("plugin/proxy", "VX_C19_PoolForwarderDown", 0), J("plugin/proxy", "VX_C19_PoolForwarderDown", 1), J("plugin/proxy", "VX_C19_OverlappingProxied", 2, 2), J("plugin/proxy", "VX_C19_OverlappingProxied", 3, 1), J("plugin/proxy", "VX_C19_OverlappingProxied", 1, 3))
		js = append(js, J("plugin/proxy", "VX_C19_RealIPAfterSetID", 0, 0), J("plugin/proxy", "VX_C19_RealIPAfterSetID", 1, 0), J("plugin/proxy", "VX_C19_RealIPAfterSetID", 0, 1), J("plugin/proxy", "VX_C19_BackendLoss", 0, 0), J("plugin/proxy", "VX_C19_BackendLoss", 1, 0), J("plugin/proxy", "VX_C19_BackendLoss", 0, 1), J("plugin/proxy", "VX_C19_BackendLoss", 1, 1))
		if tier == "thorough" {
			js = append(js, J("plugin/proxy", "VX_C19_Sequence", 4))
			js = append(js, J("plugin/proxy", "VX_C19_ProxyCall", 0, 0, 3, 1, 1), J("plugin/proxy", "VX_C19_ProxyCall", 1, 1, 2, 1, 1), J("plugin/proxy", "VX_C19_ProxyPush", 0, 0, 3))
		}
		return js
	}
	registerCheck(&checkSpec{
		id: "C19", dirs: []string{"plugin/proxy"}, level: "other", jobs: c19jobs,
		assumptions: append(append([]string{}, rootAssume...), "the backend is played at wire level by the harness on a scripted connection of a real client session (the forwarder is a real erpc.Session)"),
		explanation: "real proxy.call/push, PostNewPeer, unknown-handler binding, handleCall, and a real forwarding session are executed; the forwarded frame and the reply to the caller are parsed from the scripted connections and compared with the request / the backend's reply (symbolic body, status code, metadata values)",
		bounds:      "body <= 3 bytes, one extra metadata pair each way, status code any int32, backend OK / error / closed; also: reply bodies shorter/longer than the request incl. empty, sequences of 3 (quick) / 4 (thorough) proxied calls with solver-chosen backend outcomes; rounds 5-6: forwarder = dialled redial-enabled session losing its connection before/after the forwarded call; caller session with an application id",
	})
	registerCheck(&checkSpec{
		id: "C15", dirs: []string{".", "plugin/proxy", "proto/httproto"}, level: "other",
		jobs: func(tier string) []job {
			js := []job{J(".", "VX_C02_Replies", 1, 1, 0, 2, 0, 9, 0), J(".", "VX_C02_Replies", 1, 1, 0, 2, 0, 3, 0), J(".", "VX_C02_Replies", 0, 1, 1, 1, 0, 0, 0), J(".", "VX_C02_CloseThenLoss", 0),
				J(".", "VX_C03_Frame", 1, 1, 0, 0, 0, 0, 1, 0), J(".", "VX_C03_Frame", 1, 0, 0, 2, 0, 0, 1, 0), J(".", "VX_C03_Frame", 1, 0, 0, 3, 0, 2, 1, 0), J(".", "VX_C03_Frame", 9, 0, 0, 0, 0, 0, 1, 0), J(".", "VX_C03_Frame", 1, 2, 0, 0, 0, 1, 1, 0)}
			// framework-produced replies (404/400/500/veto) whose write fails with a transport error and is retried
			js = append(js, J(".", "VX_C03_Frame", 1, 1, 0, 0, 0, 2, 1, 0), J(".", "VX_C03_Frame", 1, 2, 0, 0, 0, 2, 1, 0), J(".", "VX_C03_Frame", 1, 0, 0, 2, 0, 2, 1, 0), J(".", "VX_C03_Frame", 1, 0, 0, 1, 0, 2, 1, 0), J(".", "VX_C03_Frame", 1, 0, 0, 0, 2, 2, 1, 0), J(".", "VX_C03_Frame", 1, 1, 0, 0, 0, 1, 1, 0))
			js = append(js, c19jobs("quick")...)
			js = append(js, msgSeqJobs(tier)...)
			js = append(js, J(".", "VX_C15_WriteFailedCauses", 0), J(".", "VX_C15_WriteFailedCauses", 1), J("proto/httproto", "VX_C15_HTTPStrayReply", 0))
			for k := 0; k < 10; k++ {
				js = append(js, J(".", "VX_C15_Constructors", k, 0))
			}
			js = append(js, J(".", "VX_C15_Constructors", 0, 1), J(".", "VX_C15_Constructors", 1, 2),
				J(".", "VX_C15_StatusThroughPreSession", 0, 0), J(".", "VX_C15_StatusThroughPreSession", 1, 0), J(".", "VX_C15_StatusThroughPreSession", 0, 1), J(".", "VX_C15_StatusThroughPreSession", 1, 1), J(".", "VX_C15_StatusThroughPreSession", 2, 0))
			if tier == "thorough" {
				js = append(js, c02jobs("thorough")...)
			}
			return js
		},
		assumptions: rootAssume,
		explanation: "every predefined status is snapshotted before and compared after the operation in each harness of the failure paths (connection loss with and without read error, cancelled calls, 404/400/500/405 replies, write failures, proxy failures): any in-place change of a shared status is an assertion failure",
		bounds:      "one failing operation per path from the post-initialisation state; user plugins excluded; also: framework replies whose write fails and is retried, Write-Failed causes of different context failures in sequence, message sequences of 3/4 kinds; rounds 5-6: NewStatusByCodeText for the ten framework codes (nil cause / cause / stack tag) customised by the caller; stray and duplicate 299 replies over the http protocol",
	})
	registerCheck(&checkSpec{
		id: "C07", dirs: []string{"."}, level: "other",
		jobs: func(tier string) []job {
			js := []job{J(".", "VX_C07_History", 1), J(".", "VX_C07_History", 2), J(".", "VX_C07_History", 3), J(".", "VX_C07_History", 4), J(".", "VX_C07_History", 3, 1),
				J(".", "VX_C07_AcceptHooks", 0, 0), J(".", "VX_C07_AcceptHooks", 1, 0), J(".", "VX_C07_AcceptHooks", 0, 1), J(".", "VX_C07_AcceptHooks", 1, 1),
				J(".", "VX_C07_CloseRace", 1), J(".", "VX_C07_CloseRace", 2), J(".", "VX_C07_ModifySocket", 0), J(".", "VX_C07_ModifySocket", 1), J(".", "VX_C07_ModifySocket", 1, 1), J(".", "VX_C07_ModifySocket", 0, 1),
				J(".", "VX_C07_DialHooks", 0), J(".", "VX_C07_DialHooks", 1), J(".", "VX_C07_DialHooks", 2), J(".", "VX_C07_DialHooks", 0, 1), J(".", "VX_C07_DialHooks", 1, 1), J(".", "VX_C07_DialHooks", 2, 1), J(".", "VX_C07_CloseWaitsThenLoss", 0)}
			js = append(js, historyJobs(tier, false)...)
			js = append(js, J(".", "VX_C07_NoHandlerAfterClose", 0), J(".", "VX_C07_NoHandlerAfterClose", 1),
				J(".", "VX_C07_HandlerAwaitsCloseNotify", 0), J(".", "VX_C07_HandlerAwaitsCloseNotify", 1),
				J(".", "VX_C07_LostWhileEstablishing", 0, 1), J(".", "VX_C07_LostWhileEstablishing", 1, 1), J(".", "VX_C07_LostWhileEstablishing", 0, 2))
			if tier == "thorough" {
				js = append(js, J(".", "VX_C07_History", 5), J(".", "VX_C07_History", 4, 1))
			}
			return js
		},
		assumptions: rootAssume,
		explanation: "solver-chosen histories over {accept, SetID (fresh or colliding id), local close, remote close, traffic} on up to 3 sessions through the real ServeConn/newSession/SetID/SessionHub/Close/closeLocked/readDisconnected/write; after every step the index, health, close notification, fail-fast behaviour and disconnect-hook count are compared with a reference model kept by the harness; accept hooks that rename and/or reject",
		bounds:      "histories of length <= 4 (quick) / 5 (thorough), <= 3 sessions, id alphabet of 2; quiescent points only (no concurrent close/EOF races); also: Dial with solver-chosen outcome of every attempt and hook verdict (budget 0-2), ModifySocket, reader parked inside a frame while Close completes, Close waiting for a handler while the connection is lost, session histories of 4/5 events",
	})
	registerCheck(&checkSpec{
		id: "C09", dirs: []string{"."}, level: "other",
		jobs: func(tier string) []job {
			var js []job
			add := func(a ...int) { js = append(js, J(".", "VX_C09_Hooks", a...)) }
			// nLeft, spareCap, nRight, depth, handlerPlugins, target, late, veto
			add(0, 0, 0, 0, 0, 0, 0, 0)
			add(2, 0, 1, 1, 1, 0, 0, 0)
			add(2, 1, 0, 0, 1, 0, 0, 0)
			add(2, 1, 1, 2, 1, 0, 0, 0)
			add(2, 1, 1, 2, 1, 1, 0, 0)
			add(1, 0, 1, 1, 1, 1, 1, 0)
			add(1, 1, 0, 2, 1, 0, 2, 0)
			add(2, 0, 1, 1, 1, 0, 0, 1)
			add(1, 1, 0, 0, 1, 1, 1, 1)
			js = append(js, J(".", "VX_C09_ClientHooks", 0, 0), J(".", "VX_C09_ClientHooks", 0, 1), J(".", "VX_C09_ClientHooks", 1, 0), J(".", "VX_C09_ClientHooks", 1, 1))
			js = append(js, J(".", "VX_C09_SiblingGroups", 0, 1), J(".", "VX_C09_SiblingGroups", 1, 1), J(".", "VX_C09_SiblingGroups", 2, 1), J(".", "VX_C09_SiblingGroups", 3, 1), J(".", "VX_C09_SiblingGroups", 4, 1), J(".", "VX_C09_SiblingGroups", 1, 2), J(".", "VX_C09_SiblingGroups", 2, 2), J(".", "VX_C09_SiblingGroups", 1, 3),
				J(".", "VX_C04_VetoOrder", 2, 0, 0), J(".", "VX_C04_VetoOrder", 0, 1, 0), J(".", "VX_C04_VetoOrder", 1, 0, 1))
			js = append(js, J(".", "VX_C09_RedialRetry", 0), J(".", "VX_C09_RedialRetry", 1), J(".", "VX_C09_ReplyDuringPostWrite"),
				J(".", "VX_C03_Frame", 1, 0, 0, 3, 0, 0, 1, 0), J(".", "VX_C03_Frame", 1, 0, 0, 2, 0, 0, 1, 0), J(".", "VX_C03_Frame", 1, 0, 0, 0, 0, 2, 1, 0), J(".", "VX_C03_Frame", 1, 0, 0, 0, 0, 0, 1, 1))
			// veto statuses through the general frame harness (incl. code 405)
			for vs := 1; vs <= 3; vs++ {
				js = append(js, J(".", "VX_C03_Frame", 1, 0, 0, 0, vs, 0, 1, 0))
			}
			if tier == "thorough" {
				for nl := 0; nl <= 2; nl++ {
					for sp := 0; sp <= 1; sp++ {
						for d := 0; d <= 2; d++ {
							for tg := 0; tg <= 1; tg++ {
								for lt := 0; lt <= 2; lt++ {
									add(nl, sp, 1, d, 1, tg, lt, 1)
									add(nl, sp, 0, d, 1-tg, tg, lt, 0)
								}
							}
						}
					}
				}
			}
			return js
		},
		assumptions: rootAssume,
		explanation: "plugin containers are built by the real AppendLeft/AppendRight/SubRoute/reg/cloneAndAppendMiddle/refresh code (slice growth modelled exactly as runtime.growslice, so aliasing of backing arrays is reproduced); one CALL to one of two sibling routes with a solver-chosen vetoing (plugin, stage) and symbolic veto status; the recorded hook trace must be a subsequence of the documented order restricted to global + matched chain",
		bounds:      "<= 2 global-left, <= 1 global-right (+1 appended late), group depth <= 2, 2 sibling routes with handler-level plugins; hooks that do not fire are not demanded (upper bound only); also: message retried after a redial, reply readable during the post-write hooks, hooks at most once per stage on the fallback-reply path; rounds 5-6: chains of nested groups (depth 0-4, 1-3 plugins per level) ending in two sibling groups",
	})
	registerCheck(&checkSpec{
		id: "C10", dirs: []string{"."}, level: "other",
		jobs: func(tier string) []job {
			js := []job{J(".", "VX_C10_MapperTable"), J(".", "VX_C10_MapperSymbolic", 0, 0), J(".", "VX_C10_MapperSymbolic", 1, 1), J(".", "VX_C10_MapperSymbolic", 2, 1), J(".", "VX_C10_MapperSymbolic", 3, 0), J(".", "VX_C10_MapperSymbolic", 3, 2)}
			for _, d := range []int{-1, 0, 1} {
				js = append(js, J(".", "VX_C10_Lookup", d, 0, 0), J(".", "VX_C10_Lookup", d, 1, 0), J(".", "VX_C10_Lookup", d, 0, 1))
			}
			for m := 0; m <= 3; m++ {
				js = append(js, J(".", "VX_C10_Conflict", m))
			}
			js = append(js, J(".", "VX_C10_RealRoutes", 1), J(".", "VX_C10_SubRoutePush", 0), J(".", "VX_C10_SubRoutePush", 1), J(".", "VX_C10_UnknownAfterSession"), J(".", "VX_C10_NestedGroups", 1), J(".", "VX_C09_SiblingGroups", 3, 1), J(".", "VX_C09_SiblingGroups", 1, 2))
			for k := 0; k <= 1; k++ {
				for c := 0; c <= 2; c++ {
					js = append(js, J(".", "VX_C10_RewrittenName", k, c))
				}
			}
			if tier == "thorough" {
				js = append(js, J(".", "VX_C10_MapperSymbolic", 4, 1), J(".", "VX_C10_MapperSymbolic", 5, 0), J(".", "VX_C10_MapperSymbolic", 6, 2))
			}
			return js
		},
		assumptions: append(append([]string{}, rootAssume...), "identifiers are ASCII [A-Za-z0-9_]; reflection-based extraction of methods from controller structs (makeCallHandlersFromStruct etc.) is not executed: registration is checked from SubRouter.reg downward", "erpc.Fatalf ends the path (it exits the process)"),
		explanation: "the real mappers (toServiceMethods, goutil.SnakeString, strings.Replace/ToLower/Trim, path.Join) are executed on symbolic identifiers; the real reg/getCall/getPush/bindCall/bindPush with symbolic requested names (map lookup forks on byte-wise equality with the registered keys); conflicts must reach Fatalf",
		bounds:      "identifiers <= 3 (quick) / 6 (thorough) bytes, 3 registrations, requested name length within +-1 of a registered name; also: one struct controller (3 methods), one function handler and one push controller through the real reflection builders; push registration under an early sub-router; unknown-handler (re)installed after a session exists; rounds 5-6: nested groups two levels deep with sibling groups sharing the inner prefix",
	})
	registerCheck(&checkSpec{
		id: "C16", dirs: []string{"plugin/auth", "."}, level: "other",
		jobs: func(tier string) []job {
			var js []job
			add := func(a ...int) { js = append(js, J("plugin/auth", "VX_C16_Auth", a...)) }
			// first, nBytes, pipelined, otherPluginAfter[, setID]
			js = append(js, J(".", "VX_C16_ListenerOncePerConn", 2, 0), J(".", "VX_C16_ListenerOncePerConn", 2, 1), J(".", "VX_C16_ListenerOncePerConn", 3, -1))
			add(0, 0, 1, 1)
			add(0, 0, 1, 0)
			add(1, 0, 1, 1)
			add(1, 0, 0, 0)
			add(2, 0, 1, 1)
			add(4, 0, 0, 1)
			add(1, 0, 1, 0, 0, 0, 0, 1) // the checker is installed at run time after an earlier connection was accepted
			add(0, 0, 1, 1, 0, 0, 0, 1)
			add(2, 0, 1, 0, 0, 0, 0, 1)
			add(0, 0, 1, 1, 1) // the verifier names the session (SetID) before deciding
			add(1, 0, 0, 0, 1)
			add(4, 0, 0, 1, 1)
			add(1, 0, 1, 1, 0, 1) // verifier that receives again after a failed receive
			add(2, 0, 1, 0, 0, 1)
			add(4, 0, 0, 1, 0, 1)
			add(3, 4, 0, 1, 0, 1)
			add(0, 0, 1, 1, 0, 0, 1) // a verifier that panics on what it rejects
			add(1, 0, 1, 0, 0, 0, 1)
			add(4, 0, 0, 1, 0, 0, 1)
			for _, n := range []int{1, 3, 4, 5, 6} {
				add(3, n, 0, 1)
			}
			if tier == "thorough" {
				for n := 7; n <= 8; n++ {
					add(3, n, 0, 1)
				}
				add(2, 0, 1, 0)
			}
			return js
		},
		assumptions: append(append([]string{}, rootAssume...), "canonical checker (calls RecvOnce once, compares a one-byte token); handlers are the unknown-call/unknown-push handlers (no reflection-based routes)"),
		explanation: "the real ServeConn, newSession, postAccept, auth checker PostAccept, PreReceive/PreSend and raw Unpack are executed on a scripted connection whose first bytes are an AUTH_CALL with symbolic token, a CALL, a frame of symbolic type, an arbitrary symbolic byte string or nothing, optionally followed by pipelined CALL/PUSH frames; handler and per-message hook counters must stay zero unless authentication succeeded",
		bounds:      "first frame / <= 6 (quick) 8 (thorough) arbitrary bytes (message size limit 24 for that case), 2 pipelined frames, one other accept plugin before or after the checker; also: a verifier that names the session (SetID) before deciding, a verifier that receives again after a failed receive; rounds 5-6: the real accept loop with 2-3 queued connections; a verifier that panics on what it rejects",
	})
	registerCheck(&checkSpec{
		id: "C18", dirs: []string{"plugin/overloader"}, level: "other",
		jobs: func(tier string) []job {
			js := []job{J("plugin/overloader", "VX_C18_ConnHistory", 1, 3, 0), J("plugin/overloader", "VX_C18_ConnHistory", 1, 3, 1), J("plugin/overloader", "VX_C18_ConnHistory", 2, 4, 0),
				J("plugin/overloader", "VX_C18_ConnRace", 1), J("plugin/overloader", "VX_C18_ConnRace", 2),
				J("plugin/overloader", "VX_C18_QPS", 2, 3), J("plugin/overloader", "VX_C18_QPS", 1, 1), J("plugin/overloader", "VX_C18_QPSSession", 1, 3, 0), J("plugin/overloader", "VX_C18_QPSSession", 2, 3, 1), J("plugin/overloader", "VX_C18_QPSRace", 1, 1, 1, 2), J("plugin/overloader", "VX_C18_QPSRace", 2, 2, 3, 2),
				J("plugin/overloader", "VX_C18_QPSInvariant", 4), J("plugin/overloader", "VX_C18_SlotAfterCloseAndLoss", 1), J("plugin/overloader", "VX_C18_LimitHistory", 4), J("plugin/overloader", "VX_C18_SlotWhileClosing", 1), J("plugin/overloader", "VX_C18_SlotWhileClosing", 2), J("plugin/overloader", "VX_C18_SlotAfterCloseAndLoss", 2),
				J("plugin/overloader", "VX_C18_QPSSession", 1, 3, 0, 1), J("plugin/overloader", "VX_C18_QPSSession", 2, 3, 1, 1),
				J("plugin/overloader", "VX_C18_HandlerQPS", 1, 3, 0), J("plugin/overloader", "VX_C18_HandlerQPS", 2, 3, 2), J("plugin/overloader", "VX_C18_HandlerQPS", 1, 3, 0, 1), J("plugin/overloader", "VX_C18_HandlerQPS", 2, 3, 2, 1), J("plugin/overloader", "VX_C18_UpdateLimits", 2, 1), J("plugin/overloader", "VX_C18_UpdateLimits", 3, 1), J("plugin/overloader", "VX_C18_UpdateLimits", 3, 2),
				J("plugin/overloader", "VX_C18_DialSide", 0), J("plugin/overloader", "VX_C18_DialSide", 1)}
			if tier == "thorough" {
				js = append(js, J("plugin/overloader", "VX_C18_LimitHistory", 5), J("plugin/overloader", "VX_C18_QPSInvariant", 7), J("plugin/overloader", "VX_C18_ConnHistory", 2, 5, 1), J("plugin/overloader", "VX_C18_ConnHistory", 1, 5, 1), J("plugin/overloader", "VX_C18_QPSRace", 3, 3, 4, 2))
			}
			return js
		},
		assumptions: append(append([]string{}, rootAssume...), "time.Ticker never fires by itself: refill ticks are explicit calls of updateToken", "concurrency harnesses explore all schedules with <= 2 pre-emptions at sync/atomic operations (sequentially consistent)"),
		explanation: "connection limit: solver-chosen histories of accepted/rejected/closed connections through the real ServeConn + overloader hooks; races: two concurrent PostAccept for the last slot and k concurrent take() against one refill tick explored over all schedules with <= 2 pre-emptions (schedule choices are decisions of the symbolic execution); rate limit: sequential take/refill arithmetic",
		bounds:      "N <= 2, histories <= 4 (quick) / 5 (incl. histories that switch the limit off, to 1 and to 2 at run time; a session being closed while its handler runs), 2 racing accepts, <= 5 takers + 1 tick, <= 2 pre-emptions; also: rate limit through a session with another header plugin after the overloader, inductive bucket step (limit <= 1000, 4 interval choices, 4/7 solver-chosen take/tick steps), per-handler limits, run-time lowering of the connection limit, slot accounting after Close+loss; rounds 5-6: per-handler limits for pushes",
	})
	registerCheck(&checkSpec{
		id: "C13", dirs: []string{"."}, level: "other",
		jobs: func(tier string) []job {
			js := []job{J(".", "VX_C13_Redial", 1, 0, 1), J(".", "VX_C13_Redial", 1, 1, 0), J(".", "VX_C13_Redial", 2, 0, 0), J(".", "VX_C13_Redial", 2, 1, 1), J(".", "VX_C13_Redial", 1, 2, 1), J(".", "VX_C13_Redial", 9, 0, 0),
				J(".", "VX_C13_LossWhileLaunching", 1, 1), J(".", "VX_C13_LossWhileLaunching", 1, 0), J(".", "VX_C13_LossWhileLaunching", 2, 1),
				J(".", "VX_C13_TwoOutages", 2, 2), J(".", "VX_C13_TwoOutages", 1, 3), J(".", "VX_C13_TwoOutages", 3, 2), J(".", "VX_C13_TwoOutages", 2, 1, 1), J(".", "VX_C13_TwoOutages", 3, 2, 1)}
			if tier == "thorough" {
				js = append(js, J(".", "VX_C13_Redial", 9, 0, 1), J(".", "VX_C13_Redial", 2, 0, 1), J(".", "VX_C13_Redial", 1, 0, 0))
			}
			return js
		},
		assumptions: append(append([]string{}, rootAssume...), "dial hook (overlay H-dial): one line inserted at the top of Dialer.dialOne of the current /repo/dialer.go consults a harness hook; each dial attempt's outcome and each redial hook verdict is a solver variable; redial intervals (time.Sleep) are no-ops; unlimited budget capped at 8 attempts"),
		explanation: "the real peer.Dial (redial closure), redialForClient, dialWithRetry, redialCounter, readDisconnected, write and AsyncCall retry loops are executed; connection loss while a call is in flight; every dial attempt outcome and hook verdict symbolic (forked); no-hang is a scheduler-level check (a blocked goroutine with no runnable one is a violation)",
		bounds:      "redial budget 1, 2 (and unlimited capped at 8 attempts in thorough); one loss, one later call; sequential schedules; also: unlimited budget explored up to 8 attempts, loss while a call is inside its pre/post-write hook, two or three outages each using the whole budget; rounds 5-6: a call after the redial budget is exhausted must return (a retry loop that never ends is reported as a hang when the native run does not finish)",
	})
	registerCheck(&checkSpec{
		id: "C17", dirs: []string{"plugin/secure", "."}, level: "other",
		jobs: func(tier string) []job {
			var js []job
			for mark := 0; mark <= 1; mark++ {
				for acc := 0; acc <= 2; acc++ {
					js = append(js, J("plugin/secure", "VX_C17_Call", mark, acc, 1, 1))
				}
			}
			js = append(js, J("plugin/secure", "VX_C17_Call", 1, 0, 0, 1), J("plugin/secure", "VX_C17_Call", 0, 0, 0, 1), J("plugin/secure", "VX_C17_Call", 1, 1, 1, 0), J("plugin/secure", "VX_C17_Call", 1, 0, 0, 0), J("plugin/secure", "VX_C17_Call", 1, 0, 1, 1, 0, 0, 1), J("plugin/secure", "VX_C17_Call", 0, 1, 1, 1, 0, 0, 1), J("plugin/secure", "VX_C17_Call", 0, 0, 1, 1, 0, 0, 1), J("plugin/secure", "VX_C17_Call", 1, 1, 0, 1, 0, 0, 1), J("plugin/secure", "VX_C17_Call", 0, 1, 0, 0), J("plugin/secure", "VX_C17_Push", 1, 0, 0),
				J("plugin/secure", "VX_C17_Push", 1, 1, 1), J("plugin/secure", "VX_C17_Push", 0, 1, 1), J("plugin/secure", "VX_C17_Push", 1, 0, 1),
				J("plugin/secure", "VX_C17_PushRedial", 0, 1), J("plugin/secure", "VX_C17_PushRedial", 1, 1),
				J("plugin/secure", "VX_C17_Call", 1, 0, 0, 1, 1), J("plugin/secure", "VX_C17_Call", 0, 1, 0, 1, 1), J("plugin/secure", "VX_C17_Call", 0, 1, 0, 1, 0), J("plugin/secure", "VX_C17_Call", 1, 1, 1, 1, 1),
				J("plugin/secure", "VX_C17_Call", 1, 0, 1, 1, 0, 1), J("plugin/secure", "VX_C17_Call", 0, 1, 1, 1, 0, 1), J("plugin/secure", "VX_C17_Call", 1, 1, 1, 1, 1, 1),
				J("plugin/secure", "VX_C17_Push", 1, 0, 1, 1), J("plugin/secure", "VX_C17_Push", 1, 1, 1, 1),
				J("plugin/secure", "VX_C17_Sequence", 1, 1, 1), J("plugin/secure", "VX_C17_Sequence", 0, 1, 1), J("plugin/secure", "VX_C17_Sequence", 1, 0, 1), J("plugin/secure", "VX_C17_Sequence", 0, 0, 1), J("plugin/secure", "VX_C17_TypedArgMismatch", 0), J("plugin/secure", "VX_C17_TypedArgMismatch", 1),
				J("plugin/secure", "VX_C17_RouteLevel", 0, 1, 1), J("plugin/secure", "VX_C17_RouteLevel", 1, 1, 1), J("plugin/secure", "VX_C17_RouteLevel", 2, 1, 0), J("plugin/secure", "VX_C17_RouteLevel", 0, 0, 1))
			if tier == "thorough" {
				js = append(js, J("plugin/secure", "VX_C17_Call", 1, 0, 1, 3), J("plugin/secure", "VX_C17_Call", 1, 1, 0, 3), J("plugin/secure", "VX_C17_Push", 1, 1, 3), J("plugin/secure", "VX_C17_PushRedial", 0, 3))
			}
			return js
		},
		assumptions: append(append([]string{}, rootAssume...), "stub S-AES: goutil.AESEncrypt yields fresh ciphertext symbols (hex alphabet) unrelated to the plaintext; AESDecrypt of exactly those symbols with the same key returns the plaintext, with another key an error; 'not in clear on the wire' is structural (no byte of the written frame depends on a plaintext symbol)", "stub S-HASH: MD5 of the (concrete) key computed natively", "envelope marshalled by the gogo-generated Encrypt.Marshal/Unmarshal (interpreted) through the protobuf body codec; arguments/results are raw byte slices"),
		explanation: "the nine hooks of the secure plugin and the surrounding real AsyncCall/Push/bindCall/handleCall/bindReply/handleReply plumbing are executed on two peers whose frames the harness carries between scripted connections; marker matrix (secure x accept-secure), same/different key, push during redial",
		bounds:      "bodies <= 3 bytes; one call/push per path; AES and MD5 internals outside the claim; also: another plugin registered after the secure plugin, wrong key in the reply direction, handler reporting success with an explicit OK status, secure call followed by an unmarked call with/without session swap data; rounds 5-6: secure plugin on a route group next to sibling groups (three creation orders); typed handler argument that does not fit the decrypted body",
	})
	registerCheck(&checkSpec{
		id: "C11", dirs: []string{"codec"}, level: "other",
		jobs: func(tier string) []job {
			var js []job
			for k := 0; k <= 9; k++ {
				n := 1
				if tier == "thorough" {
					n = 3
				}
				js = append(js, J("codec", "VX_C11_PlainRoundTrip", k, n))
			}
			js = append(js, J("codec", "VX_C11_PlainRoundTrip", 0, 0), J("codec", "VX_C11_PlainRoundTrip", 2, 0))
			for k := 0; k <= 7; k++ {
				js = append(js, J("codec", "VX_C11_PlainGarbage", k, 2))
			}
			js = append(js, J("codec", "VX_C11_PlainGarbage", 5, 0), J("codec", "VX_C11_PlainGarbage", 4, 1),
				J("codec", "VX_C11_PlainReuse", 3, 1), J("codec", "VX_C11_PlainReuse", 2, 0), J("codec", "VX_C11_PlainReuse", 1, 2),
				J("codec", "VX_C11_FormRoundTrip", 0, 1, 0), J("codec", "VX_C11_FormRoundTrip", 1, 1, 2), J("codec", "VX_C11_FormRoundTrip", 1, 0, 3), J("codec", "VX_C11_FormRoundTrip", 2, 1, 0), J("codec", "VX_C11_FormRoundTrip", 3, 1, 1),
				J("codec", "VX_C11_FormTwoTypes", 0), J("codec", "VX_C11_FormTwoTypes", 1), J("codec", "VX_C11_FormIndependent", 1), J("codec", "VX_C11_FormIndependent", 3), J("codec", "VX_C11_FormGarbage", 1, 1), J("codec", "VX_C11_FormGarbage", 1, 2), J("codec", "VX_C11_FormGarbage", 1, 3), J("codec", "VX_C11_FormGarbage", 0, 2), J("codec", "VX_C11_FormGarbage", 0, 3),
				J("codec", "VX_C11_ThriftRoundTrip", 2), J("codec", "VX_C11_ThriftGarbage", 4), J("codec", "VX_C11_ThriftGarbage", 6),
				J("codec", "VX_C11_PlainWindow", 4, 6, 0), J("codec", "VX_C11_PlainWindow", 4, 3, 0), J("codec", "VX_C11_PlainWindow", 0, 2, 0), J("codec", "VX_C11_PlainWindow", 4, 6, 1),
				J("codec", "VX_C11_EncodingsIndependent", 0, 1), J("codec", "VX_C11_EncodingsIndependent", 1, 1), J("codec", "VX_C11_EncodingsIndependent", 2, 1),
				J("codec", "VX_C11_JSONGeneric", 0, 0), J("codec", "VX_C11_JSONGeneric", 1, 0), J("codec", "VX_C11_JSONGeneric", 2, 0), J("codec", "VX_C11_JSONGeneric", 3, 0), J("codec", "VX_C11_JSONGeneric", 0, 1), J("codec", "VX_C11_JSONGeneric", 1, 1))
			if tier == "thorough" {
				js = append(js, J("codec", "VX_C11_PlainGarbage", 5, 4), J("codec", "VX_C11_PlainGarbage", 0, 4), J("codec", "VX_C11_FormGarbage", 0, 4), J("codec", "VX_C11_FormRoundTrip", 0, 2, 0))
			}
			return js
		},
		assumptions: append(append([]string{}, stdAssumptions...), "reflect is the engine's model (types from go/types; addressable values; the subset used by the plain and form codecs)", "json, xml and protobuf codecs are three-line delegations to reflection/table-driven library encoders and are outside the claim; the thrift codec is executed (apache thrift TBinaryProtocol interpreted) on a hand-written TStruct (string + i32); floats excluded"),
		explanation: "the real PlainCodec and FormCodec (formatProperType/parseProperType, setStructToForm/mapFormToStruct/setWithProperType, url.Values.Encode/url.ParseQuery interpreted) are executed on symbolic values and on arbitrary symbolic input bytes; round trip incl. element order, no panic leaving the codec, and independence of the decoded value from the input buffer are SMT-checked assertions",
		bounds:      "plain: string/named string/[]byte/named bytes (<= 1-3 bytes), bool, int8/32/64, uint8/64; form: struct with string/int8/bool/[]string(<=3)/[2]string/nested struct, one symbolic field group per instance; arbitrary input <= 3 (quick) / 4 bytes; also: thrift codec on a hand-written TStruct (string + i32), encodings unaffected by later encodings (plain/form/thrift), byte-slice destinations that are windows of larger buffers; rounds 5-6: JSON codec on four generic documents (objects, arrays, nesting, with and without numbers) into *interface{} and *map/*[]interface{} through the host-JSON bridge (S-JSON-G)",
	})
	registerCheck(&checkSpec{
		id: "C14", dirs: []string{"."}, level: "other",
		jobs: func(tier string) []job {
			var js []job
			for sc := 0; sc <= 6; sc++ {
				js = append(js, J(".", "VX_C14_Races", sc, 0))
			}
			js = append(js, J(".", "VX_C14_Races", 0, 1), J(".", "VX_C14_Races", 4, 1), J(".", "VX_C14_Races", 14, 0), J(".", "VX_C14_Races", 15, 0), J(".", "VX_C14_Races", 16, 0))
			js = append(js, J(".", "VX_C14_DisconnectWhileLaunching", 0), J(".", "VX_C14_DisconnectWhileLaunching", 1), J(".", "VX_C14_DisconnectWhileLaunching", 0, 1), J(".", "VX_C14_DisconnectWhileLaunching", 1, 2))
			js = append(js, J(".", "VX_C14_Races", 7, 0), J(".", "VX_C14_Races", 8, 0), J(".", "VX_C14_Races", 7, 1), J(".", "VX_C14_Races", 8, 1), J(".", "VX_C14_Races", 9, 0), J(".", "VX_C14_Races", 10, 0), J(".", "VX_C14_Races", 11, 0), J(".", "VX_C14_Races", 12, 0), J(".", "VX_C14_Races", 13, 0))
			if tier == "thorough" {
				for sc := 1; sc <= 6; sc++ {
					js = append(js, J(".", "VX_C14_Races", sc, 1))
				}
			}
			return js
		},
		assumptions: append(append([]string{}, rootAssume...), "race = two conflicting plain accesses (or a plain and an atomic access) to the same memory cell or Go map, not ordered by happens-before built from: mutex/rwmutex unlock->lock, atomic operations per cell, channel send->receive and close->receive, WaitGroup Done->Wait, goroutine start, sync.Map/goutil.Map and sync.Pool operations; accesses made by harness code are not reported", "races inside stubbed libraries (thrift, websocket, net/http) and in the thrift protocol's byte counters are outside the claim"),
		explanation: "documented-concurrent operations (swap access, id change vs lookup/enumeration, concurrent calls with reply delivery, push vs reply write vs close, age setters/getters, double close, call vs remote close) run in separate interpreted goroutines of the real code with a vector-clock happens-before race detector over every interpreted load/store/map access; detection is per execution and schedule-independent for the executed paths; selected scenarios additionally explored over schedules with one pre-emption",
		bounds:      "7 scenarios of 2-3 goroutines plus a call being launched (inside its pre-write hook) while the reader handles the loss of the connection; run-to-block schedule (+ all schedules with 1 pre-emption for listed scenarios); sequentially consistent execution; also: two concurrent id changes, re-asserting the current id vs changing it, two enumerations at once, loss while a call is inside its post-write hook; rounds 5-6: reply metadata read while later replies arrive; raw pushes from two goroutines after a failed pre-session call",
	})
}

// historyJobs: solver-chosen session histories with a reference model
// (assertions tagged per property).
func historyJobs(tier string, deep bool) []job {
	if tier != "thorough" {
		return []job{J(".", "VX_Session_History", 4)}
	}
	if !deep {
		return []job{J(".", "VX_Session_History", 5)}
	}
	var js []job
	for _, first := range []int{0, 1, 2, 3, 4, 7, 8} { // (a reply or a handler release cannot be the first event)
		js = append(js, J(".", "VX_Session_History", 6, first))
	}
	return js
}

// msgSeqJobs: solver-chosen sequences of message kinds on one session with LIFO
// pools; each message must come out as on a fresh session (history independence).
func msgSeqJobs(tier string) []job {
	if tier != "thorough" {
		return []job{J(".", "VX_Message_Sequence", 3)}
	}
	var js []job
	for first := 0; first <= 8; first++ {
		js = append(js, J(".", "VX_Message_Sequence", 4, first))
	}
	return js
}
