package main

// Registry of property checks: which harness instances (harness x shape
// vector) make up the quick and thorough tier of each property.

var stdAssumptions = []string{
	"sequentially consistent memory; cooperative scheduling of interpreted goroutines",
	"sizes/lengths of inputs are concrete per harness instance (shape vector); contents are symbolic",
	"SMT solver z3 5.1.0 (z3-new) is sound for QF_BV; any unknown/timeout/error makes the run inconclusive",
	"package init of runtime/os/net/crypto/reflect/time/sync is not executed (intrinsics replace what the code needs from them)",
	"fmt.Sprintf/Errorf are evaluated natively on concrete arguments (message text with symbolic arguments is approximate)",
	"logging (Debugf/Infof/Warnf/Errorf/Printf/Tracef) has no effect",
}

func init() {
	registerCheck(&checkSpec{
		id:    "C05",
		dirs:  []string{"socket"},
		level: "other",
		jobs: func(tier string) []job {
			var js []job
			js = append(js, J("socket", "VX_Smoke_Minus"))
			// nMethod, nBody, nMetaPairs, nMetaKV, statusMode, nStatusStr, seqMode(0 symbolic int32, 1 symbolic byte, else concrete)
			shapes := [][]int{
				{0, 0, 0, 0, 0, 0, 77}, {1, 1, 0, 0, 0, 0, 0}, {2, 2, 0, 0, 0, 0, -5}, {2, 1, 1, 1, 0, 0, 2147483647},
				{0, 1, 1, 0, 0, 0, 1}, {0, 0, 0, 0, 1, 1, 9}, {1, 0, 2, 1, 0, 0, -2147483648}, {0, 0, 0, 0, 1, 0, 3},
			}
			if tier == "thorough" {
				shapes = append(shapes, [][]int{{3, 3, 0, 0, 0, 0, 0}, {0, 4, 0, 0, 0, 0, 5}, {1, 0, 2, 2, 0, 0, 7}, {0, 0, 0, 0, 1, 2, 11}, {2, 0, 1, 2, 0, 0, 1}, {0, 0, 3, 1, 0, 0, 2}}...)
			}
			for _, a := range shapes {
				js = append(js, J("socket", "VX_C05_RawRoundTrip", a...))
			}
			// pipeCode1, pipeCode2, nBody, nCuts, bufSize
			streams := [][]int{{9, 2, 1, 1, 0}, {27, 0, 1, 1, 16}, {0, 0, 2, 1, 0}}
			if tier == "thorough" {
				streams = append(streams, [][]int{{9, 2, 1, 2, 0}, {27, 6, 2, 2, 16}, {1, 39, 1, 2, 16}}...)
			}
			for _, a := range streams {
				js = append(js, J("socket", "VX_C05_RawStream", a...))
			}
			js = append(js, J("socket", "VX_C05_RawSizeIndependent", 1, 2), J("socket", "VX_C05_RawSizeIndependent", 3, 0))
			return js
		},
		assumptions: append(append([]string{}, stdAssumptions...), "strconv Format/Parse of SYMBOLIC integers are summarised by the round-trip contract (stub S-STRCONV); concrete integers run the real strconv code"),
		explanation: "symbolic execution of the real raw-protocol Pack/Unpack code (go/ssa rebuilt from /repo) with symbolic field contents and solver-chosen short-read positions; each vxAssert is an SMT query (unsat = holds for all values of the symbolic bytes within the shape)",
		bounds:      "raw protocol only so far; method<=3 bytes, body<=4, meta<=3 pairs of <=2-byte key/value, status msg/cause<=2 bytes, seq symbolic int32 or samples incl. extremes, two frames with <=2 short reads at any offset, transfer pipes of <=3 filters",
	})
	registerCheck(&checkSpec{
		id:    "C06",
		dirs:  []string{"socket"},
		level: "other",
		jobs: func(tier string) []job {
			var js []job
			ns := []int{0, 1, 3, 4, 5, 6, 8}
			if tier == "thorough" {
				ns = []int{0, 1, 2, 3, 4, 5, 6, 7, 8, 9, 10, 12}
			}
			for _, n := range ns {
				js = append(js, J("socket", "VX_C06_RawUnpackBytes", n, 24))
			}
			js = append(js, J("socket", "VX_C06_RawOversize", 24, 2), J("socket", "VX_C06_RawOversize", 100, 0))
			return js
		},
		assumptions: stdAssumptions,
		explanation: "the real raw-protocol Unpack is executed on a fully symbolic byte stream (every byte a solver variable) of each listed length followed by EOF; the engine checks every make([]byte,n) reached against the configured limit (n is a solver term), termination (instruction budget = unwinding assertion), and that a well-formed frame still decodes afterwards",
		bounds:      "raw protocol parser; stream length <= 8 (quick) / 12 (thorough) bytes; limit 24; other protocols' parsers and the session read loop not yet covered",
	})
	registerCheck(&checkSpec{
		id:    "C12",
		dirs:  []string{"socket"},
		level: "other",
		jobs: func(tier string) []job {
			js := []job{J("socket", "VX_C12_PipeInverts", 0, 2), J("socket", "VX_C12_PipeInverts", 1, 2), J("socket", "VX_C12_PipeInverts", 2, 2),
				J("socket", "VX_C12_PipeOnWire", 1, 1), J("socket", "VX_C12_PipeOnWire", 2, 1), J("socket", "VX_C12_Unregistered"), J("socket", "VX_C12_TooLong")}
			if tier == "thorough" {
				js = append(js, J("socket", "VX_C12_PipeInverts", 3, 4), J("socket", "VX_C12_PipeInverts", 4, 1), J("socket", "VX_C12_PipeOnWire", 3, 2))
			}
			return js
		},
		assumptions: append(append([]string{}, stdAssumptions...), "filters are three harness-defined invertible, mutually non-commuting filters; the shipped gzip/md5 filters wrap library code (compress/gzip, crypto/md5) outside reach"),
		explanation: "the real xfer.XferPipe (Append/IDs/OnPack/OnUnpack/check) and the raw protocol's pipe transport are executed symbolically; pipe = solver-chosen sequence of filter ids, payload symbolic",
		bounds:      "pipes of length <= 2 (quick) / 4 (thorough) over 3 filters with repeats, payload <= 4 bytes, 255/256 boundary concrete",
	})
	registerCheck(&checkSpec{
		id:    "C20",
		dirs:  []string{"socket"},
		level: "other",
		jobs: func(tier string) []job {
			js := []job{
				J("socket", "VX_C20_Message", 1, 1, 0, 1), J("socket", "VX_C20_Message", 1, 1, 1, 1), J("socket", "VX_C20_Message", 1, 1, 2, 0), J("socket", "VX_C20_Message", 1, 1, 3, 1),
				J("socket", "VX_C20_Args", 1, 1, 1), J("socket", "VX_C20_Args", 2, 1, 1), J("socket", "VX_C20_XferPipe", 2), J("socket", "VX_C20_ByteBuffer", 2, 1),
			}
			if tier == "thorough" {
				js = append(js, J("socket", "VX_C20_Message", 2, 1, 0, 2), J("socket", "VX_C20_Message", 2, 2, 3, 2), J("socket", "VX_C20_Args", 2, 1, 2), J("socket", "VX_C20_Args", 1, 2, 3))
			}
			return js
		},
		assumptions: append(append([]string{}, stdAssumptions...), "sync.Pool hands back the most recently released object (the case the property is about); Pool's own behaviour is outside the claim"),
		explanation: "differential symbolic execution: an object dirtied with symbolic field values is released, re-acquired from the pool and compared field by field and by its packed bytes with a freshly constructed one, before and after a solver-chosen next use",
		bounds:      "message, utils.Args, xfer.XferPipe, utils.ByteBuffer so far (handler contexts and sockets need the root package harness); dirty strings <= 2 bytes, <= 2 metadata pairs, next-use wire input <= 3 bytes",
	})
}
