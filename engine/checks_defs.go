package main

// Registry of property checks: which harness instances (harness x shape
// vector) make up the quick and thorough tier of each property.

var stdAssumptions = []string{
	"sequentially consistent memory; cooperative scheduling of interpreted goroutines",
	"sizes/lengths of inputs are concrete per harness instance (shape vector); contents are symbolic",
	"SMT solver z3 5.1.0 (z3-new) is sound for QF_BV; any unknown/timeout/error makes the run inconclusive",
	"package init of runtime/os/net/crypto/reflect/time/sync is not executed (intrinsics replace what the code needs from them)",
	"fmt.Sprintf/Errorf are evaluated natively on concrete arguments (message text with symbolic arguments is approximate)",
	"logging (Debugf/Infof/Warnf/Errorf/Printf/Tracef) has no effect",
}

func init() {
	registerCheck(&checkSpec{
		id:    "C05",
		dirs:  []string{"socket"},
		level: "other",
		jobs: func(tier string) []job {
			var js []job
			js = append(js, J("socket", "VX_Smoke_Minus"))
			// nMethod, nBody, nMetaPairs, nMetaKV, statusMode, nStatusStr, seq
			for _, a := range [][]int{
				{0, 0, 0, 0, 0, 0, 77}, {1, 1, 0, 0, 0, 0, 77}, {2, 2, 0, 0, 0, 0, -5}, {2, 1, 1, 1, 0, 0, 2147483647},
				{0, 1, 1, 0, 0, 0, 1}, {1, 0, 2, 1, 0, 0, -2147483648},
			} {
				js = append(js, J("socket", "VX_C05_RawRoundTrip", a...))
			}
			return js
		},
		assumptions: stdAssumptions,
		explanation: "symbolic execution of the real Pack/Unpack code (go/ssa rebuilt from /repo) with symbolic field contents; each vxAssert is an SMT query (unsat = holds for all values of the symbolic bytes within the shape)",
		bounds:      "see harness instance list: method<=2 bytes, body<=2 bytes, meta<=2 pairs of <=1-byte key/value, concrete seq samples",
	})
}
