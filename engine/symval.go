package main

// Symbolic scalars and symbolic/aliasing strings layered on the boxed value
// representation of ssa/interp.

import (
	"fmt"
	"go/token"
	"go/types"
)

// sym is a symbolic bool or integer of basic kind k.
type sym struct {
	t *Term
	k types.BasicKind
}

// symstr is a string whose bytes live in b (elements are uint8 or sym of
// kind Uint8). It is used when a byte is symbolic or when the string aliases
// a byte slice (zero-copy casts).
type symstr struct {
	b []value
}

func kindWidth(k types.BasicKind) int {
	switch k {
	case types.Bool, types.UntypedBool:
		return 0
	case types.Int8, types.Uint8:
		return 8
	case types.Int16, types.Uint16:
		return 16
	case types.Int32, types.Uint32, types.UntypedRune:
		return 32
	case types.Int, types.Uint, types.Int64, types.Uint64, types.Uintptr, types.UntypedInt:
		return 64
	}
	panic(fmt.Sprintf("kindWidth: %v", k))
}

func kindSigned(k types.BasicKind) bool {
	switch k {
	case types.Int, types.Int8, types.Int16, types.Int32, types.Int64, types.UntypedInt, types.UntypedRune:
		return true
	}
	return false
}

func isIntKind(k types.BasicKind) bool {
	switch k {
	case types.Int, types.Int8, types.Int16, types.Int32, types.Int64,
		types.Uint, types.Uint8, types.Uint16, types.Uint32, types.Uint64, types.Uintptr,
		types.UntypedInt, types.UntypedRune:
		return true
	}
	return false
}

// intBits returns the bit pattern and kind of a concrete integer/bool value.
func intBits(v value) (uint64, types.BasicKind, bool) {
	switch x := v.(type) {
	case bool:
		if x {
			return 1, types.Bool, true
		}
		return 0, types.Bool, true
	case int:
		return uint64(x), types.Int, true
	case int8:
		return uint64(uint8(x)), types.Int8, true
	case int16:
		return uint64(uint16(x)), types.Int16, true
	case int32:
		return uint64(uint32(x)), types.Int32, true
	case int64:
		return uint64(x), types.Int64, true
	case uint:
		return uint64(x), types.Uint, true
	case uint8:
		return uint64(x), types.Uint8, true
	case uint16:
		return uint64(x), types.Uint16, true
	case uint32:
		return uint64(x), types.Uint32, true
	case uint64:
		return x, types.Uint64, true
	case uintptr:
		return uint64(x), types.Uintptr, true
	}
	return 0, 0, false
}

func fromBits(k types.BasicKind, u uint64) value {
	switch k {
	case types.Bool, types.UntypedBool:
		return u&1 == 1
	case types.Int, types.UntypedInt:
		return int(u)
	case types.Int8:
		return int8(u)
	case types.Int16:
		return int16(u)
	case types.Int32, types.UntypedRune:
		return int32(u)
	case types.Int64:
		return int64(u)
	case types.Uint:
		return uint(u)
	case types.Uint8:
		return uint8(u)
	case types.Uint16:
		return uint16(u)
	case types.Uint32:
		return uint32(u)
	case types.Uint64:
		return u
	case types.Uintptr:
		return uintptr(u)
	}
	panic(fmt.Sprintf("fromBits: %v", k))
}

func isSym(v value) bool {
	_, ok := v.(sym)
	return ok
}

// termOf returns the term of a bool/integer value (concrete or symbolic).
func (i *interpreter) termOf(v value) (*Term, types.BasicKind) {
	if s, ok := v.(sym); ok {
		return s.t, s.k
	}
	u, k, ok := intBits(v)
	if !ok {
		panic(engineError(fmt.Sprintf("termOf: not a scalar: %T", v)))
	}
	if k == types.Bool {
		return i.tc.Bool(u == 1), k
	}
	return i.tc.Const(kindWidth(k), u), k
}

// mkVal wraps a term as a value of kind k, folding constants to concrete.
func mkVal(t *Term, k types.BasicKind) value {
	switch t.op {
	case "true":
		return true
	case "false":
		return false
	case "const":
		return fromBits(k, t.k)
	}
	return sym{t, k}
}

func basicKindOf(t types.Type) (types.BasicKind, bool) {
	if b, ok := t.Underlying().(*types.Basic); ok {
		k := b.Kind()
		if k == types.Bool || k == types.UntypedBool || isIntKind(k) {
			return k, true
		}
	}
	return 0, false
}

// symBinop implements binary operators when at least one operand is symbolic.
func (i *interpreter) symBinop(op token.Token, x, y value) value {
	tx, kx := i.termOf(x)
	tc := i.tc
	// shifts: operand kinds differ
	if op == token.SHL || op == token.SHR {
		ty, ky := i.termOf(y)
		w := tx.w
		// negative shift count panics
		if kindSigned(ky) {
			neg := tc.Cmp("bvslt", ty, tc.Const(ty.w, 0))
			if i.decide(neg, "shift<0") {
				panic(targetRuntimeError("negative shift amount"))
			}
		}
		// normalise count to width w, saturating
		var cnt *Term
		if ty.w > w {
			big := tc.Cmp("bvule", tc.Const(ty.w, uint64(w)), ty)
			cnt = tc.Ite(big, tc.Const(w, uint64(w)), tc.Extract(w-1, 0, ty))
		} else {
			cnt = tc.ZExt(w, ty)
		}
		var r *Term
		if op == token.SHL {
			r = tc.BV("bvshl", tx, cnt)
		} else if kindSigned(kx) {
			r = tc.BV("bvashr", tx, cnt)
		} else {
			r = tc.BV("bvlshr", tx, cnt)
		}
		return mkVal(r, kx)
	}
	ty, _ := i.termOf(y)
	if tx.w != ty.w {
		panic(engineError(fmt.Sprintf("symBinop %s: width mismatch %d/%d", op, tx.w, ty.w)))
	}
	signed := kindSigned(kx)
	if tx.w == 0 {
		switch op {
		case token.EQL:
			return mkVal(tc.Iff(tx, ty), types.Bool)
		case token.NEQ:
			return mkVal(tc.Not(tc.Iff(tx, ty)), types.Bool)
		case token.AND, token.LAND:
			return mkVal(tc.And(tx, ty), types.Bool)
		case token.OR, token.LOR:
			return mkVal(tc.Or(tx, ty), types.Bool)
		}
		panic(engineError("symBinop bool op " + op.String()))
	}
	cmp := func(s, u string, swap, neg bool) value {
		o := u
		if signed {
			o = s
		}
		a, b := tx, ty
		if swap {
			a, b = b, a
		}
		r := tc.Cmp(o, a, b)
		if neg {
			r = tc.Not(r)
		}
		return mkVal(r, types.Bool)
	}
	switch op {
	case token.ADD:
		return mkVal(tc.BV("bvadd", tx, ty), kx)
	case token.SUB:
		return mkVal(tc.BV("bvsub", tx, ty), kx)
	case token.MUL:
		return mkVal(tc.BV("bvmul", tx, ty), kx)
	case token.QUO, token.REM:
		zero := tc.Cmp("=", ty, tc.Const(ty.w, 0))
		if i.decide(zero, "div0") {
			panic(targetRuntimeError("integer divide by zero"))
		}
		var o string
		switch {
		case op == token.QUO && signed:
			o = "bvsdiv"
		case op == token.QUO:
			o = "bvudiv"
		case signed:
			o = "bvsrem"
		default:
			o = "bvurem"
		}
		return mkVal(tc.BV(o, tx, ty), kx)
	case token.AND:
		return mkVal(tc.BV("bvand", tx, ty), kx)
	case token.OR:
		return mkVal(tc.BV("bvor", tx, ty), kx)
	case token.XOR:
		return mkVal(tc.BV("bvxor", tx, ty), kx)
	case token.AND_NOT:
		return mkVal(tc.BV("bvand", tx, tc.Not(ty)), kx)
	case token.EQL:
		return mkVal(tc.Cmp("=", tx, ty), types.Bool)
	case token.NEQ:
		return mkVal(tc.Not(tc.Cmp("=", tx, ty)), types.Bool)
	case token.LSS:
		return cmp("bvslt", "bvult", false, false)
	case token.LEQ:
		return cmp("bvsle", "bvule", false, false)
	case token.GTR:
		return cmp("bvslt", "bvult", true, false)
	case token.GEQ:
		return cmp("bvsle", "bvule", true, false)
	}
	panic(engineError("symBinop: unsupported op " + op.String()))
}

// symConv converts symbolic scalar x to destination kind.
func (i *interpreter) symConv(dst types.BasicKind, x sym) value {
	if dst == types.Bool || x.k == types.Bool {
		if dst == x.k {
			return x
		}
		panic(engineError("symConv bool/int"))
	}
	if !isIntKind(dst) {
		panic(unsupported(fmt.Sprintf("conversion of symbolic %v to kind %v", x.k, dst)))
	}
	wd := kindWidth(dst)
	var t *Term
	switch {
	case wd <= x.t.w:
		t = i.tc.Extract(wd-1, 0, x.t)
	case kindSigned(x.k):
		t = i.tc.SExt(wd, x.t)
	default:
		t = i.tc.ZExt(wd, x.t)
	}
	return mkVal(t, dst)
}

// ---------------------------------------------------------------- strings

func isStr(v value) bool {
	switch v.(type) {
	case string, *symstr:
		return true
	}
	return false
}

func strLen(v value) int {
	switch s := v.(type) {
	case string:
		return len(s)
	case *symstr:
		return len(s.b)
	}
	panic(engineError(fmt.Sprintf("strLen: %T", v)))
}

func strByte(v value, i int) value {
	switch s := v.(type) {
	case string:
		return s[i]
	case *symstr:
		return s.b[i]
	}
	panic(engineError(fmt.Sprintf("strByte: %T", v)))
}

// strBytesView returns the bytes of a string as []value without copying for
// symstr (callers must not mutate) and freshly built for string.
func strBytesView(v value) []value {
	switch s := v.(type) {
	case string:
		r := make([]value, len(s))
		for i := 0; i < len(s); i++ {
			r[i] = s[i]
		}
		return r
	case *symstr:
		return s.b
	}
	panic(engineError(fmt.Sprintf("strBytesView: %T", v)))
}

// concreteStr reports whether every byte of v is concrete, and its Go string.
func concreteStr(v value) (string, bool) {
	switch s := v.(type) {
	case string:
		return s, true
	case *symstr:
		b := make([]byte, len(s.b))
		for i, e := range s.b {
			c, ok := e.(uint8)
			if !ok {
				return "", false
			}
			b[i] = c
		}
		return string(b), true
	}
	return "", false
}

// bytesToStr copies b into a new string value (normalised to string when concrete).
func bytesToStr(b []value) value {
	buf := make([]byte, len(b))
	allc := true
	for i, e := range b {
		c, ok := e.(uint8)
		if !ok {
			allc = false
			break
		}
		buf[i] = c
	}
	if allc {
		return string(buf)
	}
	cp := make([]value, len(b))
	copy(cp, b)
	return &symstr{cp}
}

func strSlice(v value, lo, hi int) value {
	switch s := v.(type) {
	case string:
		return s[lo:hi]
	case *symstr:
		if lo < 0 || hi > len(s.b) || lo > hi {
			panic(targetRuntimeError(fmt.Sprintf("slice bounds out of range [%d:%d] with length %d", lo, hi, len(s.b))))
		}
		return &symstr{s.b[lo:hi:hi]}
	}
	panic(engineError("strSlice"))
}

func strConcat(a, b value) value {
	if x, ok := a.(string); ok {
		if y, ok := b.(string); ok {
			return x + y
		}
	}
	av, bv := strBytesView(a), strBytesView(b)
	r := make([]value, 0, len(av)+len(bv))
	r = append(r, av...)
	r = append(r, bv...)
	return bytesToStr(r)
}

// strEq returns a == b as bool or sym.
func (i *interpreter) strEq(a, b value) value {
	if x, ok := a.(string); ok {
		if y, ok := b.(string); ok {
			return x == y
		}
	}
	if strLen(a) != strLen(b) {
		return false
	}
	av, bv := strBytesView(a), strBytesView(b)
	acc := i.tc.tt
	for k := range av {
		ta, _ := i.termOf(av[k])
		tb, _ := i.termOf(bv[k])
		acc = i.tc.And(acc, i.tc.Cmp("=", ta, tb))
		if acc.op == "false" {
			return false
		}
	}
	return mkVal(acc, types.Bool)
}

// strLess returns a < b (lexicographic, bytewise) as bool or sym.
func (i *interpreter) strLess(a, b value) value {
	if x, ok := a.(string); ok {
		if y, ok := b.(string); ok {
			return x < y
		}
	}
	av, bv := strBytesView(a), strBytesView(b)
	n := len(av)
	if len(bv) < n {
		n = len(bv)
	}
	// result when common prefix equal
	res := i.tc.Bool(len(av) < len(bv))
	for k := n - 1; k >= 0; k-- {
		ta, _ := i.termOf(av[k])
		tb, _ := i.termOf(bv[k])
		res = i.tc.Ite(i.tc.Cmp("bvult", ta, tb), i.tc.tt, i.tc.Ite(i.tc.Cmp("=", ta, tb), res, i.tc.ff))
	}
	return mkVal(res, types.Bool)
}

// boolNot negates a bool or symbolic bool.
func (i *interpreter) boolNot(v value) value {
	if b, ok := v.(bool); ok {
		return !b
	}
	s := v.(sym)
	return mkVal(i.tc.Not(s.t), types.Bool)
}

func (i *interpreter) boolAnd(a, b value) value {
	ta, _ := i.termOf(a)
	tb, _ := i.termOf(b)
	return mkVal(i.tc.And(ta, tb), types.Bool)
}

// truth forces a (possibly symbolic) bool to a concrete one by forking.
func (i *interpreter) truth(v value, why string) bool {
	if b, ok := v.(bool); ok {
		return b
	}
	return i.decide(v.(sym).t, why)
}

// symStringer for diagnostics.
func (s sym) String() string { return fmt.Sprintf("sym<%v>%s", s.k, s.t) }
