package main

// Happens-before data-race detection (vector clocks) over the interpreted
// program's plain memory accesses, enabled by vxRaceDetect(true). Sync edges:
// mutex/rwmutex unlock->lock, atomic operations on a cell, channel send->recv
// and close->recv, WaitGroup Done->Wait, goroutine spawn, sync.Map / Pool
// operations. Accesses made by harness code (VX_* / vx*) are not reported.

import (
	"fmt"
	"strings"
)

type vclock []int

func (v vclock) get(t int) int {
	if t < len(v) {
		return v[t]
	}
	return 0
}

func (v *vclock) set(t, c int) {
	for len(*v) <= t {
		*v = append(*v, 0)
	}
	(*v)[t] = c
}

func (v *vclock) join(o vclock) {
	for t, c := range o {
		if c > v.get(t) {
			v.set(t, c)
		}
	}
}

func (v vclock) copy() vclock { return append(vclock{}, v...) }

type raccess struct {
	tid    int
	clk    int
	where  string
	atomic bool
	harness bool
}

type cellShadow struct {
	w     raccess
	hasW  bool
	reads []raccess
}

type raceState struct {
	on     bool
	shadow map[interface{}]*cellShadow
	sync   map[interface{}]vclock
	seen   map[string]bool
}

func newRaceState() *raceState {
	return &raceState{shadow: map[interface{}]*cellShadow{}, sync: map[interface{}]vclock{}, seen: map[string]bool{}}
}

func (i *interpreter) rcur() *thread { return i.sch.cur }

func (i *interpreter) tick(t *thread) { t.vc.set(t.id, t.vc.get(t.id)+1) }

// raceAcquire: the current thread synchronises with everything released on key.
func (i *interpreter) raceAcquire(key interface{}) {
	if i.race == nil || !i.race.on {
		return
	}
	t := i.rcur()
	if v, ok := i.race.sync[key]; ok {
		t.vc.join(v)
	}
}

// raceRelease publishes the current thread's clock on key (join = accumulate).
func (i *interpreter) raceRelease(key interface{}, join bool) {
	if i.race == nil || !i.race.on {
		return
	}
	t := i.rcur()
	if join {
		v := i.race.sync[key]
		v.join(t.vc)
		i.race.sync[key] = v
	} else {
		i.race.sync[key] = t.vc.copy()
	}
	i.tick(t)
}

func (i *interpreter) raceWhere() (string, bool) {
	t := i.rcur()
	if t == nil || t.fr == nil {
		return "?", true
	}
	fr := t.fr
	name := fr.fn.String()
	harness := strings.Contains(name, ".VX_") || strings.Contains(name, ".vx") || strings.Contains(name, ".newVx") || strings.Contains(name, "vxConn") || strings.Contains(name, "vxPlugin") || strings.Contains(name, "vxRoute")
	return fmt.Sprintf("%s (%s)", i.posStr(t.pos, fr.fn), name), harness
}

func (i *interpreter) raceAccess(key interface{}, write, atomic bool) {
	if i.race == nil || !i.race.on {
		return
	}
	t := i.rcur()
	if t == nil {
		return
	}
	where, harness := i.raceWhere()
	cur := raccess{tid: t.id, clk: t.vc.get(t.id), where: where, atomic: atomic, harness: harness}
	sh := i.race.shadow[key]
	if sh == nil {
		sh = &cellShadow{}
		i.race.shadow[key] = sh
	}
	conflict := func(prev raccess) {
		if prev.tid == cur.tid || (prev.atomic && cur.atomic) {
			return
		}
		if prev.clk <= t.vc.get(prev.tid) {
			return // happens-before
		}
		if prev.harness || cur.harness {
			return
		}
		a, b := prev.where, cur.where
		if a > b {
			a, b = b, a
		}
		k := a + " | " + b
		if i.race.seen[k] {
			return
		}
		i.race.seen[k] = true
		i.st.obligations++
		i.reportViolation("race", "data race between "+a+" and "+b, nil)
	}
	if sh.hasW {
		conflict(sh.w)
	}
	if write {
		for _, r := range sh.reads {
			conflict(r)
		}
		sh.w, sh.hasW = cur, true
		sh.reads = sh.reads[:0]
	} else {
		// keep one read per thread
		for k := range sh.reads {
			if sh.reads[k].tid == cur.tid {
				sh.reads[k] = cur
				return
			}
		}
		sh.reads = append(sh.reads, cur)
	}
}
