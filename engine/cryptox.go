package main

// Stubs S-AES / S-HASH: AES-ECB+hex of goutil and MD5 are not encodable within
// reach. Encryption of a (possibly symbolic) plaintext yields fresh ciphertext
// symbols unrelated to the plaintext; decryption with the same key of exactly
// those symbols returns the plaintext, with another key or of anything else an
// error. MD5 of a concrete input is computed natively.

import (
	"crypto/md5"
	"encoding/hex"
	"fmt"
	"go/types"
)

type aesRec struct {
	key   string
	ct    []*Term
	plain []value
}

func init() {
	externals["github.com/henrylee2cn/goutil.Md5"] = func(fr *frame, a []value) value {
		b, ok := concreteBytes(a[0].([]value))
		if !ok {
			panic(unsupported("MD5 of symbolic data"))
		}
		h := md5.Sum(b)
		return hex.EncodeToString(h[:])
	}
	externals["crypto/aes.NewCipher"] = func(fr *frame, a []value) value {
		n := len(a[0].([]value))
		if n == 16 || n == 24 || n == 32 {
			return tuple{iface{}, iface{}}
		}
		fn := fr.i.lookupFunc("errors", "New")
		return tuple{iface{}, call(fr.i, fr, 0, fn, []value{fmt.Sprintf("crypto/aes: invalid key size %d", n)})}
	}
	externals["github.com/henrylee2cn/goutil.AESEncrypt"] = func(fr *frame, a []value) value {
		i := fr.i
		key, ok := concreteBytes(a[0].([]value))
		if !ok {
			panic(unsupported("symbolic AES key"))
		}
		plain := append([]value{}, a[1].([]value)...)
		padded := len(plain) + (16 - len(plain)%16)
		rec := aesRec{key: string(key), plain: plain}
		out := make([]value, 2*padded)
		for k := range out {
			name := i.freshName(fmt.Sprintf("aes%d_%d", len(i.world.aesRecs), k))
			i.solver.declare(name, 8)
			t := i.tc.Var(name, 8)
			// hex alphabet
			isNum := i.tc.And(i.tc.Cmp("bvule", i.tc.Const(8, '0'), t), i.tc.Cmp("bvule", t, i.tc.Const(8, '9')))
			isAl := i.tc.And(i.tc.Cmp("bvule", i.tc.Const(8, 'a'), t), i.tc.Cmp("bvule", t, i.tc.Const(8, 'f')))
			i.addPC(i.tc.Or(isNum, isAl))
			rec.ct = append(rec.ct, t)
			out[k] = sym{t, types.Uint8}
		}
		i.world.aesRecs = append(i.world.aesRecs, rec)
		return out
	}
	externals["github.com/henrylee2cn/goutil.AESDecrypt"] = func(fr *frame, a []value) value {
		i := fr.i
		key, ok := concreteBytes(a[0].([]value))
		if !ok {
			panic(unsupported("symbolic AES key"))
		}
		ct := a[1].([]value)
		errf := func(msg string) value {
			fn := i.lookupFunc("errors", "New")
			return tuple{[]value(nil), call(i, fr, 0, fn, []value{msg})}
		}
		for _, rec := range i.world.aesRecs {
			if len(rec.ct) != len(ct) {
				continue
			}
			match := true
			for k := range ct {
				s, ok := ct[k].(sym)
				if !ok || s.t != rec.ct[k] {
					match = false
					break
				}
			}
			if !match {
				continue
			}
			if rec.key != string(key) {
				return errf("aes: decryption with a different key (stub: padding error)")
			}
			return tuple{append([]value{}, rec.plain...), iface{}}
		}
		if _, conc := concreteBytes(ct); conc {
			return errf("aes: unknown ciphertext (stub)")
		}
		panic(unsupported("AESDecrypt of a symbolic ciphertext that was not produced by AESEncrypt"))
	}
	vxFuncsExtra["vxMentions"] = func(fr *frame, a []value) value {
		// structural secrecy: does any byte of a[0] depend on a symbol of a[1]?
		secret := map[string]bool{}
		for _, b := range backing2(a[1]) {
			if s, ok := b.(sym); ok {
				collectVars(s.t, secret, map[int]bool{})
			}
		}
		if len(secret) == 0 {
			return false
		}
		for _, b := range backing2(a[0]) {
			if s, ok := b.(sym); ok {
				vs := map[string]bool{}
				collectVars(s.t, vs, map[int]bool{})
				for v := range vs {
					if secret[v] {
						return true
					}
				}
			}
		}
		return false
	}
}

var vxFuncsExtra = map[string]externalFn{}

func backing2(v value) []value {
	switch x := v.(type) {
	case []value:
		return x
	case *symstr:
		return x.b
	case string:
		return strBytesView(x)
	}
	return nil
}

func collectVars(t *Term, out map[string]bool, seen map[int]bool) {
	if seen[t.id] {
		return
	}
	seen[t.id] = true
	if t.op == "var" {
		out[t.name] = true
	}
	for _, a := range t.args {
		collectVars(a, out, seen)
	}
}

func concreteBytes(v []value) ([]byte, bool) {
	b := make([]byte, len(v))
	for k, e := range v {
		c, ok := e.(uint8)
		if !ok {
			return nil, false
		}
		b[k] = c
	}
	return b, true
}
