package main

// Stubs S-AES / S-HASH: AES-ECB+hex of goutil and MD5 are not encodable within
// reach. Encryption of a (possibly symbolic) plaintext yields fresh ciphertext
// symbols unrelated to the plaintext; decryption with the same key of exactly
// those symbols returns the plaintext, with another key or of anything else an
// error. MD5 of a concrete input is computed natively.

import (
	"crypto/md5"
	"encoding/hex"
	"fmt"
	"go/types"
)

type aesRec struct {
	key   string
	ct    []*Term
	plain []value
}

func init() {
	externals["github.com/henrylee2cn/goutil.Md5"] = func(fr *frame, a []value) value {
		b, ok := concreteBytes(a[0].([]value))
		if !ok {
			panic(unsupported("MD5 of symbolic data"))
		}
		h := md5.Sum(b)
		return hex.EncodeToString(h[:])
	}
	externals["crypto/aes.NewCipher"] = func(fr *frame, a []value) value {
		n := len(a[0].([]value))
		if n == 16 || n == 24 || n == 32 {
			return tuple{iface{}, iface{}}
		}
		fn := fr.i.lookupFunc("errors", "New")
		return tuple{iface{}, call(fr.i, fr, 0, fn, []value{fmt.Sprintf("crypto/aes: invalid key size %d", n)})}
	}
	externals["github.com/henrylee2cn/goutil.AESEncrypt"] = func(fr *frame, a []value) value {
		i := fr.i
		key, ok := concreteBytes(a[0].([]value))
		if !ok {
			panic(unsupported("symbolic AES key"))
		}
		plain := append([]value{}, a[1].([]value)...)
		padded := len(plain) + (16 - len(plain)%16)
		rec := aesRec{key: string(key), plain: plain}
		out := make([]value, 2*padded)
		for k := range out {
			name := i.freshName(fmt.Sprintf("aes%d_%d", len(i.world.aesRecs), k))
			i.solver.declare(name, 8)
			t := i.tc.Var(name, 8)
			// hex alphabet
			isNum := i.tc.And(i.tc.Cmp("bvule", i.tc.Const(8, '0'), t), i.tc.Cmp("bvule", t, i.tc.Const(8, '9')))
			isAl := i.tc.And(i.tc.Cmp("bvule", i.tc.Const(8, 'a'), t), i.tc.Cmp("bvule", t, i.tc.Const(8, 'f')))
			i.addPC(i.tc.Or(isNum, isAl))
			rec.ct = append(rec.ct, t)
			out[k] = sym{t, types.Uint8}
		}
		i.world.aesRecs = append(i.world.aesRecs, rec)
		return out
	}
	externals["github.com/henrylee2cn/goutil.AESDecrypt"] = func(fr *frame, a []value) value {
		i := fr.i
		key, ok := concreteBytes(a[0].([]value))
		if !ok {
			panic(unsupported("symbolic AES key"))
		}
		ct := a[1].([]value)
		errf := func(msg string) value {
			fn := i.lookupFunc("errors", "New")
			return tuple{[]value(nil), call(i, fr, 0, fn, []value{msg})}
		}
		for _, rec := range i.world.aesRecs {
			if len(rec.ct) != len(ct) {
				continue
			}
			match := true
			for k := range ct {
				s, ok := ct[k].(sym)
				if !ok || s.t != rec.ct[k] {
					match = false
					break
				}
			}
			if !match {
				continue
			}
			if rec.key != string(key) {
				return errf("aes: decryption with a different key (stub: padding error)")
			}
			return tuple{append([]value{}, rec.plain...), iface{}}
		}
		if _, conc := concreteBytes(ct); conc {
			return errf("aes: unknown ciphertext (stub)")
		}
		panic(unsupported("AESDecrypt of a symbolic ciphertext that was not produced by AESEncrypt"))
	}
	vxFuncsExtra["vxMentions"] = func(fr *frame, a []value) value {
		// structural secrecy: does any byte of a[0] depend on a symbol of a[1]?
		secret := map[string]bool{}
		for _, b := range backing2(a[1]) {
			if s, ok := b.(sym); ok {
				collectVars(s.t, secret, map[int]bool{})
			}
		}
		// literal containment (a secret with a concrete part of at least 4 bytes)
		nConc := 0
		for _, b := range backing2(a[1]) {
			if _, ok := b.(uint8); ok {
				nConc++
			}
		}
		if sb := backing2(a[1]); nConc >= 4 && len(sb) <= len(backing2(a[0])) {
			if k, ok := extIndexSub(fr, []value{append([]value{}, backing2(a[0])...), append([]value{}, sb...)}).(int); ok && k >= 0 {
				return true
			}
		}
		if len(secret) == 0 {
			return false
		}
		for _, b := range backing2(a[0]) {
			if s, ok := b.(sym); ok {
				vs := map[string]bool{}
				collectVars(s.t, vs, map[int]bool{})
				for v := range vs {
					if secret[v] {
						return true
					}
				}
			}
		}
		return false
	}
}

var vxFuncsExtra = map[string]externalFn{}

func backing2(v value) []value {
	switch x := v.(type) {
	case []value:
		return x
	case *symstr:
		return x.b
	case string:
		return strBytesView(x)
	}
	return nil
}

func collectVars(t *Term, out map[string]bool, seen map[int]bool) {
	if seen[t.id] {
		return
	}
	seen[t.id] = true
	if t.op == "var" {
		out[t.name] = true
	}
	for _, a := range t.args {
		collectVars(a, out, seen)
	}
}

func concreteBytes(v []value) ([]byte, bool) {
	b := make([]byte, len(v))
	for k, e := range v {
		c, ok := e.(uint8)
		if !ok {
			return nil, false
		}
		b[k] = c
	}
	return b, true
}

// ---- xfer/md5.getMd5 as an uninterpreted, collision-free function (stub S-HASH)

type md5Rec struct {
	in  []value
	out []value
}

func init() {
	externals["github.com/henrylee2cn/erpc/v6/xfer/md5.getMd5"] = func(fr *frame, a []value) value {
		i := fr.i
		src := append([]value{}, a[0].([]value)...)
		if b, ok := concreteBytes(src); ok {
			h := md5.Sum(b)
			out := make([]value, 16)
			for k := range out {
				out[k] = h[k]
			}
			i.md5Constrain(src, out)
			return tuple{out, iface{}}
		}
		// same input (syntactically) => same output
		for _, r := range i.world.md5Recs {
			if len(r.in) == len(src) {
				same := true
				for k := range src {
					if !sameScalar(r.in[k], src[k]) {
						same = false
						break
					}
				}
				if same {
					return tuple{append([]value{}, r.out...), iface{}}
				}
			}
		}
		out := make([]value, 16)
		for k := range out {
			name := i.freshName(fmt.Sprintf("md5_%d_%d", len(i.world.md5Recs), k))
			i.solver.declare(name, 8)
			out[k] = sym{i.tc.Var(name, 8), types.Uint8}
		}
		i.md5Constrain(src, out)
		return tuple{append([]value{}, out...), iface{}}
	}
}

func sameScalar(a, b value) bool {
	sa, oka := a.(sym)
	sb, okb := b.(sym)
	if oka && okb {
		return sa.t == sb.t
	}
	if oka || okb {
		return false
	}
	return a == b
}

// md5Constrain records (in,out) and asserts collision-freedom against every
// earlier record: equal digests imply equal inputs.
func (i *interpreter) md5Constrain(in, out []value) {
	eqBytes := func(x, y []value) *Term {
		if len(x) != len(y) {
			return i.tc.ff
		}
		acc := i.tc.tt
		for k := range x {
			tx, _ := i.termOf(x[k])
			ty, _ := i.termOf(y[k])
			acc = i.tc.And(acc, i.tc.Cmp("=", tx, ty))
		}
		return acc
	}
	for _, r := range i.world.md5Recs {
		eqOut := eqBytes(r.out, out)
		eqIn := eqBytes(r.in, in)
		i.addPC(i.tc.Or(i.tc.Not(eqOut), eqIn))
		// and the function is a function
		i.addPC(i.tc.Or(i.tc.Not(eqIn), eqOut))
	}
	i.world.md5Recs = append(i.world.md5Recs, md5Rec{in: in, out: out})
}
