package main

// Intrinsics: functions the engine implements itself instead of interpreting
// their SSA (body-less runtime/assembly functions, sync primitives modelled on
// the cooperative scheduler, environment stubs, and the vx* harness API).

import (
	"encoding/json"
	"fmt"
	"go/token"
	"go/types"
	"math"
	"os"
	"strings"

	"golang.org/x/tools/go/ssa"
)

type externalFn func(fr *frame, args []value) value

// sideState holds engine-side models keyed by the address of the Go object.
type sideState struct {
	mutex   map[*value]*mutexState
	rw      map[*value]*rwState
	wg      map[*value]*wgState
	pool    map[*value]*poolState
	smap    map[*value]*omap
	poolSeq []*value
}

type mutexState struct {
	locked bool
	owner  int
}
type rwState struct {
	writer  bool
	readers int
}
type wgState struct{ n int64 }
type poolState struct{ items []value }

func (s *sideState) clone() *sideState {
	c := newSideState()
	for k, v := range s.mutex {
		x := *v
		c.mutex[k] = &x
	}
	for k, v := range s.rw {
		x := *v
		c.rw[k] = &x
	}
	for k, v := range s.wg {
		x := *v
		c.wg[k] = &x
	}
	for k, v := range s.pool {
		c.pool[k] = &poolState{items: append([]value{}, v.items...)}
	}
	for k, v := range s.smap {
		c.smap[k] = v.clone()
	}
	return c
}

func newSideState() *sideState {
	return &sideState{
		mutex: map[*value]*mutexState{}, rw: map[*value]*rwState{}, wg: map[*value]*wgState{},
		pool: map[*value]*poolState{}, smap: map[*value]*omap{},
	}
}

// world holds per-path environment/harness state.
type world struct {
	poolMode int // 0 fresh, 1 LIFO reuse, 2 solver/engine choice
	now      int64
	timers   []*pendingTimer // AfterFunc timers (fired only by vxFireTimers)
	counters map[string]int
	fmtRecs  []fmtRec
	aesRecs  []aesRec
	md5Recs  []md5Rec
}

var anyType = types.NewInterfaceType(nil, nil).Complete()

var externals = map[string]externalFn{}

func (i *interpreter) findExternal(fn *ssa.Function) externalFn {
	name := fn.String()
	if ext := externals[name]; ext != nil {
		return ext
	}
	if fn.Pkg != nil && fn.Signature.Recv() == nil && strings.HasPrefix(fn.Name(), "vx") {
		if ext := vxFuncs[fn.Name()]; ext != nil {
			return ext
		}
		if ext := vxFuncsExtra[fn.Name()]; ext != nil {
			return ext
		}
		if fn.Blocks == nil {
			panic(engineError("unknown vx intrinsic " + fn.Name()))
		}
	}
	if ext := shapeExternal(fn); ext != nil {
		return ext
	}
	if fn.Pkg != nil {
		pp := fn.Pkg.Pkg.Path()
		// logging of the framework: arguments were evaluated, no effect
		if pp == "github.com/henrylee2cn/erpc/v6" && fn.Signature.Recv() == nil {
			switch fn.Name() {
			case "Printf", "Debugf", "Tracef", "Infof", "Noticef", "Warnf", "Errorf", "Criticalf", "EnablePrint", "EnableDebug":
				return extNop
			case "Fatalf", "Panicf":
				return func(fr *frame, args []value) value {
					fr.i.event("fatal")
					panic(pathAbort{"fatal", "erpc." + fn.Name() + ": " + toStringTrunc(args[0])})
				}
			}
		}
		if pp == "github.com/henrylee2cn/goutil" && fn.Name() == "PanicTrace" {
			return func(fr *frame, args []value) value { return []value{} }
		}
		if pp == "log" {
			return extNop
		}
	}
	return nil
}

func toStringTrunc(v value) string {
	s := toString(v)
	if len(s) > 200 {
		s = s[:200]
	}
	return s
}

func extNop(fr *frame, args []value) value { return nil }

func init() {
	for k, v := range map[string]externalFn{
		// ---- kept from ssa/interp
		"(reflect.Value).Bool":         ext۰reflect۰Value۰Bool,
		"(reflect.Value).CanAddr":      ext۰reflect۰Value۰CanAddr,
		"(reflect.Value).CanInterface": ext۰reflect۰Value۰CanInterface,
		"(reflect.Value).Elem":         ext۰reflect۰Value۰Elem,
		"(reflect.Value).Field":        ext۰reflect۰Value۰Field,
		"(reflect.Value).Float":        ext۰reflect۰Value۰Float,
		"(reflect.Value).Index":        ext۰reflect۰Value۰Index,
		"(reflect.Value).Int":          ext۰reflect۰Value۰Int,
		"(reflect.Value).Interface":    ext۰reflect۰Value۰Interface,
		"(reflect.Value).IsNil":        ext۰reflect۰Value۰IsNil,
		"(reflect.Value).IsValid":      ext۰reflect۰Value۰IsValid,
		"(reflect.Value).Kind":         ext۰reflect۰Value۰Kind,
		"(reflect.Value).Len":          ext۰reflect۰Value۰Len,
		"(reflect.Value).MapIndex":     ext۰reflect۰Value۰MapIndex,
		"(reflect.Value).MapKeys":      ext۰reflect۰Value۰MapKeys,
		"(reflect.Value).NumField":     ext۰reflect۰Value۰NumField,
		"(reflect.Value).NumMethod":    ext۰reflect۰Value۰NumMethod,
		"(reflect.Value).Pointer":      ext۰reflect۰Value۰Pointer,
		"(reflect.Value).Set":          ext۰reflect۰Value۰Set,
		"(reflect.Value).String":       ext۰reflect۰Value۰String,
		"(reflect.Value).Type":         ext۰reflect۰Value۰Type,
		"(reflect.Value).Uint":         ext۰reflect۰Value۰Uint,
		"(reflect.error).Error":        ext۰reflect۰error۰Error,
		"(reflect.rtype).Bits":         ext۰reflect۰rtype۰Bits,
		"(reflect.rtype).Elem":         ext۰reflect۰rtype۰Elem,
		"(reflect.rtype).Field":        ext۰reflect۰rtype۰Field,
		"(reflect.rtype).In":           ext۰reflect۰rtype۰In,
		"(reflect.rtype).Kind":         ext۰reflect۰rtype۰Kind,
		"(reflect.rtype).NumField":     ext۰reflect۰rtype۰NumField,
		"(reflect.rtype).NumIn":        ext۰reflect۰rtype۰NumIn,
		"(reflect.rtype).NumMethod":    ext۰reflect۰rtype۰NumMethod,
		"(reflect.rtype).NumOut":       ext۰reflect۰rtype۰NumOut,
		"(reflect.rtype).Out":          ext۰reflect۰rtype۰Out,
		"(reflect.rtype).Size":         ext۰reflect۰rtype۰Size,
		"(reflect.rtype).String":       ext۰reflect۰rtype۰String,
		"reflect.New":                  ext۰reflect۰New,
		"reflect.SliceOf":              ext۰reflect۰SliceOf,
		"encoding/json.Unmarshal":      extJSONUnmarshal,
		// the assembly block function of crypto/md5: run the package's own pure-Go blockGeneric
		"crypto/md5.block": func(fr *frame, a []value) value {
			return call(fr.i, fr, 0, fr.i.lookupFunc("crypto/md5", "blockGeneric"), a)
		},
		"reflect.PointerTo":            ext۰reflect۰PointerTo,
		"reflect.PtrTo":                ext۰reflect۰PointerTo,
		"reflect.TypeOf":               ext۰reflect۰TypeOf,
		"reflect.ValueOf":              ext۰reflect۰ValueOf,
		"reflect.Zero":                 ext۰reflect۰Zero,
		"math.Float32bits": func(fr *frame, a []value) value {
			if f, ok := a[0].(symFloat); ok {
				return f.bits
			}
			return math.Float32bits(a[0].(float32))
		},
		"math.Float32frombits": func(fr *frame, a []value) value {
			if s, ok := a[0].(sym); ok {
				return symFloat{s}
			}
			return math.Float32frombits(a[0].(uint32))
		},
		"math.Float64bits": func(fr *frame, a []value) value {
			if f, ok := a[0].(symFloat); ok {
				return f.bits
			}
			return math.Float64bits(a[0].(float64))
		},
		"math.Float64frombits": func(fr *frame, a []value) value {
			if s, ok := a[0].(sym); ok {
				return symFloat{s}
			}
			return math.Float64frombits(a[0].(uint64))
		},
		"math.Abs":                     func(fr *frame, a []value) value { return math.Abs(a[0].(float64)) },
		"math.Inf":                     func(fr *frame, a []value) value { return math.Inf(a[0].(int)) },
		"math.IsNaN":                   func(fr *frame, a []value) value { return math.IsNaN(a[0].(float64)) },
		"math.NaN":                     func(fr *frame, a []value) value { return math.NaN() },
		"math.Sqrt":                    func(fr *frame, a []value) value { return math.Sqrt(a[0].(float64)) },
		"math.Floor":                   func(fr *frame, a []value) value { return math.Floor(a[0].(float64)) },
		"math.archFloor":               func(fr *frame, a []value) value { return math.Floor(a[0].(float64)) },
		"math.Log":                     func(fr *frame, a []value) value { return math.Log(a[0].(float64)) },
		"math.Exp":                     func(fr *frame, a []value) value { return math.Exp(a[0].(float64)) },
		"math.Ldexp":                   func(fr *frame, a []value) value { return math.Ldexp(a[0].(float64), a[1].(int)) },
		"os.Getenv":                    func(fr *frame, a []value) value { return "" },
		"os.Getwd":                     func(fr *frame, a []value) value { return tuple{"/vx", iface{}} },
		"os.Getpid":                    func(fr *frame, a []value) value { return 4242 },
		"os.Hostname":                  func(fr *frame, a []value) value { return tuple{"vxhost", iface{}} },
		"os.Exit": func(fr *frame, a []value) value {
			fr.i.event("os.Exit")
			panic(pathAbort{"fatal", "os.Exit"})
		},

		// ---- runtime
		"runtime.GC":             extNop,
		"runtime.Gosched":        func(fr *frame, a []value) value { fr.i.yieldPoint("gosched"); return nil },
		"runtime.GOMAXPROCS":     func(fr *frame, a []value) value { return 1 },
		"runtime.NumCPU":         func(fr *frame, a []value) value { return 1 },
		"runtime.KeepAlive":      extNop,
		"runtime.SetFinalizer":   extNop,
		"runtime.Stack":          func(fr *frame, a []value) value { return 0 },
		"runtime.Caller":         func(fr *frame, a []value) value { return tuple{uintptr(0), "", 0, false} },
		"runtime.Callers":        func(fr *frame, a []value) value { return 0 },
		"runtime/debug.Stack":    func(fr *frame, a []value) value { return []value{} },
		"runtime.Goexit":         func(fr *frame, a []value) value { panic(unsupported("runtime.Goexit")) },
		"internal/race.Enable":   extNop,
		"internal/race.Disable":  extNop,
		"internal/race.Acquire":  extNop,
		"internal/race.Release":  extNop,
		"internal/race.ReleaseMerge": extNop,
		"internal/race.Read":     extNop,
		"internal/race.Write":    extNop,
		"internal/race.ReadRange": extNop,
		"internal/race.WriteRange": extNop,
		"internal/race.Errors":   func(fr *frame, a []value) value { return 0 },

		"internal/abi.NoEscape":          func(fr *frame, a []value) value { return a[0] },
		"(*strings.Builder).copyCheck":   extNop,

		"github.com/tidwall/gjson.fillIndex": extNop,
		"(*encoding/json.Decoder).Decode": extJSONDecoderDecode,
		"encoding/json.Marshal": func(fr *frame, a []value) value {
			if it0, ok := a[0].(iface); ok {
				_, isSlice := it0.v.([]value)
				isIntSlice := false
				if st, ok := it0.t.(*types.Slice); ok && isSlice {
					if b, ok := st.Elem().Underlying().(*types.Basic); ok && b.Info()&types.IsInteger != 0 {
						isIntSlice = true
					}
				}
				if !isIntSlice {
					if r := extJSONMarshalGeneric(fr, a); r != fallThrough {
						return r
					}
				}
			}
			// only the concrete []int / []byte-free uses of the code base
			it := a[0].(iface)
			if sl, ok := it.v.([]value); ok {
				out := make([]int64, len(sl))
				for k, e := range sl {
					if _, isSym := e.(sym); isSym {
						panic(unsupported("json.Marshal of symbolic data"))
					}
					out[k] = asInt64(e)
				}
				b, _ := json.Marshal(out)
				r := make([]value, len(b))
				for k := range b {
					r[k] = b[k]
				}
				return tuple{r, iface{}}
			}
			panic(unsupported("json.Marshal of " + it.t.String()))
		},

		// ---- bytealg
		"internal/bytealg.IndexByte":       extIndexByte,
		"internal/bytealg.IndexByteString": extIndexByte,
		"internal/bytealg.Count":           extCountByte,
		"internal/bytealg.CountString":     extCountByte,
		"internal/bytealg.Equal":           extBytesEqual,
		"internal/bytealg.Compare":         extBytesCompare,
		"internal/bytealg.CompareString":   extBytesCompare,
		"internal/bytealg.Index":           extIndexSub,
		"internal/bytealg.IndexString":     extIndexSub,
		"internal/bytealg.MakeNoZero": func(fr *frame, a []value) value {
			n := fr.i.concretize(a[0], "MakeNoZero")
			r := make([]value, n)
			for k := range r {
				r[k] = uint8(0)
			}
			return r
		},
		"bytes.Equal":   extBytesEqual,
		"bytes.Compare": extBytesCompare,
		"internal/stringslite.Index": nil,
		// GODEBUG settings: all at their defaults
		"(*internal/godebug.Setting).Value":         func(fr *frame, a []value) value { return "" },
		"(*internal/godebug.Setting).IncNonDefault": func(fr *frame, a []value) value { return nil },
		"(*internal/godebug.Setting).Undocumented":  func(fr *frame, a []value) value { return false },
		"runtime.memequal": nil,
		"strings.Compare": extBytesCompare,

		"github.com/henrylee2cn/goutil.SelfDir":  func(fr *frame, a []value) value { return "/vx" },
		"github.com/henrylee2cn/goutil.SelfPath": func(fr *frame, a []value) value { return "/vx/bin" },
		"regexp.MustCompile":                     func(fr *frame, a []value) value { return (*value)(nil) },
		"regexp.Compile":                         func(fr *frame, a []value) value { return tuple{(*value)(nil), iface{}} },

		"github.com/gogo/protobuf/proto.RegisterType":           extNop,
		"github.com/gogo/protobuf/proto.RegisterFile":           extNop,
		"github.com/gogo/protobuf/proto.RegisterEnum":           extNop,
		"github.com/golang/protobuf/proto.RegisterType":         extNop,
		"github.com/golang/protobuf/proto.RegisterFile":         extNop,
		"github.com/golang/protobuf/proto.RegisterEnum":         extNop,

		"github.com/henrylee2cn/erpc/v6.GenerateTLSConfigForServer": func(fr *frame, a []value) value { return (*value)(nil) },
		"github.com/henrylee2cn/erpc/v6.GenerateTLSConfigForClient": func(fr *frame, a []value) value { return (*value)(nil) },

		// ---- goroutine pool of the framework (stub S-GO): plain spawn
		"github.com/henrylee2cn/goutil/pool.NewGoPool": func(fr *frame, a []value) value { return (*value)(nil) },
		"(*github.com/henrylee2cn/goutil/pool.GoPool).Go": func(fr *frame, a []value) value {
			fr.i.goStmt(fr, 0, a[1], nil)
			return iface{}
		},
		"(*github.com/henrylee2cn/goutil/pool.GoPool).TryGo": func(fr *frame, a []value) value {
			fr.i.goStmt(fr, 0, a[1], nil)
			return nil
		},
		"(*github.com/henrylee2cn/goutil/pool.GoPool).MustGo": func(fr *frame, a []value) value {
			fr.i.goStmt(fr, 0, a[1], nil)
			return iface{}
		},
		"(*github.com/henrylee2cn/goutil/pool.GoPool).Stop": extNop,

		// ---- unsafe string helpers of the code base
		"github.com/henrylee2cn/goutil.BytesToString": extBytesToStringAlias,
		"github.com/henrylee2cn/goutil.StringToBytes": extStringToBytesAlias,
		"github.com/henrylee2cn/erpc/v6/utils.b2s":    extBytesToStringAlias,
		"github.com/henrylee2cn/erpc/v6/utils.s2b":    extStringToBytesAlias,

		// ---- sync
		"(*sync.Mutex).Lock":      extMutexLock,
		"(*sync.Mutex).Unlock":    extMutexUnlock,
		"(*sync.Mutex).TryLock":   extMutexTryLock,
		"(*sync.RWMutex).Lock":    extRWLock,
		"(*sync.RWMutex).Unlock":  extRWUnlock,
		"(*sync.RWMutex).RLock":   extRWRLock,
		"(*sync.RWMutex).RUnlock": extRWRUnlock,
		"(*sync.WaitGroup).Add":   extWGAdd,
		"(*sync.WaitGroup).Done":  func(fr *frame, a []value) value { return extWGAdd(fr, []value{a[0], -1}) },
		"(*sync.WaitGroup).Wait":  extWGWait,
		"(*sync.Pool).Get":        extPoolGet,
		"(*sync.Pool).Put":        extPoolPut,
		"(*sync.Map).Load":        extSMapLoad,
		"(*sync.Map).Store":       extSMapStore,
		"(*sync.Map).LoadOrStore": extSMapLoadOrStore,
		"(*sync.Map).Delete":      extSMapDelete,
		"(*sync.Map).Range":       extSMapRange,
		"(*github.com/henrylee2cn/goutil.atomicMap).Load":        extSMapLoad,
		"(*github.com/henrylee2cn/goutil.atomicMap).Store":       extSMapStore,
		"(*github.com/henrylee2cn/goutil.atomicMap).LoadOrStore": extSMapLoadOrStore,
		"(*github.com/henrylee2cn/goutil.atomicMap).Delete":      extSMapDelete,
		"(*github.com/henrylee2cn/goutil.atomicMap).Range":       extSMapRange,
		"(*github.com/henrylee2cn/goutil.atomicMap).Len":         extSMapLen,
		"(*github.com/henrylee2cn/goutil.atomicMap).Clear":       extSMapClear,

		// ---- sync/atomic
		"(*sync/atomic.Value).Load":         extAtomicValueLoad,
		"(*sync/atomic.Value).Store":        extAtomicValueStore,
		"sync/atomic.AddInt32":              extAtomicAdd,
		"sync/atomic.AddInt64":              extAtomicAdd,
		"sync/atomic.AddUint32":             extAtomicAdd,
		"sync/atomic.AddUint64":             extAtomicAdd,
		"sync/atomic.AddUintptr":            extAtomicAdd,
		"sync/atomic.LoadInt32":             extAtomicLoad,
		"sync/atomic.LoadInt64":             extAtomicLoad,
		"sync/atomic.LoadUint32":            extAtomicLoad,
		"sync/atomic.LoadUint64":            extAtomicLoad,
		"sync/atomic.LoadUintptr":           extAtomicLoad,
		"sync/atomic.LoadPointer":           extAtomicLoad,
		"sync/atomic.StoreInt32":            extAtomicStore,
		"sync/atomic.StoreInt64":            extAtomicStore,
		"sync/atomic.StoreUint32":           extAtomicStore,
		"sync/atomic.StoreUint64":           extAtomicStore,
		"sync/atomic.StoreUintptr":          extAtomicStore,
		"sync/atomic.StorePointer":          extAtomicStore,
		"sync/atomic.SwapInt32":             extAtomicSwap,
		"sync/atomic.SwapInt64":             extAtomicSwap,
		"sync/atomic.SwapUint32":            extAtomicSwap,
		"sync/atomic.SwapUint64":            extAtomicSwap,
		"sync/atomic.SwapPointer":           extAtomicSwap,
		"sync/atomic.CompareAndSwapInt32":   extAtomicCAS,
		"sync/atomic.CompareAndSwapInt64":   extAtomicCAS,
		"sync/atomic.CompareAndSwapUint32":  extAtomicCAS,
		"sync/atomic.CompareAndSwapUint64":  extAtomicCAS,
		"sync/atomic.CompareAndSwapUintptr": extAtomicCAS,
		"sync/atomic.CompareAndSwapPointer": extAtomicCAS,

		// ---- time
		"time.Now":   extTimeNow,
		"time.now":   func(fr *frame, a []value) value { return tuple{int64(1700000000), int32(0), int64(0)} },
		"time.Sleep": func(fr *frame, a []value) value { fr.i.yieldPoint("sleep"); return nil },
		"time.runtimeNano": func(fr *frame, a []value) value { return int64(0) },
		"time.NewTicker":        func(fr *frame, a []value) value { return newTimerLike(fr) },
		"time.NewTimer":         func(fr *frame, a []value) value { return newTimerLike(fr) },
		"(*time.Ticker).Stop":   extNop,
		"(*time.Ticker).Reset":  extNop,
		"(*time.Timer).Stop": func(fr *frame, a []value) value {
			for _, t := range fr.i.world.timers {
				if t.cell == a[0] && !t.fired {
					t.stopped = true
				}
			}
			return true
		},
		"(*time.Timer).Reset":   func(fr *frame, a []value) value { return true },
		"time.After":            func(fr *frame, a []value) value { return &vchan{cap: 1, elem: nil, epoch: fr.i.epoch} },
		"time.AfterFunc": func(fr *frame, a []value) value {
			t := newTimerLike(fr)
			fr.i.world.timers = append(fr.i.world.timers, &pendingTimer{cell: t, fn: a[1]})
			return t
		},
		"github.com/henrylee2cn/goutil/coarsetime.FloorTimeNow":   extTimeNow,
		"github.com/henrylee2cn/goutil/coarsetime.CeilingTimeNow": extTimeNow,

		// ---- fmt / errors natives (formatting is not the subject)
		"fmt.Sprintf": extSprintf,
		"fmt.Sprint":  extSprint,
		"fmt.Sprintln": extSprint,
		"fmt.Errorf":  extErrorf,
		"fmt.Printf":  extNop2,
		"fmt.Println": extNop2,
		"fmt.Print":   extNop2,
		"fmt.Fprintf": extNop2,
		"fmt.Fprintln": extNop2,
		"fmt.Fprint":  extNop2,
	} {
		if v != nil {
			externals[k] = v
		}
	}
}

func extNop2(fr *frame, args []value) value { return tuple{0, iface{}} }

// ---------------------------------------------------------------- bytes

func byteSeq(v value) []value {
	switch x := v.(type) {
	case []value:
		return x
	case string, *symstr:
		return strBytesView(x)
	}
	panic(engineError(fmt.Sprintf("byteSeq: %T", v)))
}

func (i *interpreter) byteEq(a, b value) value {
	ca, oka := a.(uint8)
	cb, okb := b.(uint8)
	if oka && okb {
		return ca == cb
	}
	ta, _ := i.termOf(a)
	tb, _ := i.termOf(b)
	return mkVal(i.tc.Cmp("=", ta, tb), types.Bool)
}

func extIndexByte(fr *frame, args []value) value {
	s := byteSeq(args[0])
	for k, b := range s {
		if fr.i.truth(fr.i.byteEq(b, args[1]), "IndexByte") {
			return k
		}
	}
	return -1
}

func extCountByte(fr *frame, args []value) value {
	s := byteSeq(args[0])
	n := 0
	for _, b := range s {
		if fr.i.truth(fr.i.byteEq(b, args[1]), "Count") {
			n++
		}
	}
	return n
}

func extBytesEqual(fr *frame, args []value) value {
	a, b := byteSeq(args[0]), byteSeq(args[1])
	if len(a) != len(b) {
		return false
	}
	acc := value(true)
	for k := range a {
		acc = fr.i.boolAnd(acc, fr.i.byteEq(a[k], b[k]))
		if c, ok := acc.(bool); ok && !c {
			return false
		}
	}
	return acc
}

func extBytesCompare(fr *frame, args []value) value {
	a, b := byteSeq(args[0]), byteSeq(args[1])
	n := len(a)
	if len(b) < n {
		n = len(b)
	}
	i := fr.i
	for k := 0; k < n; k++ {
		if i.truth(i.byteEq(a[k], b[k]), "Compare.eq") {
			continue
		}
		ta, _ := i.termOf(a[k])
		tb, _ := i.termOf(b[k])
		if i.truth(mkVal(i.tc.Cmp("bvult", ta, tb), types.Bool), "Compare.lt") {
			return -1
		}
		return 1
	}
	switch {
	case len(a) < len(b):
		return -1
	case len(a) > len(b):
		return 1
	}
	return 0
}

func extIndexSub(fr *frame, args []value) value {
	a, b := byteSeq(args[0]), byteSeq(args[1])
	i := fr.i
	for k := 0; k+len(b) <= len(a); k++ {
		acc := value(true)
		for j := range b {
			acc = i.boolAnd(acc, i.byteEq(a[k+j], b[j]))
			if c, ok := acc.(bool); ok && !c {
				break
			}
		}
		if i.truth(acc, "Index") {
			return k
		}
	}
	return -1
}

func extBytesToStringAlias(fr *frame, args []value) value {
	b := args[0].([]value)
	if len(b) == 0 {
		return ""
	}
	return &symstr{b[:len(b):len(b)]}
}

func extStringToBytesAlias(fr *frame, args []value) value {
	switch s := args[0].(type) {
	case string:
		r := strBytesView(s)
		return r
	case *symstr:
		return s.b[:len(s.b):len(s.b)]
	}
	panic(engineError("StringToBytes"))
}

// ---------------------------------------------------------------- sync

func (i *interpreter) mutexOf(p *value) *mutexState {
	m := i.side.mutex[p]
	if m == nil {
		m = &mutexState{}
		i.side.mutex[p] = m
	}
	return m
}

func extMutexLock(fr *frame, args []value) value {
	i := fr.i
	i.yieldPoint("lock")
	m := i.mutexOf(args[0].(*value))
	i.block(func() bool { return !m.locked }, "Mutex.Lock")
	m.locked = true
	m.owner = i.sch.cur.id
	i.raceAcquire(args[0].(*value))
	return nil
}

func extMutexTryLock(fr *frame, args []value) value {
	i := fr.i
	i.yieldPoint("trylock")
	m := i.mutexOf(args[0].(*value))
	if m.locked {
		return false
	}
	m.locked = true
	m.owner = i.sch.cur.id
	i.raceAcquire(args[0].(*value))
	return true
}

func extMutexUnlock(fr *frame, args []value) value {
	i := fr.i
	m := i.mutexOf(args[0].(*value))
	if !m.locked {
		i.sch.crash = "fatal error: sync: unlock of unlocked mutex"
		i.endPath()
		panic(pathAbort{"crash", i.sch.crash})
	}
	i.raceRelease(args[0].(*value), false)
	m.locked = false
	i.yieldPoint("unlock")
	return nil
}

type rwKey struct {
	p *value
	r bool
}

func (i *interpreter) rwOf(p *value) *rwState {
	m := i.side.rw[p]
	if m == nil {
		m = &rwState{}
		i.side.rw[p] = m
	}
	return m
}

func extRWLock(fr *frame, args []value) value {
	i := fr.i
	i.yieldPoint("rwlock")
	m := i.rwOf(args[0].(*value))
	i.block(func() bool { return !m.writer && m.readers == 0 }, "RWMutex.Lock")
	m.writer = true
	i.raceAcquire(rwKey{args[0].(*value), false})
	i.raceAcquire(rwKey{args[0].(*value), true})
	return nil
}

func extRWUnlock(fr *frame, args []value) value {
	i := fr.i
	m := i.rwOf(args[0].(*value))
	if !m.writer {
		i.sch.crash = "fatal error: sync: Unlock of unlocked RWMutex"
		i.endPath()
		panic(pathAbort{"crash", i.sch.crash})
	}
	i.raceRelease(rwKey{args[0].(*value), false}, false)
	m.writer = false
	i.yieldPoint("rwunlock")
	return nil
}

func extRWRLock(fr *frame, args []value) value {
	i := fr.i
	i.yieldPoint("rlock")
	m := i.rwOf(args[0].(*value))
	i.block(func() bool { return !m.writer }, "RWMutex.RLock")
	m.readers++
	i.raceAcquire(rwKey{args[0].(*value), false})
	return nil
}

func extRWRUnlock(fr *frame, args []value) value {
	i := fr.i
	m := i.rwOf(args[0].(*value))
	if m.readers <= 0 {
		i.sch.crash = "fatal error: sync: RUnlock of unlocked RWMutex"
		i.endPath()
		panic(pathAbort{"crash", i.sch.crash})
	}
	i.raceRelease(rwKey{args[0].(*value), true}, true)
	m.readers--
	i.yieldPoint("runlock")
	return nil
}

type wgKey struct{ p *value }
type poolKey struct{ p *value }
type atomKey struct{ p *value }

func (i *interpreter) wgOf(p *value) *wgState {
	m := i.side.wg[p]
	if m == nil {
		m = &wgState{}
		i.side.wg[p] = m
	}
	return m
}

func extWGAdd(fr *frame, args []value) value {
	i := fr.i
	i.yieldPoint("wg.add")
	w := i.wgOf(args[0].(*value))
	i.raceRelease(wgKey{args[0].(*value)}, true)
	w.n += i.concretize(args[1], "wg.Add")
	if schedDebug {
		fmt.Fprintf(os.Stderr, "wg %p add %v -> %d (%s)\n", args[0], args[1], w.n, fr.caller.fn)
	}
	if w.n < 0 {
		panic(targetPanic{v: iface{i.runtimeErrorString, "sync: negative WaitGroup counter"}})
	}
	return nil
}

func extWGWait(fr *frame, args []value) value {
	i := fr.i
	i.yieldPoint("wg.wait")
	w := i.wgOf(args[0].(*value))
	if schedDebug {
		fmt.Fprintf(os.Stderr, "wg %p wait n=%d (%s)\n", args[0], w.n, fr.caller.fn)
	}
	i.block(func() bool { return w.n == 0 }, "WaitGroup.Wait")
	i.raceAcquire(wgKey{args[0].(*value)})
	return nil
}

func extPoolGet(fr *frame, args []value) value {
	i := fr.i
	p := args[0].(*value)
	i.raceAcquire(poolKey{p})
	ps := i.side.pool[p]
	newFn := (*p).(structure)[len((*p).(structure))-1]
	fresh := func() value {
		if isNilFunc(newFn) {
			return iface{}
		}
		return call(i, fr, 0, newFn, nil)
	}
	if ps == nil || len(ps.items) == 0 || i.world.poolMode == 0 {
		return fresh()
	}
	switch i.world.poolMode {
	case 1:
		it := ps.items[len(ps.items)-1]
		ps.items = ps.items[:len(ps.items)-1]
		return it
	default:
		k := i.choose(len(ps.items)+1, "pool.Get")
		if k == 0 {
			return fresh()
		}
		it := ps.items[k-1]
		ps.items = append(append([]value{}, ps.items[:k-1]...), ps.items[k:]...)
		return it
	}
}

func extPoolPut(fr *frame, args []value) value {
	i := fr.i
	p := args[0].(*value)
	// Handing an object to a pool gives it to its next user, who reinitialises it:
	// for the race analysis the Put counts as a write to the object's fields, so
	// that an access by another goroutine that is not ordered before the Put (a
	// reference kept past the release) is reported.
	if i.race != nil && i.race.on {
		if it, ok := args[1].(iface); ok {
			if cell, ok := it.v.(*value); ok && cell != nil {
				if st, ok := (*cell).(structure); ok {
					for k := range st {
						switch st[k].(type) {
						case structure, array:
						default:
							i.raceAccess(&st[k], true, false)
						}
					}
				}
			}
		}
	}
	i.raceRelease(poolKey{p}, true)
	if it, ok := args[1].(iface); ok && it.t == nil {
		return nil
	}
	ps := i.side.pool[p]
	if ps == nil {
		ps = &poolState{}
		i.side.pool[p] = ps
	}
	if i.world.poolMode != 0 {
		ps.items = append(ps.items, args[1])
	}
	return nil
}

func (i *interpreter) smapOf(p *value) *omap {
	m := i.side.smap[p]
	if m == nil {
		m = i.newOmap()
		i.side.smap[p] = m
	}
	return m
}

func extSMapLoad(fr *frame, args []value) value {
	fr.i.raceAcquire(atomKey{args[0].(*value)})
	fr.i.inSyncMap = true
	defer func() { fr.i.inSyncMap = false; fr.i.raceRelease(atomKey{args[0].(*value)}, true) }()
	i := fr.i
	i.yieldPoint("map.load")
	m := i.smapOf(args[0].(*value))
	if ix := i.mapFind(m, anyType, args[1]); ix >= 0 {
		return tuple{m.entries[ix].val, true}
	}
	return tuple{iface{}, false}
}

func extSMapStore(fr *frame, args []value) value {
	fr.i.raceAcquire(atomKey{args[0].(*value)})
	fr.i.inSyncMap = true
	defer func() { fr.i.inSyncMap = false; fr.i.raceRelease(atomKey{args[0].(*value)}, true) }()
	i := fr.i
	i.yieldPoint("map.store")
	i.mapInsert(i.smapOf(args[0].(*value)), anyType, args[1], args[2])
	return nil
}

func extSMapLoadOrStore(fr *frame, args []value) value {
	fr.i.raceAcquire(atomKey{args[0].(*value)})
	fr.i.inSyncMap = true
	defer func() { fr.i.inSyncMap = false; fr.i.raceRelease(atomKey{args[0].(*value)}, true) }()
	i := fr.i
	i.yieldPoint("map.loadorstore")
	m := i.smapOf(args[0].(*value))
	if ix := i.mapFind(m, anyType, args[1]); ix >= 0 {
		return tuple{m.entries[ix].val, true}
	}
	i.mapInsert(m, anyType, args[1], args[2])
	return tuple{args[2], false}
}

func extSMapDelete(fr *frame, args []value) value {
	fr.i.raceAcquire(atomKey{args[0].(*value)})
	fr.i.inSyncMap = true
	defer func() { fr.i.inSyncMap = false; fr.i.raceRelease(atomKey{args[0].(*value)}, true) }()
	i := fr.i
	i.yieldPoint("map.delete")
	i.mapDelete(i.smapOf(args[0].(*value)), anyType, args[1])
	return nil
}

func extSMapRange(fr *frame, args []value) value {
	i := fr.i
	i.yieldPoint("map.range")
	i.raceAcquire(atomKey{args[0].(*value)})
	m := i.smapOf(args[0].(*value))
	snap := append([]omapEntry{}, m.entries...)
	i.raceRelease(atomKey{args[0].(*value)}, true)
	for _, e := range snap {
		if e.dead {
			continue
		}
		r := call(i, fr, 0, args[1], []value{e.key, e.val})
		if !i.truth(r, "range-callback") {
			break
		}
	}
	return nil
}

func extSMapLen(fr *frame, args []value) value {
	fr.i.raceAcquire(atomKey{args[0].(*value)})
	fr.i.inSyncMap = true
	defer func() { fr.i.inSyncMap = false; fr.i.raceRelease(atomKey{args[0].(*value)}, true) }()
	fr.i.yieldPoint("map.len")
	return fr.i.smapOf(args[0].(*value)).len()
}

func extSMapClear(fr *frame, args []value) value {
	fr.i.side.smap[args[0].(*value)] = fr.i.newOmap()
	return nil
}

// ---------------------------------------------------------------- atomics

func atomicCell(a value) *value {
	switch p := a.(type) {
	case *value:
		if p == nil {
			panic(targetRuntimeError("invalid memory address or nil pointer dereference"))
		}
		return p
	}
	panic(engineError(fmt.Sprintf("atomic op on %T", a)))
}

func (i *interpreter) atomicBegin(p *value) {
	i.raceAcquire(atomKey{p})
	i.inAtomic = true
}

func (i *interpreter) atomicEnd(p *value) {
	i.inAtomic = false
	i.raceRelease(atomKey{p}, true)
}

func extAtomicAdd(fr *frame, args []value) value {
	fr.i.yieldPoint("atomic.add")
	p := atomicCell(args[0])
	fr.i.atomicBegin(p)
	defer fr.i.atomicEnd(p)
	r := fr.i.binopAdd(*p, args[1])
	fr.i.store(nil2int, p, r)
	return r
}

var nil2int = types.Typ[types.Int]

func (i *interpreter) binopAdd(x, y value) value {
	if isSym(x) || isSym(y) {
		return i.symBinop(addTok, x, y)
	}
	return cbinop(addTok, nil, x, y)
}

func extAtomicLoad(fr *frame, args []value) value {
	fr.i.yieldPoint("atomic.load")
	p := atomicCell(args[0])
	fr.i.atomicBegin(p)
	defer fr.i.atomicEnd(p)
	if fr.i.race != nil && fr.i.race.on {
		fr.i.raceAccess(p, false, true)
	}
	return *p
}

func extAtomicStore(fr *frame, args []value) value {
	fr.i.yieldPoint("atomic.store")
	p := atomicCell(args[0])
	fr.i.atomicBegin(p)
	defer fr.i.atomicEnd(p)
	fr.i.store(nil2int, p, args[1])
	return nil
}

func extAtomicSwap(fr *frame, args []value) value {
	fr.i.yieldPoint("atomic.swap")
	p := atomicCell(args[0])
	fr.i.atomicBegin(p)
	defer fr.i.atomicEnd(p)
	old := *p
	fr.i.store(nil2int, p, args[1])
	return old
}

func extAtomicCAS(fr *frame, args []value) value {
	i := fr.i
	i.yieldPoint("atomic.cas")
	p := atomicCell(args[0])
	i.atomicBegin(p)
	defer i.atomicEnd(p)
	if i.race != nil && i.race.on {
		i.raceAccess(p, false, true)
	}
	var eq value
	if up, ok := (*p).(unsafePtr); ok {
		eq = up.p == args[1].(unsafePtr).p
	} else if isSym(*p) || isSym(args[1]) {
		eq = i.symBinop(eqlTok, *p, args[1])
	} else {
		eq = *p == args[1]
	}
	if i.truth(eq, "cas") {
		i.store(nil2int, p, args[2])
		return true
	}
	return false
}

// ---------------------------------------------------------------- time

// newTimerLike builds a *time.Timer / *time.Ticker whose channel never fires
// (timers never expire in the model; stub S-TIME).
// pendingTimer is a time.AfterFunc timer. Timers never fire by themselves (S-TIME);
// a harness lets "enough time pass for every pending timer" with vxFireTimers.
type pendingTimer struct {
	cell           value
	fn             value
	stopped, fired bool
}

func newTimerLike(fr *frame) value {
	pt := fr.fn.Signature.Results().At(0).Type().Underlying().(*types.Pointer)
	st := zero(pt.Elem()).(structure)
	chT := pt.Elem().Underlying().(*types.Struct).Field(0).Type().Underlying().(*types.Chan)
	st[0] = &vchan{cap: 1, elem: chT.Elem(), epoch: fr.i.epoch}
	var cell value = st
	return &cell
}

func extTimeNow(fr *frame, args []value) value {
	i := fr.i
	i.world.now++
	// Time{wall uint64, ext int64, loc *Location}; wall without monotonic bit,
	// ext = seconds since year 1.
	return structure{uint64(0), int64(63835000000 + i.world.now), (*value)(nil)}
}

// ---------------------------------------------------------------- fmt

// toNative converts an interpreter value to a Go value fit for fmt.
func (i *interpreter) toNative(fr *frame, v value) interface{} {
	switch x := v.(type) {
	case iface:
		if x.t == nil {
			return nil
		}
		// error or Stringer: call the interpreted method
		for _, mname := range []string{"Error", "String"} {
			if m := i.methodByName(x.t, mname); m != nil && m.Signature.Params().Len() == 0 && m.Signature.Results().Len() == 1 {
				if b, ok := m.Signature.Results().At(0).Type().Underlying().(*types.Basic); ok && b.Kind() == types.String {
					func() {
						defer func() {
							if r := recover(); r != nil {
								if _, ok := r.(pathAbort); ok {
									panic(r)
								}
								v = "<panic in " + mname + ">"
							}
						}()
						v = call(i, fr, 0, m, []value{x.v})
					}()
					return i.toNative(fr, v)
				}
			}
		}
		return i.toNative(fr, x.v)
	case *symstr:
		if s, ok := concreteStr(x); ok {
			return s
		}
		return fmt.Sprintf("<sym-string len=%d>", len(x.b))
	case sym:
		return "<sym>"
	case []value:
		allb := len(x) > 0
		bs := make([]byte, len(x))
		for k, e := range x {
			b, ok := e.(uint8)
			if !ok {
				allb = false
				break
			}
			bs[k] = b
		}
		if allb {
			return bs
		}
		return toStringTrunc(x)
	case bool, int, int8, int16, int32, int64, uint, uint8, uint16, uint32, uint64, uintptr, float32, float64, string:
		return x
	case rtype:
		return x.t.String()
	case *value:
		if x == nil {
			return nil
		}
		return fmt.Sprintf("%p", x)
	}
	return toStringTrunc(v)
}

func (i *interpreter) methodByName(t types.Type, name string) *ssa.Function {
	if t == rtypeType || t == errorType {
		return nil
	}
	ms := i.prog.MethodSets.MethodSet(t)
	for k := 0; k < ms.Len(); k++ {
		if ms.At(k).Obj().Name() == name {
			return i.prog.MethodValue(ms.At(k))
		}
	}
	return nil
}

func (i *interpreter) nativeArgs(fr *frame, v value) []interface{} {
	var out []interface{}
	for _, a := range v.([]value) {
		out = append(out, i.toNative(fr, a))
	}
	return out
}

func safeSprintf(format string, args []interface{}) (s string) {
	defer func() {
		if r := recover(); r != nil {
			s = format
		}
	}()
	return fmt.Sprintf(format, args...)
}

func extSprintf(fr *frame, args []value) value {
	f, ok := concreteStr(args[0])
	if !ok {
		return "<sym-format>"
	}
	return safeSprintf(f, fr.i.nativeArgs(fr, args[1]))
}

func extSprint(fr *frame, args []value) value {
	return fmt.Sprint(fr.i.nativeArgs(fr, args[0])...)
}

func extErrorf(fr *frame, args []value) value {
	s := extSprintf(fr, args)
	// build an *errors.errorString via the interpreted errors.New
	fn := fr.i.lookupFunc("errors", "New")
	return call(fr.i, fr, 0, fn, []value{s})
}


// shapeExternal recognises a few stubbed functions by package and shape rather
// than by name, so that renaming an unexported helper does not lose its stub:
// the md5 helper of xfer/md5 (func([]byte) ([]byte, error)) and the zero-copy
// []byte<->string puns (tiny functions converting through unsafe.Pointer).
func shapeExternal(fn *ssa.Function) externalFn {
	if fn.Pkg == nil || fn.Signature.Recv() != nil || fn.Blocks == nil {
		return nil
	}
	sig := fn.Signature
	isBytes := func(t types.Type) bool {
		sl, ok := t.Underlying().(*types.Slice)
		if !ok {
			return false
		}
		b, ok := sl.Elem().Underlying().(*types.Basic)
		return ok && b.Kind() == types.Uint8
	}
	isString := func(t types.Type) bool {
		b, ok := t.Underlying().(*types.Basic)
		return ok && b.Kind() == types.String
	}
	pp := fn.Pkg.Pkg.Path()
	if pp == repoModule+"/xfer/md5" && !token.IsExported(fn.Name()) && sig.Params().Len() == 1 && sig.Results().Len() == 2 &&
		isBytes(sig.Params().At(0).Type()) && isBytes(sig.Results().At(0).Type()) && sig.Results().At(1).Type().String() == "error" {
		return externals[repoModule+"/xfer/md5.getMd5"]
	}
	if sig.Params().Len() == 1 && sig.Results().Len() == 1 && len(fn.Blocks) == 1 && len(fn.Blocks[0].Instrs) <= 8 {
		pun := false
		for _, in := range fn.Blocks[0].Instrs {
			if c, ok := in.(*ssa.Convert); ok {
				if b, ok := c.Type().Underlying().(*types.Basic); ok && b.Kind() == types.UnsafePointer {
					pun = true
				}
			}
		}
		if pun && isBytes(sig.Params().At(0).Type()) && isString(sig.Results().At(0).Type()) {
			return extBytesToStringAlias
		}
		if pun && isString(sig.Params().At(0).Type()) && isBytes(sig.Results().At(0).Type()) {
			return extStringToBytesAlias
		}
	}
	return nil
}


// atomic.Value: the struct's single field holds the stored interface value.
func atomicValueCell(a value) *value {
	p := atomicCell(a)
	st, ok := (*p).(structure)
	if !ok || len(st) != 1 {
		panic(engineError("atomic.Value layout"))
	}
	return &st[0]
}

func extAtomicValueLoad(fr *frame, args []value) value {
	fr.i.yieldPoint("atomic.load")
	p := atomicCell(args[0])
	c := atomicValueCell(args[0])
	fr.i.atomicBegin(p)
	defer fr.i.atomicEnd(p)
	if v, ok := (*c).(iface); ok {
		return v
	}
	return iface{}
}

func extAtomicValueStore(fr *frame, args []value) value {
	fr.i.yieldPoint("atomic.store")
	v, _ := args[1].(iface)
	if v.t == nil {
		panic(targetPanic{v: iface{fr.i.runtimeErrorString, "sync/atomic: store of nil value into Value"}})
	}
	p := atomicCell(args[0])
	c := atomicValueCell(args[0])
	fr.i.atomicBegin(p)
	defer fr.i.atomicEnd(p)
	fr.i.setCell(c, v)
	return nil
}


// extJSONUnmarshal (stub S-JSON): encoding/json.Unmarshal of CONCRETE bytes
// into goutil's exportStatus {code int32; msg, cause string} is done by the
// host's encoding/json; every other use falls through to the interpreted
// library (whose reflection is mostly outside the engine's model).
func extJSONUnmarshal(fr *frame, args []value) value {
	if r := extJSONUnmarshalGeneric(fr, args); r != fallThrough {
		return r
	}
	itf, ok := args[1].(iface)
	if !ok || itf.t == nil {
		return fallThrough
	}
	pt, ok := itf.t.(*types.Pointer)
	if !ok {
		return fallThrough
	}
	named, ok := pt.Elem().(*types.Named)
	if !ok || named.Obj().Name() != "exportStatus" || named.Obj().Pkg() == nil || named.Obj().Pkg().Path() != "github.com/henrylee2cn/goutil/status" {
		return fallThrough
	}
	data, ok := args[0].([]value)
	if !ok {
		return fallThrough
	}
	raw := make([]byte, len(data))
	for k, b := range data {
		c, ok := b.(uint8)
		if !ok {
			panic(unsupported("encoding/json.Unmarshal of symbolic bytes into a status"))
		}
		raw[k] = c
	}
	var v struct {
		Code  int32  `json:"code"`
		Msg   string `json:"msg"`
		Cause string `json:"cause"`
	}
	if err := json.Unmarshal(raw, &v); err != nil {
		fn := fr.i.lookupFunc("errors", "New")
		return call(fr.i, fr, 0, fn, []value{err.Error()})
	}
	cell := itf.v.(*value)
	st := (*cell).(structure)
	fr.i.setCell(&st[0], v.Code)
	fr.i.setCell(&st[1], v.Msg)
	fr.i.setCell(&st[2], v.Cause)
	return iface{}
}
