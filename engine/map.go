// Copyright 2013 The Go Authors. All rights reserved.
// Use of this source code is governed by a BSD-style
// license that can be found in the LICENSE file.

package interp

// Custom hashtable atop map.
// For use when the key's equivalence relation is not consistent with ==.

// The Go specification doesn't address the atomicity of map operations.
// The FAQ states that an implementation is permitted to crash on
// concurrent map access.

import (
	"go/types"
)

type hashable interface {
	hash(t types.Type) int
	eq(t types.Type, x interface{}) bool
}

type entry struct {
	key   hashable
	value value
	next  *entry
}

// A hashtable atop the built-in map.  Since each bucket contains
// exactly one hash value, there's no need to perform hash-equality
// tests when walking the linked list.  Rehashing is done by the
// underlying map.
type hashmap struct {
	keyType types.Type
	table   map[int]*entry
	length  int // number of entries in map
}

// makeMap returns an empty initialized map of key type kt,
// preallocating space for reserve elements.
func makeMap(kt types.Type, reserve int64) value {
	if usesBuiltinMap(kt) {
		return make(map[value]value, reserve)
	}
	return &hashmap{keyType: kt, table: make(map[int]*entry, reserve)}
}

// delete removes the association for key k, if any.
func (m *hashmap) delete(k hashable) {
	if m != nil {
		hash := k.hash(m.keyType)
		head := m.table[hash]
		if head != nil {
			if k.eq(m.keyType, head.key) {
				m.table[hash] = head.next
				m.length--
				return
			}
			prev := head
			for e := head.next; e != nil; e = e.next {
				if k.eq(m.keyType, e.key) {
					prev.next = e.next
					m.length--
					return
				}
				prev = e
			}
		}
	}
}

// lookup returns the value associated with key k, if present, or
// value(nil) otherwise.
func (m *hashmap) lookup(k hashable) value {
	if m != nil {
		hash := k.hash(m.keyType)
		for e := m.table[hash]; e != nil; e = e.next {
			if k.eq(m.keyType, e.key) {
				return e.value
			}
		}
	}
	return nil
}

// insert updates the map to associate key k with value v.  If there
// was already an association for an eq() (though not necessarily ==)
// k, the previous key remains in the map and its associated value is
// updated.
func (m *hashmap) insert(k hashable, v value) {
	hash := k.hash(m.keyType)
	head := m.table[hash]
	for e := head; e != nil; e = e.next {
		if k.eq(m.keyType, e.key) {
			e.value = v
			return
		}
	}
	m.table[hash] = &entry{
		key:   k,
		value: v,
		next:  head,
	}
	m.length++
}

// len returns the number of key/value associations in the map.
func (m *hashmap) len() int {
	if m != nil {
		return m.length
	}
	return 0
}

// entries returns a rangeable map of entries.
func (m *hashmap) entries() map[int]*entry {
	if m != nil {
		return m.table
	}
	return nil
}
