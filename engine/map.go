package main

// Insertion-ordered maps for the interpreted program (deterministic iteration,
// symbolic keys by forking on equality with the keys present).

import (
	"go/types"
)

type omapEntry struct {
	key, val value
	dead     bool
}

type omap struct {
	entries []omapEntry
	idx     map[int][]int
	symKeys int
	n       int
	epoch   int
}

func (i *interpreter) newOmap() *omap { return &omap{idx: map[int][]int{}, epoch: i.epoch} }

func (m *omap) clone() *omap {
	c := &omap{entries: append([]omapEntry{}, m.entries...), idx: map[int][]int{}, symKeys: m.symKeys, n: m.n, epoch: m.epoch}
	for h, l := range m.idx {
		c.idx[h] = append([]int{}, l...)
	}
	return c
}

// touchMap saves an old map's state before its first mutation in a path.
func (i *interpreter) touchMap(m *omap) {
	if !i.logging || m.epoch == i.epoch {
		return
	}
	saved := m.clone()
	m.epoch = i.epoch
	i.undoFns = append(i.undoFns, func() {
		m.entries, m.idx, m.symKeys, m.n, m.epoch = saved.entries, saved.idx, saved.symKeys, saved.n, saved.epoch
	})
}

// hasSym reports whether v contains a symbolic scalar or symbolic string byte.
func hasSym(v value) bool {
	switch x := v.(type) {
	case sym:
		return true
	case *symstr:
		for _, b := range x.b {
			if _, ok := b.(sym); ok {
				return true
			}
		}
		return false
	case structure:
		for _, e := range x {
			if hasSym(e) {
				return true
			}
		}
	case array:
		for _, e := range x {
			if hasSym(e) {
				return true
			}
		}
	case iface:
		return x.v != nil && hasSym(x.v)
	}
	return false
}

// normKey replaces all-concrete symstr by Go strings (copying).
func normKey(v value) value {
	switch x := v.(type) {
	case *symstr:
		if s, ok := concreteStr(x); ok {
			return s
		}
	case iface:
		if x.v != nil {
			return iface{x.t, normKey(x.v)}
		}
	case structure:
		r := make(structure, len(x))
		for i := range x {
			r[i] = normKey(x[i])
		}
		return r
	case array:
		r := make(array, len(x))
		for i := range x {
			r[i] = normKey(x[i])
		}
		return r
	}
	return v
}

func (i *interpreter) mapFind(m *omap, kt types.Type, k value) int {
	if m == nil {
		return -1
	}
	if i.race != nil && i.race.on && !i.inMapWrite && !i.inSyncMap {
		i.raceAccess(m, false, false)
	}
	k = normKey(k)
	if m.symKeys == 0 && !hasSym(k) {
		h := hash(kt, kt, k)
		for _, ix := range m.idx[h] {
			e := &m.entries[ix]
			if !e.dead && equals(kt, e.key, k) {
				return ix
			}
		}
		return -1
	}
	for ix := range m.entries {
		e := &m.entries[ix]
		if e.dead {
			continue
		}
		if i.truth(i.eqValue(kt, e.key, k), "mapkey") {
			return ix
		}
	}
	return -1
}

func (i *interpreter) mapInsert(m *omap, kt types.Type, k, v value) {
	k = normKey(k)
	i.touchMap(m)
	if i.race != nil && i.race.on && !i.inSyncMap {
		i.raceAccess(m, true, false)
	}
	i.inMapWrite = true
	defer func() { i.inMapWrite = false }()
	if ix := i.mapFind(m, kt, k); ix >= 0 {
		m.entries[ix].val = v
		return
	}
	m.entries = append(m.entries, omapEntry{key: k, val: v})
	m.n++
	if hasSym(k) {
		m.symKeys++
	} else {
		h := hash(kt, kt, k)
		m.idx[h] = append(m.idx[h], len(m.entries)-1)
	}
}

func (i *interpreter) mapDelete(m *omap, kt types.Type, k value) {
	ix := i.mapFind(m, kt, k)
	if ix < 0 {
		return
	}
	i.touchMap(m)
	if i.race != nil && i.race.on && !i.inSyncMap {
		i.raceAccess(m, true, false)
	}
	e := &m.entries[ix]
	e.dead = true
	m.n--
	if hasSym(e.key) {
		m.symKeys--
	} else {
		h := hash(kt, kt, e.key)
		lst := m.idx[h]
		for j, x := range lst {
			if x == ix {
				m.idx[h] = append(append([]int{}, lst[:j]...), lst[j+1:]...)
				break
			}
		}
	}
	e.val = nil
}

func (m *omap) len() int {
	if m == nil {
		return 0
	}
	return m.n
}

type omapIter struct {
	m   *omap
	pos int
	end int
}

func (it *omapIter) next() tuple {
	if it.m != nil {
		for it.pos < it.end && it.pos < len(it.m.entries) {
			e := it.m.entries[it.pos]
			it.pos++
			if !e.dead {
				return tuple{true, e.key, e.val}
			}
		}
	}
	return tuple{false, nil, nil}
}
