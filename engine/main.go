package main

import (
	"encoding/json"
	"flag"
	"fmt"
	"os"
	"runtime/pprof"
	"strconv"
	"strings"
)

func defaultConfig() config {
	return config{maxSteps: 5_000_000, maxDecisions: 4000, maxConcretize: 64, maxPaths: 200000}
}

func main() {
	if len(os.Args) < 2 {
		fmt.Fprintln(os.Stderr, "usage: gosymx run|check|replay ...")
		os.Exit(2)
	}
	switch os.Args[1] {
	case "run":
		cmdRun(os.Args[2:])
	case "check":
		cmdCheck(os.Args[2:])
	case "replay":
		cmdReplay(os.Args[2:])
	default:
		fmt.Fprintln(os.Stderr, "unknown command", os.Args[1])
		os.Exit(2)
	}
}

func verifRoot() string {
	if v := os.Getenv("VERIF_ROOT"); v != "" {
		return v
	}
	return "/verif"
}

func parseArgs(s string) []int {
	var out []int
	if s == "" {
		return out
	}
	for _, f := range strings.Split(s, ",") {
		n, err := strconv.Atoi(strings.TrimSpace(f))
		if err != nil {
			fmt.Fprintln(os.Stderr, "bad --args:", err)
			os.Exit(2)
		}
		out = append(out, n)
	}
	return out
}

// cmdRun: ad-hoc single job, for development.
func cmdRun(argv []string) {
	fs := flag.NewFlagSet("run", flag.ExitOnError)
	dir := fs.String("dir", "socket", "repo-relative package dir (\".\" for root)")
	harness := fs.String("harness", "", "harness function")
	args := fs.String("args", "", "comma separated ints")
	trace := fs.Bool("trace", false, "trace instructions")
	solverKind := fs.String("solver", "z3-new", "z3|z3-new|cvc5")
	timeout := fs.Int("timeout", 10000, "solver timeout ms")
	smtlog := fs.String("smtlog", "", "write solver input to file")
	prof := fs.String("cpuprofile", "", "write cpu profile")
	fs.Parse(argv)
	if *prof != "" {
		f, _ := os.Create(*prof)
		pprof.StartCPUProfile(f)
		defer pprof.StopCPUProfile()
	}
	p, err := loadProgram(verifRoot(), []string{*dir})
	if err != nil {
		fmt.Fprintln(os.Stderr, "load:", err)
		os.Exit(2)
	}
	fmt.Fprintf(os.Stderr, "loaded in %v\n", p.loadWall)
	cfg := defaultConfig()
	cfg.trace = *trace
	i, err := newInterpreter(p, cfg, *solverKind, *timeout)
	if err != nil {
		fmt.Fprintln(os.Stderr, err)
		os.Exit(2)
	}
	defer i.solver.close()
	if *smtlog != "" {
		f, _ := os.Create(*smtlog)
		defer f.Close()
		i.solver.log = f
	}
	pk := repoModule
	if *dir != "." {
		pk += "/" + *dir
	}
	res := i.runJob(p, job{pkg: pk, harness: *harness, args: parseArgs(*args)})
	printJobResult(res)
}

func printJobResult(res jobResult) {
	st := res.st
	fmt.Printf("job %s%v: paths=%d ok=%d assume=%d unsupported=%d budget=%d engine=%d infeasible=%d forks=%d forced=%d obligations=%d discharged=%d violations=%d hangs=%d crashes=%d steps=%d wall=%v solver=%v sat/unsat/unk/err=%d/%d/%d/%d\n",
		res.job.harness, res.job.args, st.paths, st.pathsOK, st.pathsAssume, st.pathsUnsupported, st.pathsBudget, st.pathsEngine, st.pathsInfeasible,
		st.forks, st.forced, st.obligations, st.discharged, st.violations, st.hangs, st.crashes, st.steps, res.wall, res.solverWall, res.nSat, res.nUnsat, res.nUnknown, res.nErr)
	fmt.Printf("  covers: %v\n", st.covers)
	for _, m := range res.inconcl {
		fmt.Printf("  INCONCLUSIVE: %s\n", m)
	}
	for k, v := range res.violations {
		if k >= 5 {
			fmt.Printf("  ... %d more violations\n", len(res.violations)-k)
			break
		}
		b, _ := json.Marshal(v.Inputs)
		fmt.Printf("  violation kind=%s msg=%q inputs=%s\n", v.Kind, v.Msg, b)
	}
}

