package main

// Modelled channels, select and go statements on top of the cooperative
// scheduler.

import (
	"fmt"
	"go/token"
	"go/types"

	"golang.org/x/tools/go/ssa"
)

type vchan struct {
	buf      []value
	cap      int
	closed   bool
	elem     types.Type
	recvWait int
	taken    int64 // number of items ever received (for unbuffered rendezvous)
	sent     int64
	epoch    int
	vcs      []vclock
	closeVC  vclock
}

// touchChan saves the state of a channel created before the current path
// ahead of its first mutation.
func (i *interpreter) touchChan(c *vchan) {
	if c == nil || !i.logging || c.epoch == i.epoch {
		return
	}
	saved := *c
	saved.buf = append([]value{}, c.buf...)
	c.epoch = i.epoch
	i.undoFns = append(i.undoFns, func() { *c = saved })
}

func (i *interpreter) chanSend(c *vchan, v value) {
	i.touchChan(c)
	i.yieldPoint("send")
	if c == nil {
		i.block(func() bool { return false }, "send on nil channel")
	}
	if c.closed {
		panic(targetPanic{v: iface{i.runtimeErrorString, "send on closed channel"}})
	}
	if c.cap > 0 {
		i.block(func() bool { return c.closed || len(c.buf) < c.cap }, "chan send")
		if c.closed {
			panic(targetPanic{v: iface{i.runtimeErrorString, "send on closed channel"}})
		}
		c.buf = append(c.buf, v)
		c.sent++
		i.chanPublish(c)
		return
	}
	// unbuffered: wait for a receiver, deposit, wait until taken
	i.block(func() bool { return c.closed || (c.recvWait > 0 && len(c.buf) == 0) }, "chan send (unbuffered)")
	if c.closed {
		panic(targetPanic{v: iface{i.runtimeErrorString, "send on closed channel"}})
	}
	c.buf = append(c.buf, v)
	c.sent++
	i.chanPublish(c)
	my := c.sent
	i.block(func() bool { return c.taken >= my }, "chan send (handoff)")
}

func (i *interpreter) chanRecv(c *vchan) (value, bool) {
	i.touchChan(c)
	i.yieldPoint("recv")
	if c == nil {
		i.block(func() bool { return false }, "receive from nil channel")
	}
	c.recvWait++
	i.block(func() bool { return len(c.buf) > 0 || c.closed }, "chan receive")
	c.recvWait--
	if len(c.buf) > 0 {
		v := c.buf[0]
		c.buf = c.buf[1:]
		c.taken++
		i.chanConsume(c)
		return v, true
	}
	if i.race != nil && i.race.on && i.sch.cur != nil {
		i.sch.cur.vc.join(c.closeVC)
	}
	return nil, false
}

func (i *interpreter) chanClose(c *vchan) {
	i.touchChan(c)
	i.yieldPoint("close")
	if c == nil {
		panic(targetPanic{v: iface{i.runtimeErrorString, "close of nil channel"}})
	}
	if c.closed {
		panic(targetPanic{v: iface{i.runtimeErrorString, "close of closed channel"}})
	}
	c.closed = true
	if i.race != nil && i.race.on && i.sch.cur != nil {
		c.closeVC = i.sch.cur.vc.copy()
		i.tick(i.sch.cur)
	}
	i.event("close-chan")
}

func (i *interpreter) selectStmt(fr *frame, instr *ssa.Select) value {
	i.yieldPoint("select")
	type scase struct {
		c    *vchan
		send bool
		v    value
	}
	var cases []scase
	for _, st := range instr.States {
		sc := scase{c: fr.get(st.Chan).(*vchan), send: st.Dir == types.SendOnly}
		i.touchChan(sc.c)
		if sc.send {
			sc.v = fr.get(st.Send)
		}
		cases = append(cases, sc)
	}
	ready := func() []int {
		var r []int
		for k, sc := range cases {
			if sc.c == nil {
				continue
			}
			if sc.send {
				if sc.c.closed || (sc.c.cap > 0 && len(sc.c.buf) < sc.c.cap) || (sc.c.cap == 0 && sc.c.recvWait > 0 && len(sc.c.buf) == 0) {
					r = append(r, k)
				}
			} else if len(sc.c.buf) > 0 || sc.c.closed {
				r = append(r, k)
			}
		}
		return r
	}
	rd := ready()
	chosen := -1
	if len(rd) == 0 {
		if instr.Blocking {
			for _, sc := range cases {
				if !sc.send && sc.c != nil {
					sc.c.recvWait++
				}
			}
			i.block(func() bool { return len(ready()) > 0 }, "select")
			for _, sc := range cases {
				if !sc.send && sc.c != nil {
					sc.c.recvWait--
				}
			}
			rd = ready()
		}
	}
	if len(rd) > 0 {
		k := 0
		if len(rd) > 1 && i.sch.mode == 1 {
			k = i.choose(len(rd), "select")
		}
		chosen = rd[k]
	}
	r := tuple{chosen, false}
	recvOk := false
	var recvV value
	if chosen >= 0 {
		sc := cases[chosen]
		if sc.send {
			if sc.c.closed {
				panic(targetPanic{v: iface{i.runtimeErrorString, "send on closed channel"}})
			}
			sc.c.buf = append(sc.c.buf, sc.v)
			sc.c.sent++
			i.chanPublish(sc.c)
		} else if len(sc.c.buf) > 0 {
			recvV = sc.c.buf[0]
			sc.c.buf = sc.c.buf[1:]
			sc.c.taken++
			i.chanConsume(sc.c)
			recvOk = true
		} else if i.race != nil && i.race.on && i.sch.cur != nil {
			i.sch.cur.vc.join(sc.c.closeVC)
		}
	}
	r[1] = recvOk
	for k, st := range instr.States {
		if st.Dir == types.RecvOnly {
			var v value
			if k == chosen && recvOk {
				v = recvV
			} else {
				v = zero(st.Chan.Type().Underlying().(*types.Chan).Elem())
			}
			r = append(r, v)
		}
	}
	return r
}

func (i *interpreter) goStmt(fr *frame, pos token.Pos, fn value, args []value) {
	name := "go@" + i.posStr(pos, fr.fn)
	i.spawn(name, func() {
		call(i, nil, pos, fn, args)
	})
	i.event("spawn " + name)
	i.yieldPoint("go")
}

func (i *interpreter) event(s string) {
	if len(i.path.events) < 4096 {
		i.path.events = append(i.path.events, fmt.Sprintf("%s:%s", i.sch.cur.name, s))
	}
}

func (i *interpreter) chanPublish(c *vchan) {
	if i.race != nil && i.race.on && i.sch.cur != nil {
		c.vcs = append(c.vcs, i.sch.cur.vc.copy())
		i.tick(i.sch.cur)
	}
}

func (i *interpreter) chanConsume(c *vchan) {
	if i.race != nil && i.race.on && i.sch.cur != nil && len(c.vcs) > 0 {
		i.sch.cur.vc.join(c.vcs[0])
		c.vcs = c.vcs[1:]
	}
}
