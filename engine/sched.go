package main

// Cooperative threads for interpreted goroutines. Exactly one thread runs at
// a time (baton passing); scheduling choices at visible events are decisions
// of the path (explore mode) or deterministic run-to-block (seq mode).

import (
	"fmt"
	"go/token"
	"os"
	"sync"
)

var schedDebug = os.Getenv("VX_DEBUG") == "5"

const (
	thRunnable = iota
	thRunning
	thBlocked
	thDone
)

type thread struct {
	id     int
	name   string
	resume chan struct{}
	state  int
	cond   func() bool
	what   string
	idle   bool // blocked in vxWaitIdle
	held   map[*value]int
	sch    *schedState
	vc     vclock
	fr     *frame
	pos    token.Pos
}

type schedState struct {
	threads     []*thread
	cur         *thread
	killed      bool
	done        chan struct{} // closed when the path is over
	doneClosed  bool
	mode        int // 0 seq, 1 explore
	preemptions int
	maxPreempt  int
	hang        string
	crash       string
	evalDepth   int
	wg          *sync.WaitGroup
}

func (i *interpreter) newThread(name string) *thread {
	t := &thread{id: len(i.sch.threads), name: name, resume: make(chan struct{}, 1), state: thRunnable, sch: i.sch}
	i.sch.threads = append(i.sch.threads, t)
	return t
}

func (i *interpreter) endPath() {
	if !i.sch.doneClosed {
		i.sch.doneClosed = true
		close(i.sch.done)
	}
}

// spawn starts a new interpreted goroutine running body.
func (i *interpreter) spawn(name string, body func()) *thread {
	t := i.newThread(name)
	if i.race != nil && i.race.on && i.sch.cur != nil {
		t.vc = i.sch.cur.vc.copy()
		i.tick(i.sch.cur)
	}
	t.vc.set(t.id, t.vc.get(t.id)+1)
	sch := i.sch
	sch.wg.Add(1)
	go func() {
		defer sch.wg.Done()
		<-t.resume
		if sch.killed {
			t.state = thDone
			return
		}
		t.state = thRunning
		i.sch.cur = t
		defer func() {
			r := recover()
			t.state = thDone
			if r != nil {
				if pa, ok := r.(pathAbort); ok {
					if pa.kind == "killed" {
						return
					}
					i.abortPath(pa)
					return
				}
				// uncaught target panic in a goroutine: process crash
				i.sch.crash = fmt.Sprintf("goroutine %s: panic: %s", t.name, panicString(r))
				i.endPath()
				return
			}
			// normal end: hand the baton on
			next := i.pickNext(nil)
			if next == nil {
				// nobody can run: either all done or the rest is blocked forever
				i.noRunnable(t)
				return
			}
			i.handoff(next)
		}()
		body()
	}()
	return t
}

func (i *interpreter) abortPath(pa pathAbort) {
	if i.path.ended == "" {
		i.path.ended = pa.kind
		i.path.endMsg = pa.msg
	}
	i.endPath()
}

// noRunnable is called by thread t (finished or about to block) when no
// thread can make progress.
func (i *interpreter) noRunnable(t *thread) {
	var blocked []string
	for _, x := range i.sch.threads {
		if x.state == thBlocked {
			blocked = append(blocked, fmt.Sprintf("%s(%s)", x.name, x.what))
		}
	}
	if len(blocked) > 0 {
		i.sch.hang = fmt.Sprintf("no thread can run; blocked: %v", blocked)
	}
	i.endPath()
}

func (i *interpreter) handoff(next *thread) {
	if schedDebug {
		cur := "-"
		if i.sch.cur != nil {
			cur = i.sch.cur.name
		}
		fmt.Fprintf(os.Stderr, "handoff %s -> %s (state %d, what %s)\n", cur, next.name, next.state, next.what)
	}
	next.state = thRunning
	i.sch.cur = next
	next.resume <- struct{}{}
}

type condBlockedT struct{}

// enabled reports whether t could run now. The wake-up condition may be
// interpreted code (vxWaitUntil); it is evaluated in "evaluation mode": it must
// not block or yield, and if it would block the thread counts as not enabled.
func (t *thread) enabled() (ok bool) {
	switch t.state {
	case thRunnable:
		return true
	case thBlocked:
		if t.idle || t.cond == nil {
			return false
		}
		t.sch.evalDepth++
		defer func() {
			t.sch.evalDepth--
			if r := recover(); r != nil {
				if _, isCB := r.(condBlockedT); isCB {
					ok = false
					return
				}
				panic(r)
			}
		}()
		return t.cond()
	}
	return false
}

// pickNext selects the next thread to run, excluding "me" unless me is enabled.
// Returns nil if none.
func (i *interpreter) pickNext(me *thread) *thread {
	var cands []*thread
	n := len(i.sch.threads)
	start := 0
	if i.sch.cur != nil {
		start = i.sch.cur.id + 1
	}
	for k := 0; k < n; k++ {
		t := i.sch.threads[(start+k)%n]
		if t == me {
			continue
		}
		if t.enabled() {
			cands = append(cands, t)
		}
	}
	if len(cands) == 0 {
		// idle waiters run only when nothing else can
		for _, t := range i.sch.threads {
			if t != me && t.state == thBlocked && t.idle {
				return t
			}
		}
		return nil
	}
	if i.sch.mode == 0 || len(cands) == 1 {
		return cands[0]
	}
	k := i.choose(len(cands), "sched")
	return cands[k]
}

// block suspends the current thread until cond holds.
func (i *interpreter) block(cond func() bool, what string) {
	if cond() {
		return
	}
	if i.sch.evalDepth > 0 {
		panic(condBlockedT{})
	}
	t := i.sch.cur
	for !cond() {
		t.state = thBlocked
		t.cond = cond
		t.what = what
		next := i.pickNext(t)
		if next == nil {
			i.noRunnable(t)
			i.park(t)
		}
		i.handoff(next)
		i.park(t)
	}
	t.state = thRunning
	t.cond = nil
	t.what = ""
}

// park waits until this thread is resumed (or the path is killed).
func (i *interpreter) park(t *thread) {
	<-t.resume
	if t.sch.killed {
		panic(pathAbort{"killed", ""})
	}
	t.state = thRunning
	i.sch.cur = t
}

// waitIdle blocks the current thread until no other thread can run.
func (i *interpreter) waitIdle() {
	t := i.sch.cur
	for {
		next := i.pickNext(t)
		if next == nil {
			return
		}
		t.state = thBlocked
		t.idle = true
		t.what = "waitIdle"
		i.handoff(next)
		i.park(t)
		t.idle = false
	}
}

// yieldPoint is a visible event in explore mode: another enabled thread may
// be scheduled here (bounded number of pre-emptions).
func (i *interpreter) yieldPoint(ev string) {
	if i.sch.mode == 0 || len(i.sch.threads) < 2 || i.sch.evalDepth > 0 {
		return
	}
	if i.sch.preemptions >= i.sch.maxPreempt {
		return
	}
	t := i.sch.cur
	var cands []*thread
	for _, x := range i.sch.threads {
		if x != t && x.enabled() {
			cands = append(cands, x)
		}
	}
	if len(cands) == 0 {
		return
	}
	k := i.choose(len(cands)+1, "preempt@"+ev)
	if k == 0 {
		return
	}
	i.sch.preemptions++
	t.state = thRunnable
	i.handoff(cands[k-1])
	i.park(t)
}

// killAll terminates every parked thread at the end of a path.
func (i *interpreter) killAll() {
	i.sch.killed = true
	for _, t := range i.sch.threads {
		if t.state != thDone {
			select {
			case t.resume <- struct{}{}:
			default:
			}
		}
	}
}

func panicString(r interface{}) string {
	switch p := r.(type) {
	case targetPanic:
		return toStringTrunc(p.v) + " [" + p.where + "]"
	case rtError:
		return p.Error() + " [" + p.where + "]"
	case error:
		return p.Error()
	case string:
		return p
	}
	return fmt.Sprintf("%v", r)
}
