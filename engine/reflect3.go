package main

// Reflection used by router.go to build handlers from controller structs and
// handler functions: Type.Name/PkgPath/Implements/NumMethod/Method/FieldByName,
// Value.Call/Pointer, runtime.FuncForPC, and the pointer-plus-offset idiom
// (`ctrl.Pointer() + field.Offset` cast back to a typed pointer).

import (
	"fmt"
	"go/types"
	"sort"
	"unicode"
	"unsafe"

	"golang.org/x/tools/go/ssa"
)

// ptrInt is the uintptr obtained from reflect.Value.Pointer() of a pointer:
// it remembers the pointee so that base+offset can be turned back into the
// address of a field.
type ptrInt struct {
	p   *value
	t   types.Type // pointee type
	off int64
}

func (x ptrInt) raw() uintptr { return uintptr(unsafe.Pointer(x.p)) + uintptr(x.off) }

// resolve returns the address of the sub-object at offset off inside *p.
func (i *interpreter) resolvePtrInt(x ptrInt) (*value, types.Type) {
	cell, t, off := x.p, x.t, x.off
	for {
		if off == 0 {
			// offset 0 is the object itself or its first field: the typed
			// conversion that follows decides (descendTo)
			return cell, t
		}
		switch tt := t.Underlying().(type) {
		case *types.Struct:
			fields := make([]*types.Var, tt.NumFields())
			for k := range fields {
				fields[k] = tt.Field(k)
			}
			offs := i.sizes.Offsetsof(fields)
			found := -1
			for k := len(fields) - 1; k >= 0; k-- {
				if offs[k] <= off {
					found = k
					break
				}
			}
			if found < 0 {
				panic(unsupported("pointer arithmetic outside the object"))
			}
			st := (*cell).(structure)
			cell, t, off = &st[found], fields[found].Type(), off-offs[found]
		case *types.Array:
			esz := i.sizes.Sizeof(tt.Elem())
			k := off / esz
			ar := (*cell).(array)
			if k < 0 || int(k) >= len(ar) {
				panic(unsupported("pointer arithmetic outside the array"))
			}
			cell, t, off = &ar[k], tt.Elem(), off-k*esz
		default:
			panic(unsupported(fmt.Sprintf("pointer arithmetic into %s", t)))
		}
	}
}

func exportedMethods(i *interpreter, t types.Type) []*types.Selection {
	ms := i.prog.MethodSets.MethodSet(t)
	var out []*types.Selection
	for k := 0; k < ms.Len(); k++ {
		if ms.At(k).Obj().Exported() {
			out = append(out, ms.At(k))
		}
	}
	sort.Slice(out, func(a, b int) bool { return out[a].Obj().Name() < out[b].Obj().Name() })
	return out
}

func structFieldValue(i *interpreter, st *types.Struct, k int) value {
	fields := make([]*types.Var, st.NumFields())
	for j := range fields {
		fields[j] = st.Field(j)
	}
	offs := i.sizes.Offsetsof(fields)
	f := st.Field(k)
	pkg := ""
	if !f.Exported() && f.Pkg() != nil {
		pkg = f.Pkg().Path()
	}
	return structure{
		f.Name(),
		pkg,
		makeReflectType(rtype{f.Type()}),
		st.Tag(k),
		uintptr(offs[k]),
		[]value{k},
		f.Anonymous(),
	}
}

type funcBox struct{ name string }

func init() {
	ov := map[string]externalFn{
		"(reflect.rtype).Name": func(fr *frame, a []value) value {
			if n, ok := a[0].(rtype).t.(*types.Named); ok {
				return n.Obj().Name()
			}
			if b, ok := a[0].(rtype).t.(*types.Basic); ok {
				return b.Name()
			}
			return ""
		},
		"(reflect.rtype).PkgPath": func(fr *frame, a []value) value {
			if n, ok := a[0].(rtype).t.(*types.Named); ok && n.Obj().Pkg() != nil {
				return n.Obj().Pkg().Path()
			}
			return ""
		},
		"(reflect.rtype).Implements": func(fr *frame, a []value) value {
			u := a[1].(iface).v.(rtype).t
			it, ok := u.Underlying().(*types.Interface)
			if !ok {
				panic(targetPanic{v: iface{fr.i.runtimeErrorString, "reflect: non-interface type passed to Type.Implements"}})
			}
			return types.Implements(a[0].(rtype).t, it)
		},
		"(reflect.rtype).NumMethod": func(fr *frame, a []value) value {
			t := a[0].(rtype).t
			if it, ok := t.Underlying().(*types.Interface); ok {
				return it.NumMethods()
			}
			return len(exportedMethods(fr.i, t))
		},
		"(reflect.rtype).Method": func(fr *frame, a []value) value {
			i := fr.i
			t := a[0].(rtype).t
			k := int(asInt64(a[1]))
			if it, ok := t.Underlying().(*types.Interface); ok {
				m := it.Method(k) // sorted by name in a completed interface
				return structure{m.Name(), "", makeReflectType(rtype{m.Type()}), structure{iface{}, iface{}}, k}
			}
			ms := exportedMethods(i, t)
			if k < 0 || k >= len(ms) {
				panic(targetPanic{v: iface{i.runtimeErrorString, "reflect: Method index out of range"}})
			}
			sel := ms[k]
			fn := i.prog.MethodValue(sel)
			sig := sel.Obj().Type().(*types.Signature)
			// method expression type: receiver becomes the first parameter
			params := []*types.Var{types.NewVar(0, nil, "recv", t)}
			for j := 0; j < sig.Params().Len(); j++ {
				params = append(params, sig.Params().At(j))
			}
			mt := types.NewSignatureType(nil, nil, nil, types.NewTuple(params...), sig.Results(), sig.Variadic())
			return structure{sel.Obj().Name(), "", makeReflectType(rtype{mt}), makeReflectValue(mt, fn), k}
		},
		"(reflect.rtype).FieldByName": func(fr *frame, a []value) value {
			st := a[0].(rtype).t.Underlying().(*types.Struct)
			name, _ := concreteStr(a[1])
			for k := 0; k < st.NumFields(); k++ {
				if st.Field(k).Name() == name {
					return tuple{structFieldValue(fr.i, st, k), true}
				}
			}
			return tuple{structure{"", "", iface{}, "", uintptr(0), []value(nil), false}, false}
		},
		"(reflect.rtype).Field": func(fr *frame, a []value) value {
			st := a[0].(rtype).t.Underlying().(*types.Struct)
			return structFieldValue(fr.i, st, int(asInt64(a[1])))
		},
		"(reflect.Value).Pointer": func(fr *frame, a []value) value {
			switch v := rV2V(a[0]).(type) {
			case *value:
				if v == nil {
					return uintptr(0)
				}
				pt, ok := rV2T(a[0]).t.Underlying().(*types.Pointer)
				if !ok {
					return uintptr(unsafe.Pointer(v))
				}
				return ptrInt{p: v, t: pt.Elem()}
			case *ssa.Function:
				return fr.i.funcPC(v)
			case *closure:
				return fr.i.funcPC(v.Fn)
			case []value:
				if len(v) == 0 {
					return uintptr(0)
				}
				return uintptr(unsafe.Pointer(&v[0]))
			case *omap:
				return uintptr(unsafe.Pointer(v))
			case *vchan:
				return uintptr(unsafe.Pointer(v))
			}
			panic(unsupported("reflect.Value.Pointer of this kind"))
		},
		"(reflect.Value).Call": func(fr *frame, a []value) value {
			i := fr.i
			sig := rV2T(a[0]).t.Underlying().(*types.Signature)
			fn := rV2V(a[0])
			in := a[1].([]value)
			args := make([]value, len(in))
			for k := range in {
				v := rV2V(in[k])
				pt := sig.Params().At(k).Type()
				if _, isI := pt.Underlying().(*types.Interface); isI {
					if _, already := v.(iface); !already {
						v = iface{rV2T(in[k]).t, v}
					}
				}
				args[k] = v
			}
			res := call(i, fr, 0, fn, args)
			var out []value
			switch sig.Results().Len() {
			case 0:
			case 1:
				out = append(out, makeReflectValue(sig.Results().At(0).Type(), res))
			default:
				tup := res.(tuple)
				for k := range tup {
					out = append(out, makeReflectValue(sig.Results().At(k).Type(), tup[k]))
				}
			}
			return out
		},
		"runtime.FuncForPC": func(fr *frame, a []value) value {
			name := "?"
			if pc, ok := a[0].(uintptr); ok {
				if n, ok := fr.i.pcNames[pc]; ok {
					name = n
				}
			}
			var cell value = funcBox{name}
			return &cell
		},
		"(*runtime.Func).Name": func(fr *frame, a []value) value {
			p := a[0].(*value)
			if p == nil {
				return ""
			}
			if fb, ok := (*p).(funcBox); ok {
				return fb.name
			}
			return "?"
		},
		"unicode.IsUpper": func(fr *frame, a []value) value {
			if r, ok := a[0].(int32); ok {
				return unicode.IsUpper(r)
			}
			panic(unsupported("unicode.IsUpper of a symbolic rune"))
		},
		"unicode.IsLower": func(fr *frame, a []value) value {
			if r, ok := a[0].(int32); ok {
				return unicode.IsLower(r)
			}
			panic(unsupported("unicode.IsLower of a symbolic rune"))
		},
	}
	for k, v := range ov {
		externals[k] = v
	}
}

func (i *interpreter) funcPC(fn *ssa.Function) value {
	pc := uintptr(unsafe.Pointer(fn))
	if i.pcNames == nil {
		i.pcNames = map[uintptr]string{}
	}
	i.pcNames[pc] = fn.String()
	return pc
}

// descendTo follows first fields/elements from (cell of type t) until the
// pointee type is want (pointer to a struct vs pointer to its first field).
func descendTo(cell *value, t, want types.Type) *value {
	for n := 0; n < 8 && t != nil && !types.Identical(t, want); n++ {
		switch tt := t.Underlying().(type) {
		case *types.Struct:
			st, ok := (*cell).(structure)
			if !ok || len(st) == 0 {
				return cell
			}
			cell, t = &st[0], tt.Field(0).Type()
		case *types.Array:
			ar, ok := (*cell).(array)
			if !ok || len(ar) == 0 {
				return cell
			}
			cell, t = &ar[0], tt.Elem()
		default:
			return cell
		}
	}
	return cell
}
