package main

// SMT terms: hash-consed DAG over fixed-width bit-vectors and Bool, with
// constant folding in the constructors so that concrete computations stay
// concrete, and an SMT-LIB2 printer that shares sub-terms with define-fun.

import (
	"fmt"
	"math/bits"
	"strings"
)

type Term struct {
	id   int
	op   string // "const","var","true","false", bv ops, "=", "bvult", ..., "and","or","not","ite","extract","concat","zext","sext"
	w    int    // bit width, 0 = Bool
	args []*Term
	k    uint64 // constant value / extract hi
	k2   int    // extract lo / ext amount
	name string
	size int // dag-ish size estimate
}

type tctx struct {
	tab map[string]*Term
	n   int
	tt  *Term
	ff  *Term
}

func newTctx() *tctx {
	c := &tctx{tab: map[string]*Term{}}
	c.tt = c.mk(&Term{op: "true"})
	c.ff = c.mk(&Term{op: "false"})
	return c
}

func (c *tctx) mk(t *Term) *Term {
	var sb strings.Builder
	sb.WriteString(t.op)
	fmt.Fprintf(&sb, "/%d/%d/%d/%s", t.w, t.k, t.k2, t.name)
	for _, a := range t.args {
		fmt.Fprintf(&sb, ",%d", a.id)
	}
	key := sb.String()
	if o, ok := c.tab[key]; ok {
		return o
	}
	c.n++
	t.id = c.n
	t.size = 1
	for _, a := range t.args {
		t.size += a.size
	}
	c.tab[key] = t
	return t
}

func mask(w int) uint64 {
	if w >= 64 {
		return ^uint64(0)
	}
	return (uint64(1) << uint(w)) - 1
}

func (t *Term) isConst() bool { return t.op == "const" || t.op == "true" || t.op == "false" }
func (t *Term) isBool() bool  { return t.w == 0 }

func (c *tctx) Const(w int, v uint64) *Term {
	return c.mk(&Term{op: "const", w: w, k: v & mask(w)})
}
func (c *tctx) Bool(b bool) *Term {
	if b {
		return c.tt
	}
	return c.ff
}
func (c *tctx) Var(name string, w int) *Term {
	return c.mk(&Term{op: "var", w: w, name: name})
}

func sext64(v uint64, w int) int64 {
	if w >= 64 {
		return int64(v)
	}
	sh := uint(64 - w)
	return int64(v<<sh) >> sh
}

// evalBV computes a binary bit-vector op on constants.
func evalBV(op string, w int, a, b uint64) uint64 {
	m := mask(w)
	switch op {
	case "bvadd":
		return (a + b) & m
	case "bvsub":
		return (a - b) & m
	case "bvmul":
		return (a * b) & m
	case "bvand":
		return a & b
	case "bvor":
		return a | b
	case "bvxor":
		return a ^ b
	case "bvudiv":
		if b == 0 {
			return m
		}
		return a / b
	case "bvurem":
		if b == 0 {
			return a
		}
		return a % b
	case "bvsdiv":
		sa, sb := sext64(a, w), sext64(b, w)
		if sb == 0 {
			if sa >= 0 {
				return m
			}
			return 1
		}
		if sb == -1 {
			return uint64(-sa) & m
		}
		return uint64(sa/sb) & m
	case "bvsrem":
		sa, sb := sext64(a, w), sext64(b, w)
		if sb == 0 {
			return a
		}
		if sb == -1 {
			return 0
		}
		return uint64(sa%sb) & m
	case "bvshl":
		if b >= uint64(w) {
			return 0
		}
		return (a << b) & m
	case "bvlshr":
		if b >= uint64(w) {
			return 0
		}
		return a >> b
	case "bvashr":
		sa := sext64(a, w)
		if b >= uint64(w) {
			if sa < 0 {
				return m
			}
			return 0
		}
		return uint64(sa>>b) & m
	}
	panic("evalBV: " + op)
}

func evalCmp(op string, w int, a, b uint64) bool {
	switch op {
	case "=":
		return a == b
	case "bvult":
		return a < b
	case "bvule":
		return a <= b
	case "bvslt":
		return sext64(a, w) < sext64(b, w)
	case "bvsle":
		return sext64(a, w) <= sext64(b, w)
	}
	panic("evalCmp: " + op)
}

func (c *tctx) BV(op string, a, b *Term) *Term {
	if a.w != b.w || a.w == 0 {
		panic(fmt.Sprintf("BV %s: width mismatch %d %d", op, a.w, b.w))
	}
	w := a.w
	if a.isConst() && b.isConst() {
		return c.Const(w, evalBV(op, w, a.k, b.k))
	}
	// light algebraic simplification
	switch op {
	case "bvadd", "bvor", "bvxor":
		if a.isConst() && a.k == 0 {
			return b
		}
		if b.isConst() && b.k == 0 {
			return a
		}
	case "bvsub", "bvshl", "bvlshr", "bvashr":
		if b.isConst() && b.k == 0 {
			return a
		}
		if op == "bvsub" && a == b {
			return c.Const(w, 0)
		}
	case "bvand":
		if a.isConst() && a.k == 0 || b.isConst() && b.k == 0 {
			return c.Const(w, 0)
		}
		if a.isConst() && a.k == mask(w) {
			return b
		}
		if b.isConst() && b.k == mask(w) {
			return a
		}
		if a == b {
			return a
		}
	case "bvmul":
		if a.isConst() && a.k == 0 || b.isConst() && b.k == 0 {
			return c.Const(w, 0)
		}
		if a.isConst() && a.k == 1 {
			return b
		}
		if b.isConst() && b.k == 1 {
			return a
		}
	}
	if (op == "bvor" || op == "bvand") && a == b {
		return a
	}
	// (zext x) shifted/ored patterns are left to the solver.
	return c.mk(&Term{op: op, w: w, args: []*Term{a, b}})
}

func (c *tctx) Cmp(op string, a, b *Term) *Term {
	if a.w != b.w {
		panic(fmt.Sprintf("Cmp %s: width mismatch %d %d", op, a.w, b.w))
	}
	if a.w == 0 {
		if op != "=" {
			panic("bool cmp " + op)
		}
		return c.Iff(a, b)
	}
	if a.isConst() && b.isConst() {
		return c.Bool(evalCmp(op, a.w, a.k, b.k))
	}
	if a == b {
		switch op {
		case "=", "bvule", "bvsle":
			return c.tt
		default:
			return c.ff
		}
	}
	if op == "=" {
		// ite(c, k1, k2) == k  ==> c / !c / false
		x, k := a, b
		if x.isConst() {
			x, k = b, a
		}
		if k.isConst() && x.op == "ite" && x.args[1].isConst() && x.args[2].isConst() {
			t1 := x.args[1].k == k.k
			t2 := x.args[2].k == k.k
			switch {
			case t1 && t2:
				return c.tt
			case t1:
				return x.args[0]
			case t2:
				return c.Not(x.args[0])
			default:
				return c.ff
			}
		}
		// zext(x) == const  ==> x == trunc(const) or false
		if k.isConst() && x.op == "zext" {
			in := x.args[0]
			if k.k&^mask(in.w) != 0 {
				return c.ff
			}
			return c.Cmp("=", in, c.Const(in.w, k.k))
		}
		if a.id > b.id {
			a, b = b, a
		}
	}
	if op == "bvult" && b.isConst() && b.k == 0 {
		return c.ff
	}
	// cheap unsigned range reasoning
	if op == "bvult" || op == "bvule" {
		ua, la := ubound(a, 0), lbound(a)
		ub, lb := ubound(b, 0), lbound(b)
		if op == "bvult" {
			if ua < lb {
				return c.tt
			}
			if la >= ub {
				return c.ff
			}
		} else {
			if ua <= lb {
				return c.tt
			}
			if la > ub {
				return c.ff
			}
		}
	}
	if op == "=" {
		if ubound(a, 0) < lbound(b) || ubound(b, 0) < lbound(a) {
			return c.ff
		}
	}
	if op == "bvule" && a.isConst() && a.k == 0 {
		return c.tt
	}
	if (op == "bvult" || op == "bvule") && a.op == "zext" && b.isConst() {
		in := a.args[0]
		if b.k > mask(in.w) {
			return c.tt
		}
		return c.Cmp(op, in, c.Const(in.w, b.k))
	}
	return c.mk(&Term{op: op, w: 0, args: []*Term{a, b}})
}

func (c *tctx) Not(a *Term) *Term {
	if a.w != 0 {
		// bit-vector not
		if a.isConst() {
			return c.Const(a.w, ^a.k)
		}
		if a.op == "bvnot" {
			return a.args[0]
		}
		return c.mk(&Term{op: "bvnot", w: a.w, args: []*Term{a}})
	}
	switch a.op {
	case "true":
		return c.ff
	case "false":
		return c.tt
	case "not":
		return a.args[0]
	}
	return c.mk(&Term{op: "not", args: []*Term{a}})
}

func (c *tctx) Neg(a *Term) *Term {
	return c.BV("bvsub", c.Const(a.w, 0), a)
}

func (c *tctx) And(a, b *Term) *Term {
	if a.op == "false" || b.op == "false" {
		return c.ff
	}
	if a.op == "true" {
		return b
	}
	if b.op == "true" {
		return a
	}
	if a == b {
		return a
	}
	if a.id > b.id {
		a, b = b, a
	}
	return c.mk(&Term{op: "and", args: []*Term{a, b}})
}

func (c *tctx) Or(a, b *Term) *Term {
	if a.op == "true" || b.op == "true" {
		return c.tt
	}
	if a.op == "false" {
		return b
	}
	if b.op == "false" {
		return a
	}
	if a == b {
		return a
	}
	if a.id > b.id {
		a, b = b, a
	}
	return c.mk(&Term{op: "or", args: []*Term{a, b}})
}

func (c *tctx) Iff(a, b *Term) *Term {
	if a.isConst() && b.isConst() {
		return c.Bool(a.op == b.op)
	}
	if a.op == "true" {
		return b
	}
	if b.op == "true" {
		return a
	}
	if a.op == "false" {
		return c.Not(b)
	}
	if b.op == "false" {
		return c.Not(a)
	}
	if a == b {
		return c.tt
	}
	if a.id > b.id {
		a, b = b, a
	}
	return c.mk(&Term{op: "=", args: []*Term{a, b}})
}

func (c *tctx) Ite(cond, a, b *Term) *Term {
	if a.w != b.w {
		panic("ite width mismatch")
	}
	if cond.op == "true" {
		return a
	}
	if cond.op == "false" {
		return b
	}
	if a == b {
		return a
	}
	if a.w == 0 {
		if a.op == "true" && b.op == "false" {
			return cond
		}
		if a.op == "false" && b.op == "true" {
			return c.Not(cond)
		}
	}
	return c.mk(&Term{op: "ite", w: a.w, args: []*Term{cond, a, b}})
}

func (c *tctx) Extract(hi, lo int, a *Term) *Term {
	w := hi - lo + 1
	if lo == 0 && w == a.w {
		return a
	}
	if a.isConst() {
		return c.Const(w, a.k>>uint(lo))
	}
	if (a.op == "zext" || a.op == "sext") && hi < a.args[0].w {
		return c.Extract(hi, lo, a.args[0])
	}
	if a.op == "zext" && lo >= a.args[0].w {
		return c.Const(w, 0)
	}
	if a.op == "concat" {
		lw := a.args[1].w
		if hi < lw {
			return c.Extract(hi, lo, a.args[1])
		}
		if lo >= lw {
			return c.Extract(hi-lw, lo-lw, a.args[0])
		}
	}
	if a.op == "extract" {
		return c.Extract(hi+a.k2, lo+a.k2, a.args[0])
	}
	return c.mk(&Term{op: "extract", w: w, k: uint64(hi), k2: lo, args: []*Term{a}})
}

func (c *tctx) Concat(hi, lo *Term) *Term {
	if hi.isConst() && lo.isConst() {
		return c.Const(hi.w+lo.w, hi.k<<uint(lo.w)|lo.k)
	}
	if hi.isConst() && hi.k == 0 {
		return c.ZExt(hi.w+lo.w, lo)
	}
	return c.mk(&Term{op: "concat", w: hi.w + lo.w, args: []*Term{hi, lo}})
}

// ZExt extends a to width w (w >= a.w).
func (c *tctx) ZExt(w int, a *Term) *Term {
	if w == a.w {
		return a
	}
	if w < a.w {
		return c.Extract(w-1, 0, a)
	}
	if a.isConst() {
		return c.Const(w, a.k)
	}
	if a.op == "zext" {
		return c.ZExt(w, a.args[0])
	}
	return c.mk(&Term{op: "zext", w: w, k2: w - a.w, args: []*Term{a}})
}

func (c *tctx) SExt(w int, a *Term) *Term {
	if w == a.w {
		return a
	}
	if w < a.w {
		return c.Extract(w-1, 0, a)
	}
	if a.isConst() {
		return c.Const(w, uint64(sext64(a.k, a.w)))
	}
	if a.op == "zext" {
		return c.ZExt(w, a.args[0])
	}
	return c.mk(&Term{op: "sext", w: w, k2: w - a.w, args: []*Term{a}})
}

// ---------------------------------------------------------------- printing

func sortOf(w int) string {
	if w == 0 {
		return "Bool"
	}
	return fmt.Sprintf("(_ BitVec %d)", w)
}

func bvLit(w int, v uint64) string {
	if w%4 == 0 {
		return fmt.Sprintf("#x%0*x", w/4, v)
	}
	return fmt.Sprintf("#b%0*b", w, v)
}

// smtPrinter emits define-fun for shared nodes; defined ids are tracked per
// solver scope by the caller.
type smtPrinter struct {
	defined map[int]bool
	out     *strings.Builder
	onDef   func(id int)
}

func (p *smtPrinter) ref(t *Term) string {
	switch t.op {
	case "true", "false":
		return t.op
	case "const":
		return bvLit(t.w, t.k)
	case "var":
		return t.name
	}
	if !p.defined[t.id] {
		p.define(t)
	}
	return fmt.Sprintf("t!%d", t.id)
}

func (p *smtPrinter) define(t *Term) {
	// iterative post-order to avoid deep recursion
	type item struct {
		t    *Term
		done bool
	}
	stack := []item{{t, false}}
	for len(stack) > 0 {
		it := stack[len(stack)-1]
		stack = stack[:len(stack)-1]
		x := it.t
		if x.op == "const" || x.op == "var" || x.op == "true" || x.op == "false" || p.defined[x.id] {
			continue
		}
		if !it.done {
			stack = append(stack, item{x, true})
			for _, a := range x.args {
				stack = append(stack, item{a, false})
			}
			continue
		}
		var sb strings.Builder
		switch x.op {
		case "extract":
			fmt.Fprintf(&sb, "((_ extract %d %d) %s)", x.k, x.k2, p.leaf(x.args[0]))
		case "zext":
			fmt.Fprintf(&sb, "((_ zero_extend %d) %s)", x.k2, p.leaf(x.args[0]))
		case "sext":
			fmt.Fprintf(&sb, "((_ sign_extend %d) %s)", x.k2, p.leaf(x.args[0]))
		default:
			sb.WriteString("(" + x.op)
			for _, a := range x.args {
				sb.WriteString(" " + p.leaf(a))
			}
			sb.WriteString(")")
		}
		fmt.Fprintf(p.out, "(define-fun t!%d () %s %s)\n", x.id, sortOf(x.w), sb.String())
		p.defined[x.id] = true
		if p.onDef != nil {
			p.onDef(x.id)
		}
	}
}

func (p *smtPrinter) leaf(t *Term) string {
	switch t.op {
	case "true", "false":
		return t.op
	case "const":
		return bvLit(t.w, t.k)
	case "var":
		return t.name
	}
	return fmt.Sprintf("t!%d", t.id)
}

// ---------------------------------------------------------------- evaluation

// evalTerm evaluates t under a model (variables absent from the model are 0).
func evalTerm(t *Term, model map[string]uint64, memo map[int]uint64) uint64 {
	if v, ok := memo[t.id]; ok {
		return v
	}
	var r uint64
	b2u := func(b bool) uint64 {
		if b {
			return 1
		}
		return 0
	}
	ev := func(i int) uint64 { return evalTerm(t.args[i], model, memo) }
	switch t.op {
	case "true":
		r = 1
	case "false":
		r = 0
	case "const":
		r = t.k
	case "var":
		r = model[t.name] & maskB(t.w)
	case "not":
		r = 1 - ev(0)
	case "bvnot":
		r = ^ev(0) & mask(t.w)
	case "and":
		r = ev(0) & ev(1)
	case "or":
		r = ev(0) | ev(1)
	case "ite":
		if ev(0) == 1 {
			r = ev(1)
		} else {
			r = ev(2)
		}
	case "extract":
		r = (ev(0) >> uint(t.k2)) & mask(t.w)
	case "concat":
		r = ev(0)<<uint(t.args[1].w) | ev(1)
	case "zext":
		r = ev(0)
	case "sext":
		r = uint64(sext64(ev(0), t.args[0].w)) & mask(t.w)
	case "=", "bvult", "bvule", "bvslt", "bvsle":
		r = b2u(evalCmp(t.op, t.args[0].w, ev(0), ev(1)))
	default:
		r = evalBV(t.op, t.w, ev(0), ev(1))
	}
	memo[t.id] = r
	return r
}

func maskB(w int) uint64 {
	if w == 0 {
		return 1
	}
	return mask(w)
}

func (t *Term) String() string {
	var sb strings.Builder
	t.str(&sb, 0)
	return sb.String()
}

func (t *Term) str(sb *strings.Builder, depth int) {
	switch t.op {
	case "true", "false":
		sb.WriteString(t.op)
	case "const":
		fmt.Fprintf(sb, "%d", t.k)
	case "var":
		sb.WriteString(t.name)
	default:
		if depth > 6 {
			sb.WriteString("…")
			return
		}
		sb.WriteString("(" + t.op)
		for _, a := range t.args {
			sb.WriteString(" ")
			a.str(sb, depth+1)
		}
		sb.WriteString(")")
	}
}

var _ = bits.Len

// ubound is a cheap syntactic upper bound of t as an unsigned number.
func ubound(t *Term, depth int) uint64 {
	m := mask(t.w)
	if depth > 8 {
		return m
	}
	switch t.op {
	case "const":
		return t.k
	case "zext":
		return ubound(t.args[0], depth+1)
	case "extract":
		if t.k2 == 0 {
			u := ubound(t.args[0], depth+1)
			if u < m {
				return u
			}
		}
		return m
	case "bvlshr":
		if t.args[1].isConst() {
			if t.args[1].k >= uint64(t.w) {
				return 0
			}
			return ubound(t.args[0], depth+1) >> t.args[1].k
		}
		return ubound(t.args[0], depth+1)
	case "bvand":
		a, b := ubound(t.args[0], depth+1), ubound(t.args[1], depth+1)
		if a < b {
			return a
		}
		return b
	case "bvor", "bvxor":
		a, b := ubound(t.args[0], depth+1), ubound(t.args[1], depth+1)
		x := a | b
		// smallest 2^k-1 >= x
		r := uint64(0)
		for r < x {
			r = r<<1 | 1
		}
		if r < m {
			return r
		}
		return m
	case "ite":
		a, b := ubound(t.args[1], depth+1), ubound(t.args[2], depth+1)
		if a > b {
			return a
		}
		return b
	case "bvurem":
		if t.args[1].isConst() && t.args[1].k > 0 {
			u := t.args[1].k - 1
			if a := ubound(t.args[0], depth+1); a < u {
				return a
			}
			return u
		}
		return ubound(t.args[0], depth+1)
	case "bvudiv":
		if t.args[1].isConst() && t.args[1].k > 0 {
			return ubound(t.args[0], depth+1) / t.args[1].k
		}
		return ubound(t.args[0], depth+1)
	case "bvadd":
		a, b := ubound(t.args[0], depth+1), ubound(t.args[1], depth+1)
		if a+b >= a && a+b <= m {
			return a + b
		}
		return m
	}
	return m
}

// lbound is a cheap lower bound (only constants are informative).
func lbound(t *Term) uint64 {
	if t.op == "const" {
		return t.k
	}
	return 0
}
