package main

// `gosymx check <ID>`: runs every harness instance of a property on parallel
// workers, replays counterexamples natively, applies the known-findings file,
// writes the evidence file and sets the exit code.

import (
	"encoding/json"
	"flag"
	"fmt"
	"os"
	"os/exec"
	"path/filepath"
	"runtime"
	"sort"
	"strings"
	"sync"
	"time"
)

type checkSpec struct {
	id          string
	dirs        []string // repo-relative package dirs to load (first is default job dir)
	level       string   // evidence level
	jobs        func(tier string) []job
	assumptions []string
	explanation string
	bounds      string
}

var checks = map[string]*checkSpec{}

func registerCheck(c *checkSpec) { checks[c.id] = c }

func pkgOf(dir string) string {
	if dir == "." {
		return repoModule
	}
	return repoModule + "/" + dir
}

// J builds a job.
func J(dir, harness string, args ...int) job {
	return job{pkg: pkgOf(dir), harness: harness, args: args}
}

type knownFinding struct {
	Property string `json:"property"`
	Status   string `json:"status"` // "open" or "fixed"
	Harness  string `json:"harness"`
	Kind     string `json:"kind"`
	Msg      string `json:"msg_contains"`
	What     string `json:"what"`
	Commit   string `json:"commit,omitempty"`
}

func loadKnownFindings() []knownFinding {
	var kf struct {
		Findings []knownFinding `json:"findings"`
	}
	b, err := os.ReadFile(filepath.Join(verifRoot(), "known_findings.json"))
	if err != nil {
		return nil
	}
	if err := json.Unmarshal(b, &kf); err != nil {
		fmt.Fprintln(os.Stderr, "known_findings.json:", err)
		os.Exit(2)
	}
	return kf.Findings
}

func matchFinding(kfs []knownFinding, prop string, v violation) *knownFinding {
	for k := range kfs {
		f := &kfs[k]
		if f.Property != prop || f.Status != "open" {
			continue
		}
		if f.Harness != "" && f.Harness != v.Harness {
			continue
		}
		if f.Kind != "" && f.Kind != v.Kind {
			continue
		}
		if f.Msg != "" && !strings.Contains(v.Msg, f.Msg) {
			continue
		}
		return f
	}
	return nil
}

func cmdCheck(argv []string) {
	fs := flag.NewFlagSet("check", flag.ExitOnError)
	tier := fs.String("tier", "", "quick|thorough")
	solverKind := fs.String("solver", "z3-new", "primary solver")
	workers := fs.Int("workers", 0, "parallel workers (default: cores)")
	noReplay := fs.Bool("no-replay", false, "skip native replay (development)")
	nWit := fs.Int("witnesses", -1, "path witnesses per harness instance validated against the native build (default: 1 quick, 3 thorough; 0 = off)")
	only := fs.String("only", "", "run only harnesses containing this substring (development; evidence not written)")
	// the property id may come before or after the flags
	var ids, flags []string
	for k := 0; k < len(argv); k++ {
		a := argv[k]
		if strings.HasPrefix(a, "-") {
			flags = append(flags, a)
			if !strings.Contains(a, "=") && k+1 < len(argv) && !strings.HasPrefix(argv[k+1], "-") && a != "--no-replay" && a != "-no-replay" {
				flags = append(flags, argv[k+1])
				k++
			}
		} else {
			ids = append(ids, a)
		}
	}
	fs.Parse(flags)
	if len(ids) != 1 {
		fmt.Fprintln(os.Stderr, "usage: gosymx check <ID> [--tier quick|thorough]")
		os.Exit(2)
	}
	id := ids[0]
	spec := checks[id]
	if spec == nil {
		fmt.Fprintln(os.Stderr, "unknown property", id)
		os.Exit(2)
	}
	if *tier == "" {
		*tier = os.Getenv("VERIF_TIER")
	}
	if *tier != "thorough" {
		*tier = "quick"
	}
	seed := 0
	fmt.Sscanf(os.Getenv("VERIF_SEED"), "%d", &seed)
	t0 := time.Now()

	p, err := loadProgram(verifRoot(), spec.dirs)
	if err != nil {
		fmt.Println("INCONCLUSIVE: cannot load /repo:", err)
		os.Exit(2)
	}
	jobs := spec.jobs(*tier)
	if *only != "" {
		var f []job
		for _, j := range jobs {
			if strings.Contains(j.harness, *only) {
				f = append(f, j)
			}
		}
		jobs = f
	}
	// seed only permutes the work order
	if seed != 0 {
		r := uint64(seed)*6364136223846793005 + 1442695040888963407
		for k := len(jobs) - 1; k > 0; k-- {
			r = r*6364136223846793005 + 1442695040888963407
			j := int((r >> 33) % uint64(k+1))
			jobs[k], jobs[j] = jobs[j], jobs[k]
		}
	}
	nw := *workers
	if nw <= 0 {
		nw = runtime.NumCPU()
	}
	if nw > len(jobs) {
		nw = len(jobs)
	}
	timeoutMs := 10000
	if *tier == "thorough" {
		timeoutMs = 60000
	}
	results := make([]jobResult, len(jobs))
	var wg sync.WaitGroup
	next := 0
	var mu sync.Mutex
	for w := 0; w < nw; w++ {
		wg.Add(1)
		go func() {
			defer wg.Done()
			it, err := newInterpreter(p, defaultConfig(), *solverKind, timeoutMs)
			if err != nil {
				fmt.Fprintln(os.Stderr, "worker:", err)
				return
			}
			defer it.solver.close()
			it.ownerFilter = id
			it.maxWitnesses = *nWit
			if *nWit < 0 {
				it.maxWitnesses = 1
				if *tier == "thorough" {
					it.maxWitnesses = 3
				}
			}
			for {
				mu.Lock()
				k := next
				next++
				mu.Unlock()
				if k >= len(jobs) {
					return
				}
				results[k] = it.runJob(p, jobs[k])
				if it.solver.dead {
					it.solver.close()
					ns, err := newSolver(*solverKind, timeoutMs)
					if err != nil {
						return
					}
					it.solver = ns
				}
				if os.Getenv("VX_PROGRESS") != "" {
					printJobResult(results[k])
				}
			}
		}()
	}
	wg.Wait()

	// aggregate
	agg := struct {
		paths, obligations, discharged, violations, unknown int
		sat, unsat                                           int
		steps                                                int64
		solverWall                                           time.Duration
	}{}
	var inconcl []string
	var allV []violation
	covers := map[string]int{}
	funcs := map[string]int{}
	var samples []interface{}
	distinct := map[string]bool{}
	for _, r := range results {
		agg.paths += r.st.paths
		agg.obligations += r.st.obligations
		agg.discharged += r.st.discharged
		agg.unknown += r.st.unknown + r.nErr
		agg.sat += r.nSat
		agg.unsat += r.nUnsat
		agg.steps += r.st.steps
		agg.solverWall += r.solverWall
		for _, m := range r.inconcl {
			inconcl = append(inconcl, fmt.Sprintf("%s%v: %s", r.job.harness, r.job.args, m))
		}
		allV = append(allV, r.violations...)
		for c, n := range r.st.covers {
			covers[c] += n
		}
		for f, n := range r.funcs {
			funcs[f] += n
		}
		if len(r.samples) > 0 && len(samples) < 6 {
			samples = append(samples, r.samples[0])
		}
		if r.st.paths > 0 {
			distinct[fmt.Sprintf("%s%v", r.job.harness, r.job.args)] = true
		}
	}
	// vacuity: every harness must reach at least one cover label on an OK path
	for _, r := range results {
		if r.st.paths > 0 && len(r.st.covers) == 0 && len(r.violations) == 0 && len(r.inconcl) == 0 {
			inconcl = append(inconcl, fmt.Sprintf("%s%v: vacuous — no cover label reached on any completed path", r.job.harness, r.job.args))
		}
	}

	// native replay of counterexamples
	kfs := loadKnownFindings()
	replayed, reproduced := 0, 0
	var violLines, knownLines []string
	seenKnown := map[string]bool{}
	seenViol := map[string]bool{}
	var rp *replayer
	if len(allV) > 0 && !*noReplay {
		rp = newReplayer(p)
		defer rp.cleanup()
	}
	foreign := 0
	for k := range allV {
		v := &allV[k]
		// an assertion tagged "[Cxx] ..." belongs to that property's check
		own := ownerOf(v.Msg)
		if own == "" && strings.HasPrefix(v.Harness, "VX_C") && len(v.Harness) >= 6 {
			own = v.Harness[3:6] // untagged assertions belong to the harness's own property
		}
		if own != "" && own != id {
			foreign++
			continue
		}
		key := v.Harness + "|" + v.Kind + "|" + v.Msg
		kf := matchFinding(kfs, id, *v)
		if kf != nil && seenKnown[key] {
			continue
		}
		if kf == nil && seenViol[key] {
			continue
		}
		repro := "skipped"
		path := ""
		if rp != nil {
			path = rp.writeReplayFile(id, *v)
			out, err := rp.run(*v, path)
			replayed++
			repro = classifyReplay(*v, out, err)
			if repro != "reproduced" && scheduleDependent(*v) {
				// the counterexample is a schedule: try to hit it natively by repetition
				t1 := time.Now()
				for n := 0; n < 400 && time.Since(t1) < 25*time.Second && repro != "reproduced"; n++ {
					out, err = rp.run(*v, path)
					repro = classifyReplay(*v, out, err)
				}
				if repro != "reproduced" {
					repro = "schedule-only"
				}
			}
			if repro == "reproduced" {
				reproduced++
			}
		}
		switch {
		case kf != nil:
			seenKnown[key] = true
			knownLines = append(knownLines, fmt.Sprintf("KNOWN-FINDING: property=%s %s [%s %s: %s; native replay: %s]", id, kf.What, v.Harness, v.Kind, v.Msg, repro))
		case repro == "reproduced" || repro == "skipped" || repro == "schedule-only":
			seenViol[key] = true
			violLines = append(violLines, fmt.Sprintf("VIOLATION property=%s replay=%s", id, path))
			fmt.Printf("  counterexample: %s%v %s: %s\n", v.Harness, v.Args, v.Kind, v.Msg)
			if repro == "schedule-only" {
				fmt.Printf("  (schedule-dependent: the interleaving is replayed deterministically by the interpreter from the decision trace in the replay file; repeated native runs did not hit it)\n")
			}
		default:
			seenViol[key] = true
			inconcl = append(inconcl, fmt.Sprintf("%s%v: counterexample (%s: %s) did not reproduce natively (%s) — engine or stub defect, not reported as a violation; replay file %s", v.Harness, v.Args, v.Kind, v.Msg, repro, path))
		}
	}

	// validation of the encoding against the native build: sampled path
	// witnesses are run through the natively compiled harness
	wv := witnessStats{}
	if !*noReplay {
		var wits []violation
		for _, r := range results {
			wits = append(wits, r.witnesses...)
		}
		if len(wits) > 0 {
			if rp == nil {
				rp = newReplayer(p)
				defer rp.cleanup()
			}
			wv = rp.validateWitnesses(id, wits, *tier)
			for _, m := range wv.divergent {
				inconcl = append(inconcl, m)
			}
		}
	}

	wall := time.Since(t0).Seconds()
	// evidence
	if *only == "" {
		fnames := make([]string, 0, len(funcs))
		for f := range funcs {
			if strings.Contains(f, "henrylee2cn") && !strings.Contains(f, ".vx") && !strings.Contains(f, "VX_") {
				fnames = append(fnames, f)
			}
		}
		sort.Strings(fnames)
		files := map[string]string{}
		for _, d := range spec.dirs {
			gl, _ := filepath.Glob(filepath.Join(repoRoot, d, "*.go"))
			for _, f := range gl {
				if !strings.HasSuffix(f, "_test.go") {
					files[strings.TrimPrefix(f, repoRoot+"/")] = fileHash(f)
				}
			}
		}
		var coverList []string
		for c, n := range covers {
			coverList = append(coverList, fmt.Sprintf("%s:%d", c, n))
		}
		sort.Strings(coverList)
		if len(samples) == 0 {
			samples = append(samples, map[string]interface{}{"note": "no completed path"})
		}
		cov := map[string]interface{}{
			"explanation":         spec.explanation,
			"obligations":         agg.obligations,
			"discharged":          agg.discharged,
			"evaluations":         agg.paths,
			"distinct_nontrivial": len(distinct),
			"rule":                "one evaluation = one symbolic path of a harness instance (a path covers every input satisfying its path condition); distinct = harness instances (harness x shape vector) with at least one explored path",
			"samples":             samples,
			"paths":               agg.paths,
			"harness_instances":   len(jobs),
			"bounds":              spec.bounds,
			"queries_sat":         agg.sat,
			"queries_unsat":       agg.unsat,
			"queries_unknown":     agg.unknown,
			"solver":              *solverKind,
			"solver_wall_s":       agg.solverWall.Seconds(),
			"ssa_load_s":          p.loadWall.Seconds(),
			"instructions":        agg.steps,
			"cover_labels":        coverList,
			"functions_executed":  fnames,
			"source_hashes":       files,
			"inconclusive":        inconcl,
			"replays":             replayed,
			"replays_reproduced":  reproduced,
			"witnesses_run":       wv.run,
			"witnesses_agree":     wv.agree,
			"witnesses_concurrent_disagree_noted": wv.notes,
			"traces_validated_against_impl":       wv.agree,
			"witness_rule":        "per harness instance the violation-free completed paths with the smallest trace hashes (1 quick / 3 thorough; paths with scheduling decisions excluded) are solved for a model; the natively compiled harness is run on those inputs and must end OK and pass the same cover labels as the symbolic path; a disagreement on a single-threaded path makes the run INCONCLUSIVE, on a multi-threaded path (native timing) it is retried and then only noted",
			"known_findings":      knownLines,
			"counterexamples_owned_by_other_properties": foreign,
			"exhaustive":          false,
		}
		if spec.level == "model_checking" {
			cov["states"] = agg.paths
			cov["transitions"] = int(agg.steps)
			cov["traces_validated_against_impl"] = reproduced + wv.agree
		}
		ev := map[string]interface{}{
			"property_id": id,
			"tier":        *tier,
			"seed":        seed,
			"level":       spec.level,
			"coverage":    cov,
			"assumptions": spec.assumptions,
			"wall_s":      wall,
			"violations":  len(violLines),
		}
		// runs against a scratch copy of the repository (seeded changes) keep their evidence apart
		evDir := filepath.Join(verifRoot(), "evidence")
		if d := os.Getenv("VERIF_EVIDENCE"); d != "" {
			evDir = d
		}
		os.MkdirAll(evDir, 0o755)
		b, _ := json.MarshalIndent(ev, "", " ")
		if err := os.WriteFile(filepath.Join(evDir, id+".json"), b, 0o644); err != nil {
			fmt.Println("INCONCLUSIVE: cannot write evidence:", err)
			os.Exit(2)
		}
	}

	fmt.Printf("%s tier=%s: %d harness instances, %d paths, %d obligations (%d discharged), queries sat/unsat/unknown=%d/%d/%d, solver %.1fs, wall %.1fs\n",
		id, *tier, len(jobs), agg.paths, agg.obligations, agg.discharged, agg.sat, agg.unsat, agg.unknown, agg.solverWall.Seconds(), wall)
	if wv.run > 0 {
		fmt.Printf("%s witnesses: %d sampled paths run natively, %d agree with the symbolic prediction, %d multi-threaded disagreements noted\n", id, wv.run, wv.agree, len(wv.notes))
		for _, n := range wv.notes {
			fmt.Println("NOTE:", n)
		}
	}
	for _, l := range knownLines {
		fmt.Println(l)
	}
	for _, l := range inconcl {
		fmt.Println("INCONCLUSIVE:", l)
	}
	for _, l := range violLines {
		fmt.Println(l)
	}
	switch {
	case len(violLines) > 0:
		os.Exit(1)
	case len(inconcl) > 0:
		os.Exit(2)
	}
	os.Exit(0)
}

// ---------------------------------------------------------------- native replay

type replayer struct {
	p       *program
	scratch string
	bins    map[string]string // pkg path -> test binary
	errs    map[string]string
}

func newReplayer(p *program) *replayer {
	dir := os.Getenv("VERIF_SCRATCH")
	if dir == "" {
		dir, _ = os.MkdirTemp("", "vxreplay")
	} else {
		os.MkdirAll(dir, 0o755)
	}
	return &replayer{p: p, scratch: dir, bins: map[string]string{}, errs: map[string]string{}}
}

func (r *replayer) cleanup() {
	if os.Getenv("VERIF_SCRATCH") == "" {
		os.RemoveAll(r.scratch)
	}
}

func (r *replayer) writeReplayFile(prop string, v violation) string {
	dir := filepath.Join(verifRoot(), "replays", prop)
	os.MkdirAll(dir, 0o755)
	name := fmt.Sprintf("%s_%s.json", v.Harness, shortHash(fmt.Sprintf("%v|%s|%s|%v", v.Args, v.Kind, v.Msg, v.Inputs)))
	path := filepath.Join(dir, name)
	b, _ := json.MarshalIndent(v, "", " ")
	os.WriteFile(path, b, 0o644)
	return path
}

// scheduleDependent reports whether the counterexample's decision trace
// contains scheduling choices.
func scheduleDependent(v violation) bool {
	for _, d := range v.Trace {
		if d.W == "sched" || strings.HasPrefix(d.W, "preempt@") || d.W == "select" {
			return true
		}
	}
	return false
}

// ownerOf extracts the owning property from a message of the form "[C04] ...".
func ownerOf(msg string) string {
	if len(msg) > 5 && msg[0] == '[' && msg[1] == 'C' {
		if k := strings.IndexByte(msg, ']'); k > 0 && k <= 5 {
			return msg[1:k]
		}
	}
	return ""
}

func shortHash(s string) string {
	h := uint64(14695981039346656037)
	for k := 0; k < len(s); k++ {
		h ^= uint64(s[k])
		h *= 1099511628211
	}
	return fmt.Sprintf("%012x", h&0xffffffffffff)
}

// pkgDirOfHarness finds the repo-relative dir of the package defining harness.
func (r *replayer) pkgDirOfHarness(h string) (string, string) {
	for path, sp := range r.p.byPath {
		if strings.HasPrefix(path, repoModule) && sp.Func(h) != nil {
			d := strings.TrimPrefix(strings.TrimPrefix(path, repoModule), "/")
			if d == "" {
				d = "."
			}
			return d, sp.Pkg.Name()
		}
	}
	return "", ""
}

// build compiles (once) the replay test binary of a package with the overlay.
func (r *replayer) build(dir, pkgName string, race bool) (string, error) {
	key := dir
	if race {
		key += "#race"
	}
	if b, ok := r.bins[key]; ok {
		if b == "" {
			return "", fmt.Errorf("%s", r.errs[key])
		}
		return b, nil
	}
	ovDir := filepath.Join(r.scratch, "ov_"+strings.ReplaceAll(dir, "/", "_"))
	os.MkdirAll(ovDir, 0o755)
	repl := map[string]string{}
	n := 0
	for path, content := range r.p.overlay {
		n++
		f := filepath.Join(ovDir, fmt.Sprintf("f%d_%s", n, filepath.Base(path)))
		os.WriteFile(f, content, 0o644)
		repl[path] = f
	}
	// inherit.go is replaced by an empty file: emulate deletion
	testSrc := fmt.Sprintf("package %s\n\nimport (\n\t\"fmt\"\n\t\"testing\"\n)\n\nfunc TestVXReplay(t *testing.T) {\n\tfmt.Println(\"VXOUTCOME:\", VXRunReplay())\n\tfmt.Println(\"VXCOVERS:\", VXCovers())\n}\n", pkgName)
	tf := filepath.Join(ovDir, "zz_vx_replay_test.go")
	os.WriteFile(tf, []byte(testSrc), 0o644)
	repl[filepath.Join(repoRoot, dir, "zz_vx_replay_test.go")] = tf
	ovJSON := filepath.Join(ovDir, "overlay.json")
	b, _ := json.Marshal(map[string]interface{}{"Replace": repl})
	os.WriteFile(ovJSON, b, 0o644)
	bin := filepath.Join(r.scratch, "replay_"+strings.ReplaceAll(strings.ReplaceAll(key, "/", "_"), "#", "_")+".test")
	target := "./" + dir
	argv := []string{"test", "-c", "-vet=off", "-overlay", ovJSON, "-o", bin}
	if race {
		argv = append(argv, "-race")
	}
	argv = append(argv, target)
	cmd := exec.Command("go", argv...)
	cmd.Dir = repoRoot
	cmd.Env = append(os.Environ(), "GOFLAGS=-mod=mod", "GOPROXY=off", "GOSUMDB=off", "GOTOOLCHAIN=local")
	out, err := cmd.CombinedOutput()
	if err != nil {
		r.bins[key] = ""
		r.errs[key] = "build failed: " + string(out)
		if os.Getenv("VX_DEBUG") != "" {
			fmt.Fprintln(os.Stderr, "native replay build failed:\n"+string(out))
		}
		return "", fmt.Errorf("%s", r.errs[key])
	}
	r.bins[key] = bin
	return bin, nil
}

func (r *replayer) run(v violation, path string) (string, error) {
	dir, pkgName := r.pkgDirOfHarness(v.Harness)
	if dir == "" {
		return "", fmt.Errorf("harness package not found")
	}
	bin, err := r.build(dir, pkgName, v.Kind == "race")
	if err != nil {
		return "", err
	}
	cmd := exec.Command("timeout", "-s", "KILL", "20", bin, "-test.run", "^TestVXReplay$", "-test.count=1", "-test.timeout=15s")
	cmd.Dir = filepath.Join(repoRoot, dir)
	own := ownerOf(v.Msg)
	if own == "" && strings.HasPrefix(v.Harness, "VX_C") && len(v.Harness) >= 6 {
		own = v.Harness[3:6]
	}
	cmd.Env = append(os.Environ(), "VX_REPLAY="+path, "VX_OWNER="+own)
	if v.Kind == "witness" {
		cmd.Env = append(cmd.Env, "VX_WITNESS=1")
	}
	out, _ := cmd.CombinedOutput()
	return string(out), nil
}

// classifyReplay compares the native outcome with the predicted violation.
func classifyReplay(v violation, out string, err error) string {
	if err != nil {
		return "replay-error: " + firstLine(err.Error())
	}
	outcome := ""
	for _, l := range strings.Split(out, "\n") {
		if strings.HasPrefix(l, "VXOUTCOME: ") {
			outcome = strings.TrimPrefix(l, "VXOUTCOME: ")
		}
	}
	switch v.Kind {
	case "assert", "alloc", "frozen-write":
		if outcome == "VXASSERT: "+v.Msg {
			return "reproduced"
		}
		// the same inputs make the real build fail another assertion of the
		// same harness and owner (the native scheduler or allocator took a
		// different turn): still a failing run of the real code
		if strings.HasPrefix(outcome, "VXASSERT: ") && ownerOf(strings.TrimPrefix(outcome, "VXASSERT: ")) == ownerOf(v.Msg) {
			return "reproduced"
		}
	case "race":
		if strings.Contains(out, "DATA RACE") {
			return "reproduced"
		}
	case "crash":
		if strings.HasPrefix(outcome, "PANIC:") || (outcome == "" && (strings.Contains(out, "panic:") || strings.Contains(out, "fatal error:"))) {
			return "reproduced"
		}
	case "hang":
		if outcome == "" && (strings.Contains(out, "test timed out") || strings.Contains(out, "Killed") || strings.Contains(out, "all goroutines are asleep")) {
			return "reproduced"
		}
		if outcome == "" && !strings.Contains(out, "PASS") && !strings.Contains(out, "FAIL") {
			return "reproduced"
		}
	}
	if outcome == "" {
		return "no-outcome: " + firstLine(tail(out, 300))
	}
	return "native outcome " + firstLine(outcome)
}

func firstLine(s string) string {
	if k := strings.IndexByte(s, '\n'); k >= 0 {
		s = s[:k]
	}
	if len(s) > 200 {
		s = s[:200]
	}
	return s
}

func tail(s string, n int) string {
	s = strings.TrimSpace(s)
	if len(s) > n {
		s = s[len(s)-n:]
	}
	return strings.ReplaceAll(s, "\n", " | ")
}

// cmdReplay re-runs one replay file natively.
func cmdReplay(argv []string) {
	if len(argv) != 1 {
		fmt.Fprintln(os.Stderr, "usage: gosymx replay <file>")
		os.Exit(2)
	}
	b, err := os.ReadFile(argv[0])
	if err != nil {
		fmt.Fprintln(os.Stderr, err)
		os.Exit(2)
	}
	var v violation
	if err := json.Unmarshal(b, &v); err != nil {
		fmt.Fprintln(os.Stderr, err)
		os.Exit(2)
	}
	// find the property dirs by harness name prefix VX_Cnn_
	var spec *checkSpec
	for _, c := range checks {
		for _, j := range c.jobs("thorough") {
			if j.harness == v.Harness {
				spec = c
			}
		}
	}
	if spec == nil {
		fmt.Fprintln(os.Stderr, "no check owns harness", v.Harness)
		os.Exit(2)
	}
	p, err := loadProgram(verifRoot(), spec.dirs)
	if err != nil {
		fmt.Fprintln(os.Stderr, err)
		os.Exit(2)
	}
	rp := newReplayer(p)
	defer rp.cleanup()
	abs, _ := filepath.Abs(argv[0])
	out, err := rp.run(v, abs)
	res := classifyReplay(v, out, err)
	fmt.Println(strings.TrimSpace(out))
	fmt.Println("replay:", res)
	if res == "reproduced" {
		os.Exit(1)
	}
	os.Exit(0)
}


// ---------------------------------------------------------------- witnesses

type witnessStats struct {
	run, agree int
	divergent  []string // single-threaded disagreements: the run is inconclusive
	notes      []string // multi-threaded disagreements (native timing): noted
}

// validateWitnesses runs every sampled path witness through the natively
// compiled harness and compares outcome and cover labels with the prediction
// of the symbolic execution.
func (r *replayer) validateWitnesses(prop string, wits []violation, tier string) witnessStats {
	var ws witnessStats
	max := 60
	if tier == "thorough" {
		max = 400
	}
	if len(wits) > max {
		sort.SliceStable(wits, func(a, b int) bool { return wits[a].hash < wits[b].hash })
		// keep at least one per harness, then fill by hash
		seen := map[string]bool{}
		var keep, rest []violation
		for _, w := range wits {
			if !seen[w.Harness] {
				seen[w.Harness] = true
				keep = append(keep, w)
			} else {
				rest = append(rest, w)
			}
		}
		for _, w := range rest {
			if len(keep) >= max {
				break
			}
			keep = append(keep, w)
		}
		wits = keep
	}
	dir := filepath.Join(r.scratch, "witnesses")
	os.MkdirAll(dir, 0o755)
	// build the binaries first (sequentially: the go tool parallelises itself)
	for _, w := range wits {
		if d, pn := r.pkgDirOfHarness(w.Harness); d != "" {
			r.build(d, pn, false)
		}
	}
	type res struct{ verdict, detail string }
	out := make([]res, len(wits))
	var wg sync.WaitGroup
	sem := make(chan struct{}, 6)
	for k := range wits {
		wg.Add(1)
		go func(k int) {
			defer wg.Done()
			sem <- struct{}{}
			defer func() { <-sem }()
			w := wits[k]
			path := filepath.Join(dir, fmt.Sprintf("w%d.json", k))
			b, _ := json.Marshal(w)
			os.WriteFile(path, b, 0o644)
			tries := 3
			for t := 0; t < tries; t++ {
				o, err := r.run(w, path)
				v, d := classifyWitness(w, o, err)
				out[k] = res{v, d}
				if v == "agree" || v == "skip" {
					break
				}
			}
		}(k)
	}
	wg.Wait()
	for k, w := range wits {
		switch out[k].verdict {
		case "skip":
		case "agree":
			ws.run++
			ws.agree++
		default:
			ws.run++
			m := fmt.Sprintf("%s%v: witness of a completed symbolic path (inputs %s) behaves differently in the native build: %s", w.Harness, w.Args, shortInputs(w), out[k].detail)
			if w.Threads > 1 {
				ws.notes = append(ws.notes, m)
			} else {
				// keep the file for inspection
				keep := filepath.Join(verifRoot(), "replays", prop)
				os.MkdirAll(keep, 0o755)
				kp := filepath.Join(keep, fmt.Sprintf("witness_%s_%s.json", w.Harness, shortHash(fmt.Sprint(w.Args, w.Inputs))))
				b, _ := json.MarshalIndent(w, "", " ")
				os.WriteFile(kp, b, 0o644)
				ws.divergent = append(ws.divergent, m+" — engine, stub or harness defect (replay file "+kp+")")
			}
		}
	}
	return ws
}

func shortInputs(w violation) string {
	var sb strings.Builder
	n := 0
	for _, in := range w.Inputs {
		if in.Val != 0 {
			if n >= 8 {
				sb.WriteString(" …")
				break
			}
			fmt.Fprintf(&sb, " %s=%d", in.Name, in.Val)
			n++
		}
	}
	if n == 0 {
		return "all zero"
	}
	return strings.TrimSpace(sb.String())
}

func classifyWitness(w violation, out string, err error) (string, string) {
	if err != nil {
		return "skip", "replay build: " + firstLine(err.Error())
	}
	outcome, covers := "", ""
	hasCov := false
	for _, l := range strings.Split(out, "\n") {
		if strings.HasPrefix(l, "VXOUTCOME: ") {
			outcome = strings.TrimPrefix(l, "VXOUTCOME: ")
		}
		if strings.HasPrefix(l, "VXCOVERS:") {
			covers = strings.TrimSpace(strings.TrimPrefix(l, "VXCOVERS:"))
			hasCov = true
		}
	}
	if outcome != "OK" {
		if outcome == "" {
			return "diverge", "no outcome: " + firstLine(tail(out, 300))
		}
		return "diverge", "native outcome " + firstLine(outcome) + " (predicted OK)"
	}
	if hasCov {
		want := strings.Join(w.Covers, ",")
		if covers != want {
			return "diverge", "cover labels native [" + covers + "] predicted [" + want + "]"
		}
	}
	return "agree", ""
}
