package main

// Symbolic-aware operators layered over the concrete ones of ssa/interp.

import (
	"bytes"
	"fmt"
	"go/token"
	"go/types"
	"os"
	"unicode/utf8"
	"unsafe"

	"golang.org/x/tools/go/ssa"
)

// unsafePtr is the boxed representation of unsafe.Pointer.
type unsafePtr struct {
	p   *value
	aux value      // for string/slice header tricks: the original value
	t   types.Type // pointee type of p when known (pointer arithmetic results)
}

func (i *interpreter) binop(op token.Token, t types.Type, x, y value) value {
	if _, ok := x.(symFloat); ok {
		panic(unsupported("floating-point operation on a symbolic float"))
	}
	if _, ok := y.(symFloat); ok {
		panic(unsupported("floating-point operation on a symbolic float"))
	}
	if px, ok := x.(ptrInt); ok {
		if op == token.ADD || op == token.SUB {
			d := asInt64(y)
			if op == token.SUB {
				d = -d
			}
			px.off += d
			return px
		}
		x = px.raw()
	}
	if py, ok := y.(ptrInt); ok {
		if op == token.ADD {
			if _, isP := x.(ptrInt); !isP {
				py.off += asInt64(x)
				return py
			}
		}
		y = py.raw()
	}
	_, sx := x.(sym)
	_, sy := y.(sym)
	if sx || sy {
		return i.symBinop(op, x, y)
	}
	if isStr(x) && isStr(y) {
		_, ssx := x.(*symstr)
		_, ssy := y.(*symstr)
		if ssx || ssy {
			switch op {
			case token.ADD:
				return strConcat(x, y)
			case token.EQL:
				return i.strEq(x, y)
			case token.NEQ:
				return i.boolNot(i.strEq(x, y))
			case token.LSS:
				return i.strLess(x, y)
			case token.GTR:
				return i.strLess(y, x)
			case token.LEQ:
				return i.boolNot(i.strLess(y, x))
			case token.GEQ:
				return i.boolNot(i.strLess(x, y))
			}
		}
	}
	switch op {
	case token.EQL:
		return i.eqnil(t, x, y)
	case token.NEQ:
		return i.boolNot(i.eqnil(t, x, y))
	case token.QUO, token.REM:
		if u, _, ok := intBits(y); ok && u == 0 {
			panic(targetRuntimeError("integer divide by zero"))
		}
	case token.SHL, token.SHR:
		if u, k, ok := intBits(y); ok && kindSigned(k) && sext64(u, kindWidth(k)) < 0 {
			panic(targetRuntimeError("negative shift amount"))
		}
	}
	return cbinop(op, t, x, y)
}

// eqnil compares x == y for type t (possibly symbolic result).
func (i *interpreter) eqnil(t types.Type, x, y value) value {
	switch t.Underlying().(type) {
	case *types.Map:
		return (x.(*omap) != nil) == (y.(*omap) != nil)
	case *types.Signature:
		return isNilFunc(x) == isNilFunc(y)
	case *types.Slice:
		return (x.([]value) != nil) == (y.([]value) != nil)
	}
	return i.eqValue(t, x, y)
}

func isNilFunc(v value) bool {
	switch f := v.(type) {
	case *ssa.Function:
		return f == nil
	case *closure:
		return f == nil
	case *nativeFunc:
		return f == nil
	}
	return v == nil
}

// eqValue is Go's == for comparable values, returning bool or sym.
func (i *interpreter) eqValue(t types.Type, x, y value) value {
	if !hasSym(x) && !hasSym(y) {
		if sx, ok := x.(*symstr); ok {
			s, _ := concreteStr(sx)
			x = s
		}
		if sy, ok := y.(*symstr); ok {
			s, _ := concreteStr(sy)
			y = s
		}
		switch x.(type) {
		case structure, array, iface:
			// may contain concrete symstr deeper: use generic path below
		default:
			return equals(t, x, y)
		}
	}
	switch x := x.(type) {
	case sym:
		return i.symBinop(token.EQL, x, y)
	case string, *symstr:
		return i.strEq(x, y)
	case structure:
		ys := y.(structure)
		st := t.Underlying().(*types.Struct)
		acc := value(true)
		for k := range x {
			if st.Field(k).Name() == "_" {
				continue
			}
			acc = i.boolAnd(acc, i.eqValue(st.Field(k).Type(), x[k], ys[k]))
			if b, ok := acc.(bool); ok && !b {
				return false
			}
		}
		return acc
	case array:
		ya := y.(array)
		et := t.Underlying().(*types.Array).Elem()
		acc := value(true)
		for k := range x {
			acc = i.boolAnd(acc, i.eqValue(et, x[k], ya[k]))
			if b, ok := acc.(bool); ok && !b {
				return false
			}
		}
		return acc
	case iface:
		yi := y.(iface)
		if !sameType(x.t, yi.t) {
			return false
		}
		if x.t == nil {
			return true
		}
		if !types.Comparable(x.t) {
			panic(targetRuntimeError("comparing uncomparable type " + x.t.String()))
		}
		return i.eqValue(x.t, x.v, yi.v)
	}
	if _, ok := y.(sym); ok {
		return i.symBinop(token.EQL, x, y)
	}
	return equals(t, x, y)
}

func (i *interpreter) unop(instr *ssa.UnOp, x value) value {
	switch instr.Op {
	case token.ARROW:
		v, ok := i.chanRecv(x.(*vchan))
		if !ok {
			v = zero(instr.X.Type().Underlying().(*types.Chan).Elem())
		}
		if instr.CommaOk {
			return tuple{v, ok}
		}
		return v
	case token.MUL:
		return i.load(mustDeref(instr.X.Type()), x)
	}
	if s, ok := x.(sym); ok {
		switch instr.Op {
		case token.SUB:
			return mkVal(i.tc.Neg(s.t), s.k)
		case token.NOT:
			return mkVal(i.tc.Not(s.t), types.Bool)
		case token.XOR:
			return mkVal(i.tc.Not(s.t), s.k)
		}
		panic(engineError("unop on sym: " + instr.Op.String()))
	}
	return cunop(instr, x)
}

// load reads *addr where addr may be a symbolic element pointer.
func (i *interpreter) load(T types.Type, addr value) value {
	switch p := addr.(type) {
	case *value:
		if p == nil {
			panic(targetRuntimeError("invalid memory address or nil pointer dereference"))
		}
		if i.race != nil && i.race.on {
			i.raceLoad(T, p)
		}
		return load(T, p)
	case *symptr:
		return i.selectElem(p.elems, p.idx)
	}
	panic(engineError(fmt.Sprintf("load through %T", addr)))
}

func (i *interpreter) store(T types.Type, addr value, v value) {
	switch p := addr.(type) {
	case *value:
		if p == nil {
			panic(targetRuntimeError("invalid memory address or nil pointer dereference"))
		}
		if i.frozen != nil {
			if name, ok := i.frozen[p]; ok {
				i.frozenWrite(name)
			}
		}
		i.storeRaw(T, p, v)
		return
	case *symptr:
		k := i.concretize(p.idx, "store-index")
		i.setCell(&p.elems[k], v)
		return
	}
	panic(engineError(fmt.Sprintf("store through %T", addr)))
}

func (i *interpreter) conv(tDst, tSrc types.Type, x value) value {
	utSrc := tSrc.Underlying()
	utDst := tDst.Underlying()
	if _, ok := x.(symFloat); ok {
		if types.Identical(utSrc, utDst) {
			return x
		}
		panic(unsupported("conversion of a symbolic float"))
	}
	if s, ok := x.(sym); ok {
		if b, ok := utDst.(*types.Basic); ok {
			if b.Kind() == types.String {
				// string(rune) of symbolic: unsupported
				panic(unsupported("string(symbolic integer)"))
			}
			if b.Info()&types.IsFloat != 0 {
				panic(unsupported("symbolic integer to float"))
			}
			return i.symConv(b.Kind(), s)
		}
		panic(engineError("conv of sym to " + tDst.String()))
	}
	// string <-> []byte with symbolic content
	if ss, ok := x.(*symstr); ok {
		switch d := utDst.(type) {
		case *types.Slice:
			if d.Elem().Underlying().(*types.Basic).Kind() == types.Byte {
				r := make([]value, len(ss.b))
				copy(r, ss.b)
				return r
			}
			if s, ok := concreteStr(ss); ok {
				return cconv(tDst, tSrc, s)
			}
			panic(unsupported("[]rune(symbolic string)"))
		case *types.Basic:
			if d.Kind() == types.String {
				return x
			}
		}
		panic(engineError("conv of symstr to " + tDst.String()))
	}
	if sl, ok := utSrc.(*types.Slice); ok {
		if b, ok := sl.Elem().Underlying().(*types.Basic); ok && b.Kind() == types.Byte {
			if _, ok := utDst.(*types.Basic); ok {
				return bytesToStr(x.([]value))
			}
		}
		if b, ok := sl.Elem().Underlying().(*types.Basic); ok && b.Kind() == types.Rune && hasSymElem(x.([]value)) {
			// string([]rune) with symbolic runes: ASCII runes become bytes
			var out []value
			for _, e := range x.([]value) {
				switch r := e.(type) {
				case int32:
					for _, c := range []byte(string(rune(r))) {
						out = append(out, c)
					}
				case sym:
					ascii := i.tc.Cmp("bvult", r.t, i.tc.Const(32, utf8.RuneSelf))
					if !i.decide(ascii, "rune-ascii") {
						panic(unsupported("string([]rune) with a symbolic non-ASCII rune"))
					}
					out = append(out, mkVal(i.tc.Extract(7, 0, r.t), types.Uint8))
				}
			}
			return bytesToStr(out)
		}
	}
	if u, ok := x.(uintptr); ok && u == 0 {
		if b, ok := utDst.(*types.Basic); ok && b.Kind() == types.UnsafePointer {
			return unsafePtr{}
		}
	}
	if pi, ok := x.(ptrInt); ok {
		if b, ok := utDst.(*types.Basic); ok && b.Kind() == types.UnsafePointer {
			c, ct := i.resolvePtrInt(pi)
			return unsafePtr{p: c, t: ct}
		}
		x = pi.raw()
	}
	if up, ok := x.(unsafePtr); ok {
		if dp, ok := utDst.(*types.Pointer); ok {
			if up.p == nil {
				if up.aux != nil {
					panic(unsupported("unsafe pointer cast of string/slice header"))
				}
				return (*value)(nil)
			}
			if up.t != nil {
				return descendTo(up.p, up.t, dp.Elem())
			}
			return up.p
		}
	}
	return cconv(tDst, tSrc, x)
}

// slice returns x[lo:hi:max].
func (i *interpreter) slice(x, lo, hi, max value) value {
	var Len, Cap int
	switch x := x.(type) {
	case string, *symstr:
		Len = strLen(x)
		Cap = Len
	case []value:
		Len = len(x)
		Cap = cap(x)
	case *value: // *array
		if x == nil {
			panic(targetRuntimeError("invalid memory address or nil pointer dereference"))
		}
		a := (*x).(array)
		Len = len(a)
		Cap = cap(a)
	}
	conc := func(v value, what string) int64 {
		if s, ok := v.(sym); ok {
			// out-of-range side first (unsigned compare against Cap)
			st := s.t
			if st.w < 64 {
				if kindSigned(s.k) {
					st = i.tc.SExt(64, st)
				} else {
					st = i.tc.ZExt(64, st)
				}
			}
			inb := i.tc.Cmp("bvule", st, i.tc.Const(64, uint64(Cap)))
			if !i.decide(inb, "slicebounds") {
				panic(targetRuntimeError("slice bounds out of range [sym]"))
			}
			return i.concretize(s, what)
		}
		return asInt64(v)
	}
	l := int64(0)
	if lo != nil {
		l = conc(lo, "slice.lo")
	}
	h := int64(Len)
	if hi != nil {
		h = conc(hi, "slice.hi")
	}
	m := int64(Cap)
	if max != nil {
		m = conc(max, "slice.max")
	}
	switch x := x.(type) {
	case string, *symstr:
		if l < 0 || h < l || h > int64(Len) {
			panic(targetRuntimeError(fmt.Sprintf("slice bounds out of range [%d:%d] with length %d", l, h, Len)))
		}
		return strSlice(x, int(l), int(h))
	case []value:
		if l < 0 || h < l || m < h || m > int64(Cap) {
			panic(targetRuntimeError(fmt.Sprintf("slice bounds out of range [%d:%d:%d] with capacity %d", l, h, m, Cap)))
		}
		return x[l:h:m]
	case *value:
		a := (*x).(array)
		if l < 0 || h < l || m < h || m > int64(Cap) {
			panic(targetRuntimeError(fmt.Sprintf("slice bounds out of range [%d:%d:%d] with capacity %d", l, h, m, Cap)))
		}
		return []value(a)[l:h:m]
	}
	panic(engineError(fmt.Sprintf("slice: unexpected X type: %T", x)))
}

func (i *interpreter) lookup(instr *ssa.Lookup, x, idx value) value {
	switch x := x.(type) {
	case *omap:
		mt := instr.X.Type().Underlying().(*types.Map)
		ix := i.mapFind(x, mt.Key(), idx)
		var v value
		ok := ix >= 0
		if ok {
			v = x.entries[ix].val
		} else {
			v = zero(mt.Elem())
		}
		if instr.CommaOk {
			return tuple{v, ok}
		}
		return v
	}
	panic(engineError(fmt.Sprintf("unexpected x type in Lookup: %T", x)))
}

// ---------------------------------------------------------------- range

type strIter struct {
	i   *interpreter
	s   value
	pos int
}

func (it *strIter) next() tuple {
	n := strLen(it.s)
	if it.pos >= n {
		return tuple{false, nil, nil}
	}
	start := it.pos
	b0 := strByte(it.s, it.pos)
	if c, ok := b0.(uint8); ok && c < utf8.RuneSelf {
		it.pos++
		return tuple{true, start, rune(c)}
	}
	if s, ok := it.s.(string); ok {
		r, sz := utf8.DecodeRuneInString(s[it.pos:])
		it.pos += sz
		return tuple{true, start, r}
	}
	// symbolic or non-ASCII byte in a symstr: fork on ASCII
	if sb, ok := b0.(sym); ok {
		ascii := it.i.tc.Cmp("bvult", sb.t, it.i.tc.Const(8, utf8.RuneSelf))
		if it.i.decide(ascii, "range-ascii") {
			it.pos++
			return tuple{true, start, it.i.symConv(types.Int32, sb)}
		}
	}
	// general case: run the real utf8.DecodeRuneInString on the remainder
	fn := it.i.lookupFunc("unicode/utf8", "DecodeRuneInString")
	res := call(it.i, nil, token.NoPos, fn, []value{strSlice(it.s, it.pos, n)}).(tuple)
	sz := it.i.concretize(res[1], "runesize")
	it.pos += int(sz)
	return tuple{true, start, res[0]}
}

func (i *interpreter) rangeIter(x value, t types.Type) iter {
	switch x := x.(type) {
	case *omap:
		end := 0
		if x != nil {
			end = len(x.entries)
		}
		return &omapIter{m: x, end: end}
	case string, *symstr:
		return &strIter{i: i, s: x}
	}
	panic(engineError(fmt.Sprintf("cannot range over %T", x)))
}

func (i *interpreter) lookupFunc(pkgPath, name string) *ssa.Function {
	for _, p := range i.prog.AllPackages() {
		if p.Pkg.Path() == pkgPath {
			if f := p.Func(name); f != nil {
				return f
			}
		}
	}
	panic(engineError("lookupFunc: " + pkgPath + "." + name))
}

// ---------------------------------------------------------------- builtins

func callBuiltin(caller *frame, callpos token.Pos, fn *ssa.Builtin, args []value) value {
	i := caller.i
	switch fn.Name() {
	case "append":
		if len(args) == 1 {
			return args[0]
		}
		a0 := args[0].([]value)
		var add []value
		if isStr(args[1]) {
			add = strBytesView(args[1])
		} else {
			add = args[1].([]value)
		}
		if len(add) == 0 {
			return a0
		}
		esz := int64(8)
		var elemT types.Type
		if st, ok := fn.Type().(*types.Signature); ok && st.Params().Len() > 0 {
			if sl, ok := st.Params().At(0).Type().Underlying().(*types.Slice); ok {
				esz = i.sizes.Sizeof(sl.Elem())
				elemT = sl.Elem()
			}
		}
		// elements of struct/array type are values: moving them copies them
		dup := aggregateDup(elemT)
		if len(a0)+len(add) <= cap(a0) {
			ext := a0[:len(a0)+len(add)]
			for k := len(a0); k < len(ext); k++ {
				i.setCell(&ext[k], dup(add[k-len(a0)]))
			}
			return ext
		}
		// grow exactly like the Go runtime for the target element size
		newcap := growslice(cap(a0), len(a0)+len(add), esz)
		r := make([]value, len(a0), newcap)
		for k := range a0 {
			r[k] = dup(a0[k])
		}
		for _, x := range add {
			r = append(r, dup(x))
		}
		if elemT != nil {
			// the spare capacity is zeroed memory (a later reslice may expose it)
			spare := r[len(r):cap(r)]
			for k := range spare {
				spare[k] = zero(elemT)
			}
		}
		return r

	case "copy":
		dst := args[0].([]value)
		var src []value
		if isStr(args[1]) {
			src = strBytesView(args[1])
		} else {
			src = args[1].([]value)
		}
		n := len(dst)
		if len(src) < n {
			n = len(src)
		}
		if n > 0 && &dst[0] != &src[0] {
			// memmove semantics for overlapping ranges; elements of struct/array
			// type are values: copying them must not share their storage
			var elemT types.Type
			if st, ok := fn.Type().(*types.Signature); ok && st.Params().Len() > 0 {
				if sl, ok := st.Params().At(0).Type().Underlying().(*types.Slice); ok {
					elemT = sl.Elem()
				}
			}
			dup := aggregateDup(elemT)
			tmp := make([]value, n)
			for k := 0; k < n; k++ {
				tmp[k] = dup(src[k])
			}
			for k := 0; k < n; k++ {
				i.setCell(&dst[k], tmp[k])
			}
		}
		return n

	case "close":
		i.chanClose(args[0].(*vchan))
		return nil

	case "delete":
		m := args[0].(*omap)
		kt := fn.Type().(*types.Signature).Params().At(0).Type().Underlying().(*types.Map).Key()
		i.mapDelete(m, kt, args[1])
		return nil

	case "print", "println":
		ln := fn.Name() == "println"
		var buf bytes.Buffer
		for k, arg := range args {
			if k > 0 && ln {
				buf.WriteRune(' ')
			}
			buf.WriteString(toString(arg))
		}
		if ln {
			buf.WriteRune('\n')
		}
		if i.cfg.trace {
			os.Stderr.Write(buf.Bytes())
		}
		return nil

	case "len":
		switch x := args[0].(type) {
		case string, *symstr:
			return strLen(x)
		case array:
			return len(x)
		case *value:
			return len((*x).(array))
		case []value:
			return len(x)
		case *omap:
			return x.len()
		case *vchan:
			if x == nil {
				return 0
			}
			return len(x.buf)
		default:
			panic(engineError(fmt.Sprintf("len: illegal operand: %T", x)))
		}

	case "cap":
		switch x := args[0].(type) {
		case array:
			return cap(x)
		case *value:
			return cap((*x).(array))
		case []value:
			return cap(x)
		case *vchan:
			if x == nil {
				return 0
			}
			return x.cap
		default:
			panic(engineError(fmt.Sprintf("cap: illegal operand: %T", x)))
		}

	case "min":
		return foldLeft(i.minmax(token.LSS), args)
	case "max":
		return foldLeft(i.minmax(token.GTR), args)

	case "real", "imag", "complex":
		panic(unsupported("complex numbers"))

	case "panic":
		panic(targetPanic{v: args[0]})

	case "recover":
		return doRecover(caller)

	case "ssa:wrapnilchk":
		recv := args[0]
		if recv.(*value) == nil {
			panic(targetRuntimeError(fmt.Sprintf("value method (%s).%s called using nil *%s pointer",
				toString(args[1]), toString(args[2]), toString(args[1]))))
		}
		return recv

	case "ssa:deferstack":
		return &caller.defers

	// unsafe.String / StringData / Slice / SliceData (Go 1.20+), as used by
	// strings.Builder and friends: modelled on the engine's aliasing views.
	case "SliceData":
		sl := args[0].([]value)
		if cap(sl) == 0 {
			return (*value)(nil)
		}
		return &sl[:1][0]
	case "StringData":
		return unsafePtr{aux: args[0]}
	case "String":
		n := int(i.concretize(args[1], "unsafe.String.len"))
		if n == 0 {
			return ""
		}
		if p, ok := args[0].(*value); ok {
			// pointer to an element of a byte array/slice: the n cells from p
			return &symstr{unsafe.Slice(p, n)}
		}
		up := args[0].(unsafePtr)
		switch a := up.aux.(type) {
		case []value:
			return &symstr{a[:n:n]}
		case string, *symstr:
			return strSlice(a, 0, n)
		}
		panic(unsupported("unsafe.String of a non-slice pointer"))
	case "Slice":
		n := int(i.concretize(args[1], "unsafe.Slice.len"))
		if p, ok := args[0].(*value); ok {
			if p == nil {
				return []value(nil)
			}
			return unsafe.Slice(p, n)
		}
		up := args[0].(unsafePtr)
		switch a := up.aux.(type) {
		case []value:
			return a[:n:n]
		case string, *symstr:
			return strBytesView(a)[:n:n]
		case nil:
			if n == 0 {
				return []value(nil)
			}
		}
		panic(unsupported("unsafe.Slice of a non-slice pointer"))
	}
	panic(engineError("unknown built-in: " + fn.Name()))
}

func (i *interpreter) minmax(op token.Token) func(x, y value) value {
	return func(x, y value) value {
		if isSym(x) || isSym(y) {
			c := i.symBinop(op, x, y)
			if i.truth(c, "minmax") {
				return x
			}
			return y
		}
		if op == token.LSS {
			return min(x, y)
		}
		return max(x, y)
	}
}

// checkAlloc is the allocation-size monitor: when a limit is installed by the
// harness, every make([]byte, n) with n possibly above the limit is a violation.
func (i *interpreter) checkAlloc(n value, pos token.Pos, fn *ssa.Function) {
	if i.allocLimit == nil {
		return
	}
	i.checkSizeAgainstLimit(n, "make at "+i.posStr(pos, fn))
}

func (i *interpreter) checkSizeAgainstLimit(n value, where string) {
	tn, kn := i.termOf(n)
	tl, _ := i.termOf(i.allocLimit)
	if tn.w != tl.w {
		if kindSigned(kn) {
			tn = i.tc.SExt(64, tn)
		} else {
			tn = i.tc.ZExt(64, tn)
		}
		tl = i.tc.ZExt(64, tl)
	}
	over := i.tc.Cmp("bvult", tl, tn)
	if over.op == "false" {
		return
	}
	ok, m := i.feasible(over)
	if ok {
		// prefer a witness the native allocation oracle can see (it tolerates
		// 256 KiB of ordinary small objects) and a machine can afford
		if tn.w == 64 {
			big := i.tc.And(i.tc.Cmp("bvult", i.tc.Const(64, uint64(asInt64(i.allocLimit))+(1<<20)), tn), i.tc.Cmp("bvult", tn, i.tc.Const(64, 1<<28)))
			if ok2, m2 := i.feasible(big); ok2 {
				m = m2
			}
		}
		i.reportViolation("alloc", i.allocLabel, m)
		i.violations[len(i.violations)-1].Where = where
		// continue on the in-limit side
		i.addPC(i.tc.Not(over))
		i.solver.push()
		r := i.solver.check()
		i.solver.pop()
		if r != "sat" {
			panic(pathAbort{"stop", "only over-limit allocation feasible"})
		}
		i.path.model = nil
	}
}

// growslice ports runtime.nextslicecap + roundupsize (Go 1.23) for pointer-free
// and pointerful elements alike (size classes are identical).
func growslice(oldCap, newLen int, et int64) int {
	newcap := nextslicecap(newLen, oldCap)
	if et == 0 {
		return newcap
	}
	mem := roundupsize(uintptr(int64(newcap) * et))
	return int(int64(mem) / et)
}

func nextslicecap(newLen, oldCap int) int {
	newcap := oldCap
	doublecap := newcap + newcap
	if newLen > doublecap {
		return newLen
	}
	const threshold = 256
	if oldCap < threshold {
		return doublecap
	}
	for {
		newcap += (newcap + 3*threshold) >> 2
		if uint(newcap) >= uint(newLen) {
			break
		}
	}
	if newcap <= 0 {
		return newLen
	}
	return newcap
}

var sizeClasses = []uintptr{0, 8, 16, 24, 32, 48, 64, 80, 96, 112, 128, 144, 160, 176, 192, 208, 224, 240, 256, 288, 320, 352, 384, 416, 448, 480, 512, 576, 640, 704, 768, 896, 1024, 1152, 1280, 1408, 1536, 1792, 2048, 2304, 2688, 3072, 3200, 3456, 4096, 4864, 5376, 6144, 6528, 6784, 6912, 8192, 9472, 9728, 10240, 10880, 12288, 13568, 14336, 16384, 18432, 19072, 20480, 21760, 24576, 27264, 28672, 32768}

func roundupsize(size uintptr) uintptr {
	if size <= 32768 {
		for _, c := range sizeClasses {
			if c >= size {
				return c
			}
		}
	}
	// large: round up to page size
	const page = 8192
	return (size + page - 1) &^ (page - 1)
}

func hasSymElem(v []value) bool {
	for _, e := range v {
		if _, ok := e.(sym); ok {
			return true
		}
	}
	return false
}

// raceLoad records read accesses to the leaf cells of *addr.
func (i *interpreter) raceLoad(T types.Type, addr *value) {
	switch tt := T.Underlying().(type) {
	case *types.Struct:
		st, ok := (*addr).(structure)
		if !ok {
			return
		}
		for k := range st {
			i.raceLoad(tt.Field(k).Type(), &st[k])
		}
	case *types.Array:
		ar, ok := (*addr).(array)
		if !ok {
			return
		}
		for k := range ar {
			i.raceLoad(tt.Elem(), &ar[k])
		}
	default:
		i.raceAccess(addr, false, false)
	}
}


// aggregateDup returns a function that copies a value of type T the way an
// assignment does: struct and array values are duplicated (their fields do not
// share storage with the original), everything else is returned as is.
func aggregateDup(T types.Type) func(value) value {
	if T != nil {
		switch T.Underlying().(type) {
		case *types.Struct, *types.Array:
			return func(v value) value {
				switch v.(type) {
				case structure, array:
					return load(T, &v)
				}
				return v
			}
		}
	}
	return func(v value) value { return v }
}
