// Copyright 2013 The Go Authors. All rights reserved.
// Use of this source code is governed by a BSD-style
// license that can be found in the LICENSE file.

package main

// Values
//
// All interpreter values are "boxed" in the empty interface, value.
// The range of possible dynamic types within value are:
//
// - bool
// - numbers (all built-in int/float/complex types are distinguished)
// - string
// - map[value]value --- maps for which  usesBuiltinMap(keyType)
//   *hashmap        --- maps for which !usesBuiltinMap(keyType)
// - chan value
// - []value --- slices
// - iface --- interfaces.
// - structure --- structs.  Fields are ordered and accessed by numeric indices.
// - array --- arrays.
// - *value --- pointers.  Careful: *value is a distinct type from *array etc.
// - *ssa.Function \
//   *ssa.Builtin   } --- functions.  A nil 'func' is always of type *ssa.Function.
//   *closure      /
// - tuple --- as returned by Return, Next, "value,ok" modes, etc.
// - iter --- iterators from 'range' over map or string.
// - bad --- a poison pill for locals that have gone out of scope.
// - rtype -- the interpreter's concrete implementation of reflect.Type
// - **deferred -- the address of a frame's defer stack for a Defer._Stack.
//
// Note that nil is not on this list.
//
// Pay close attention to whether or not the dynamic type is a pointer.
// The compiler cannot help you since value is an empty interface.

import (
	"bytes"
	"fmt"
	"go/types"
	"sync"
	"unsafe"

	"golang.org/x/tools/go/ssa"
	"golang.org/x/tools/go/types/typeutil"
)

type value interface{}

type tuple []value

type array []value

type iface struct {
	t types.Type // never an "untyped" type
	v value
}

type structure []value

// For map, array, *array, slice, string or channel.
type iter interface {
	// next returns a Tuple (key, value, ok).
	// key and value are unaliased, e.g. copies of the sequence element.
	next() tuple
}

type closure struct {
	Fn  *ssa.Function
	Env []value
}

type bad struct{}

type rtype struct {
	t types.Type
}

// Hash functions and equivalence relation:

// hashString computes the FNV hash of s.
func hashString(s string) int {
	var h uint32
	for i := 0; i < len(s); i++ {
		h ^= uint32(s[i])
		h *= 16777619
	}
	return int(h)
}

var (
	mu     sync.Mutex
	hasher = typeutil.MakeHasher()
)

// hashType returns a hash for t such that
// types.Identical(x, y) => hashType(x) == hashType(y).
func hashType(t types.Type) int {
	mu.Lock()
	defer mu.Unlock()
	return int(hasher.Hash(t))
}

// usesBuiltinMap returns true if the built-in hash function and
// equivalence relation for type t are consistent with those of the
// interpreter's representation of type t.  Such types are: all basic
// types (bool, numbers, string), pointers and channels.
//
// usesBuiltinMap returns false for types that require a custom map
// implementation: interfaces, arrays and structs.
//
// Panic ensues if t is an invalid map key type: function, map or slice.
func usesBuiltinMap(t types.Type) bool {
	switch t := t.(type) {
	case *types.Basic, *types.Chan, *types.Pointer:
		return true
	case *types.Named, *types.Alias:
		return usesBuiltinMap(t.Underlying())
	case *types.Interface, *types.Array, *types.Struct:
		return false
	}
	panic(fmt.Sprintf("invalid map key type: %T", t))
}

func (x array) eq(t types.Type, _y interface{}) bool {
	y := _y.(array)
	tElt := t.Underlying().(*types.Array).Elem()
	for i, xi := range x {
		if !equals(tElt, xi, y[i]) {
			return false
		}
	}
	return true
}

func (x array) hash(t types.Type) int {
	h := 0
	tElt := t.Underlying().(*types.Array).Elem()
	for _, xi := range x {
		h += hash(t, tElt, xi)
	}
	return h
}

func (x structure) eq(t types.Type, _y interface{}) bool {
	y := _y.(structure)
	tStruct := t.Underlying().(*types.Struct)
	for i, n := 0, tStruct.NumFields(); i < n; i++ {
		if f := tStruct.Field(i); f.Name() != "_" {
			if !equals(f.Type(), x[i], y[i]) {
				return false
			}
		}
	}
	return true
}

func (x structure) hash(t types.Type) int {
	tStruct := t.Underlying().(*types.Struct)
	h := 0
	for i, n := 0, tStruct.NumFields(); i < n; i++ {
		if f := tStruct.Field(i); f.Name() != "_" {
			h += hash(t, f.Type(), x[i])
		}
	}
	return h
}

// nil-tolerant variant of types.Identical.
func sameType(x, y types.Type) bool {
	if x == nil {
		return y == nil
	}
	return y != nil && types.Identical(x, y)
}

func (x iface) eq(t types.Type, _y interface{}) bool {
	y := _y.(iface)
	return sameType(x.t, y.t) && (x.t == nil || equals(x.t, x.v, y.v))
}

func (x iface) hash(outer types.Type) int {
	if x.t == nil {
		return 0 // the nil interface is a valid map key
	}
	return hashType(x.t)*8581 + hash(outer, x.t, x.v)
}

func (x rtype) hash(_ types.Type) int {
	return hashType(x.t)
}

func (x rtype) eq(_ types.Type, y interface{}) bool {
	return types.Identical(x.t, y.(rtype).t)
}

// equals returns true iff x and y are equal according to Go's
// linguistic equivalence relation for type t.
// In a well-typed program, the dynamic types of x and y are
// guaranteed equal.
func equals(t types.Type, x, y value) bool {
	switch x := x.(type) {
	case bool:
		return x == y.(bool)
	case int:
		return x == y.(int)
	case int8:
		return x == y.(int8)
	case int16:
		return x == y.(int16)
	case int32:
		return x == y.(int32)
	case int64:
		return x == y.(int64)
	case uint:
		return x == y.(uint)
	case uint8:
		return x == y.(uint8)
	case uint16:
		return x == y.(uint16)
	case uint32:
		return x == y.(uint32)
	case uint64:
		return x == y.(uint64)
	case uintptr:
		return x == y.(uintptr)
	case float32:
		return x == y.(float32)
	case float64:
		return x == y.(float64)
	case complex64:
		return x == y.(complex64)
	case complex128:
		return x == y.(complex128)
	case string:
		return x == y.(string)
	case *value:
		return x == y.(*value)
	case *vchan:
		return x == y.(*vchan)
	case unsafePtr:
		yp, ok := y.(unsafePtr)
		return ok && x.p == yp.p
	case structure:
		return x.eq(t, y)
	case array:
		return x.eq(t, y)
	case iface:
		return x.eq(t, y)
	case rtype:
		return x.eq(t, y)
	}

	// Since map, func and slice don't support comparison, this
	// case is only reachable if one of x or y is literally nil
	// (handled in eqnil) or via interface{} values.
	panic(fmt.Sprintf("comparing uncomparable type %s", t))
}

// Returns an integer hash of x such that equals(x, y) => hash(x) == hash(y).
// The outer type is used only for the "unhashable" panic message.
func hash(outer, t types.Type, x value) int {
	switch x := x.(type) {
	case bool:
		if x {
			return 1
		}
		return 0
	case int:
		return x
	case int8:
		return int(x)
	case int16:
		return int(x)
	case int32:
		return int(x)
	case int64:
		return int(x)
	case uint:
		return int(x)
	case uint8:
		return int(x)
	case uint16:
		return int(x)
	case uint32:
		return int(x)
	case uint64:
		return int(x)
	case uintptr:
		return int(x)
	case float32:
		return int(x)
	case float64:
		return int(x)
	case complex64:
		return int(real(x))
	case complex128:
		return int(real(x))
	case string:
		return hashString(x)
	case *value:
		return int(uintptr(unsafe.Pointer(x)))
	case *vchan:
		return int(uintptr(unsafe.Pointer(x)))
	case structure:
		return x.hash(t)
	case array:
		return x.hash(t)
	case iface:
		return x.hash(t)
	case rtype:
		return x.hash(t)
	}
	panic(fmt.Sprintf("unhashable type %v", outer))
}

// reflect.Value struct values don't have a fixed shape, since the
// payload can be a scalar or an aggregate depending on the instance.
// So store (and load) can't simply use recursion over the shape of the
// rhs value, or the lhs, to copy the value; we need the static type
// information.  (We can't make reflect.Value a new basic data type
// because its "structness" is exposed to Go programs.)

// load returns the value of type T in *addr.
func load(T types.Type, addr *value) value {
	switch T := T.Underlying().(type) {
	case *types.Struct:
		v := (*addr).(structure)
		a := make(structure, len(v))
		for i := range a {
			a[i] = load(T.Field(i).Type(), &v[i])
		}
		return a
	case *types.Array:
		v := (*addr).(array)
		a := make(array, len(v))
		for i := range a {
			a[i] = load(T.Elem(), &v[i])
		}
		return a
	default:
		return *addr
	}
}

// store stores value v of type T into *addr, recording the old contents in
// the undo log (mutations after package initialisation are rolled back
// between paths).
func (i *interpreter) storeRaw(T types.Type, addr *value, v value) {
	switch T := T.Underlying().(type) {
	case *types.Struct:
		lhs := (*addr).(structure)
		rhs := v.(structure)
		for k := range lhs {
			i.storeRaw(T.Field(k).Type(), &lhs[k], rhs[k])
		}
	case *types.Array:
		lhs := (*addr).(array)
		rhs := v.(array)
		for k := range lhs {
			i.storeRaw(T.Elem(), &lhs[k], rhs[k])
		}
	default:
		i.setCell(addr, v)
	}
}

// Prints in the style of built-in println.
// (More or less; in gc println is actually a compiler intrinsic and
// can distinguish println(1) from println(interface{}(1)).)
func writeValue(buf *bytes.Buffer, v value) {
	switch v := v.(type) {
	case nil, bool, int, int8, int16, int32, int64, uint, uint8, uint16, uint32, uint64, uintptr, float32, float64, complex64, complex128, string:
		fmt.Fprintf(buf, "%v", v)

	case *omap:
		buf.WriteString("map[")
		sep := ""
		if v != nil {
			for _, e := range v.entries {
				if e.dead {
					continue
				}
				buf.WriteString(sep)
				sep = " "
				writeValue(buf, e.key)
				buf.WriteString(":")
				writeValue(buf, e.val)
			}
		}
		buf.WriteString("]")

	case *vchan:
		fmt.Fprintf(buf, "%p", v) // (an address)

	case sym:
		buf.WriteString(v.String())

	case *symstr:
		if s, ok := concreteStr(v); ok {
			buf.WriteString(s)
		} else {
			fmt.Fprintf(buf, "<symstr len=%d>", len(v.b))
		}

	case *value:
		if v == nil {
			buf.WriteString("<nil>")
		} else {
			fmt.Fprintf(buf, "%p", v)
		}

	case iface:
		fmt.Fprintf(buf, "(%s, ", v.t)
		writeValue(buf, v.v)
		buf.WriteString(")")

	case structure:
		buf.WriteString("{")
		for i, e := range v {
			if i > 0 {
				buf.WriteString(" ")
			}
			writeValue(buf, e)
		}
		buf.WriteString("}")

	case array:
		buf.WriteString("[")
		for i, e := range v {
			if i > 0 {
				buf.WriteString(" ")
			}
			writeValue(buf, e)
		}
		buf.WriteString("]")

	case []value:
		buf.WriteString("[")
		for i, e := range v {
			if i > 0 {
				buf.WriteString(" ")
			}
			writeValue(buf, e)
		}
		buf.WriteString("]")

	case *ssa.Function, *ssa.Builtin, *closure:
		fmt.Fprintf(buf, "%p", v) // (an address)

	case rtype:
		buf.WriteString(v.t.String())

	case tuple:
		// Unreachable in well-formed Go programs
		buf.WriteString("(")
		for i, e := range v {
			if i > 0 {
				buf.WriteString(", ")
			}
			writeValue(buf, e)
		}
		buf.WriteString(")")

	default:
		fmt.Fprintf(buf, "<%T>", v)
	}
}

// Implements printing of Go values in the style of built-in println.
func toString(v value) string {
	var b bytes.Buffer
	writeValue(&b, v)
	return b.String()
}

// ------------------------------------------------------------------------
// Iterators

