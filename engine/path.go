package main

// Path exploration by re-execution with decision prefixes, path conditions,
// solver feasibility queries, and the cooperative thread scheduler.

import (
	"fmt"
	"os"
	"sort"
	"strings"
)

// pathAbort ends the current path; it is never visible to the target program.
type pathAbort struct {
	kind string // unsupported | budget | engine | assume | killed | hang | crash | infeasible | stop
	msg  string
}

func (p pathAbort) Error() string { return p.kind + ": " + p.msg }

func unsupported(msg string) pathAbort { return pathAbort{"unsupported", msg} }
func engineError(msg string) pathAbort { return pathAbort{"engine", msg} }

// rtError is a run-time panic of the target program raised by the engine
// (index out of range, nil dereference, ...). It is recoverable by the target.
type rtError struct{ msg, where string }

func (e rtError) Error() string { return "runtime error: " + e.msg }

func targetRuntimeError(msg string) rtError { return rtError{msg: msg} }

type decision struct {
	K string `json:"k"` // "b" branch, "c" choose, "v" concretize step
	N int    `json:"n"` // branch taken (1/0) or choice index
	V int64  `json:"v,omitempty"`
	F bool   `json:"f,omitempty"` // forced (only one side feasible)
	W string `json:"w,omitempty"`
}

type violation struct {
	Kind    string            `json:"kind"` // assert | crash | hang | panic-escape
	Msg     string            `json:"msg"`
	Model   map[string]uint64 `json:"model"`
	Inputs  []inputRec        `json:"inputs"`
	Trace   []decision        `json:"trace,omitempty"`
	Harness string            `json:"harness"`
	Args    []int             `json:"args"`
	Where   string            `json:"where,omitempty"`
	Covers  []string          `json:"covers,omitempty"`  // witnesses: cover labels the symbolic path went through
	Threads int               `json:"threads,omitempty"` // witnesses: interpreted threads on the path
	hash    uint64
}

type inputRec struct {
	Name string `json:"name"`
	W    int    `json:"w"`
	Val  uint64 `json:"val"`
}

type pathState struct {
	prefix []decision
	pos    int
	trace  []decision
	pc     []*Term
	model  map[string]uint64 // a model of pc, or nil if unknown
	inputs []inputRec        // declared input symbols in order (Val filled from model)
	nsym   map[string]int
	steps  int64
	events []string
	covers map[string]bool
	pcSet  map[*Term]bool
	// outcome
	ended     string // "", "ok", "assume", "unsupported", ...
	endMsg    string
	truncated bool
}

type stats struct {
	paths, pathsOK, pathsAssume, pathsUnsupported, pathsBudget, pathsEngine, pathsInfeasible int
	forks, forced                                                                        int
	obligations, discharged, concreteAsserts                                             int
	violations                                                                           int
	unknown                                                                              int
	steps                                                                                int64
	unsupportedMsgs                                                                      map[string]int
	covers                                                                               map[string]int
	hangs, crashes                                                                       int
}

func (i *interpreter) addPC(c *Term) {
	if c.op == "true" {
		return
	}
	i.path.pc = append(i.path.pc, c)
	if i.path.pcSet == nil {
		i.path.pcSet = map[*Term]bool{}
	}
	i.path.pcSet[c] = true
	// conjunctions: their conjuncts are known too
	if c.op == "and" {
		i.path.pcSet[c.args[0]] = true
		i.path.pcSet[c.args[1]] = true
	}
	i.solver.assert(c)
	if i.path.model != nil {
		if evalTerm(c, i.path.model, map[int]uint64{}) != 1 {
			i.path.model = nil
		}
	}
}

// feasible reports whether pc ∧ c is satisfiable; the returned model (possibly
// nil) satisfies pc ∧ c.
func (i *interpreter) feasible(c *Term) (bool, map[string]uint64) {
	if c.op == "true" {
		return true, i.path.model
	}
	if c.op == "false" {
		return false, nil
	}
	if i.path.pcSet[c] {
		return true, i.path.model
	}
	if i.path.pcSet[i.tc.Not(c)] {
		return false, nil
	}
	if m := i.path.model; m != nil {
		if evalTerm(c, m, map[int]uint64{}) == 1 {
			return true, m
		}
	}
	i.solver.push()
	i.solver.assert(c)
	r := i.solver.check()
	var m map[string]uint64
	if r == "sat" {
		m = i.solver.model()
	}
	i.solver.pop()
	switch r {
	case "sat":
		return true, m
	case "unsat":
		return false, nil
	}
	i.st.unknown++
	i.path.truncated = true
	return true, nil // unknown: keep the branch, run is inconclusive
}

// decide forks on a boolean term.
func (i *interpreter) decide(c *Term, why string) bool {
	switch c.op {
	case "true":
		return true
	case "false":
		return false
	}
	p := i.path
	if p.pos < len(p.prefix) {
		d := p.prefix[p.pos]
		p.pos++
		if d.K != "b" {
			panic(engineError(fmt.Sprintf("re-execution diverged: expected %q decision at %d (%s), got branch (%s)", d.K, p.pos-1, d.W, why)))
		}
		p.trace = append(p.trace, d)
		if d.N == 1 {
			i.addPC(c)
		} else {
			i.addPC(i.tc.Not(c))
		}
		return d.N == 1
	}
	if len(p.trace) >= i.cfg.maxDecisions {
		p.truncated = true
		panic(pathAbort{"budget", "decision depth exceeded"})
	}
	okT, mT := i.feasible(c)
	nc := i.tc.Not(c)
	okF, mF := i.feasible(nc)
	switch {
	case okT && okF:
		i.st.forks++
		alt := append(append([]decision{}, p.trace...), decision{K: "b", N: 0, W: why})
		i.pushWork(alt)
		p.trace = append(p.trace, decision{K: "b", N: 1, W: why})
		p.pos = len(p.trace)
		p.prefix = p.trace
		i.addPC(c)
		if i.path.model == nil {
			i.path.model = mT
		}
		return true
	case okT:
		i.st.forced++
		p.trace = append(p.trace, decision{K: "b", N: 1, F: true, W: why})
		p.pos = len(p.trace)
		p.prefix = p.trace
		i.addPC(c)
		if i.path.model == nil {
			i.path.model = mT
		}
		return true
	case okF:
		i.st.forced++
		p.trace = append(p.trace, decision{K: "b", N: 0, F: true, W: why})
		p.pos = len(p.trace)
		p.prefix = p.trace
		i.addPC(nc)
		if i.path.model == nil {
			i.path.model = mF
		}
		return false
	}
	panic(pathAbort{"infeasible", "path condition unsatisfiable at " + why})
}

// choose makes an n-way non-solver decision (scheduling, pool behaviour, ...).
func (i *interpreter) choose(n int, why string) int {
	if n <= 1 {
		return 0
	}
	p := i.path
	if p.pos < len(p.prefix) {
		d := p.prefix[p.pos]
		p.pos++
		if d.K != "c" {
			panic(engineError(fmt.Sprintf("re-execution diverged: expected %q decision at %d (%s), got choose (%s)", d.K, p.pos-1, d.W, why)))
		}
		p.trace = append(p.trace, d)
		return d.N
	}
	if len(p.trace) >= i.cfg.maxDecisions {
		p.truncated = true
		panic(pathAbort{"budget", "decision depth exceeded"})
	}
	for k := n - 1; k >= 1; k-- {
		alt := append(append([]decision{}, p.trace...), decision{K: "c", N: k, W: why})
		i.pushWork(alt)
	}
	i.st.forks++
	p.trace = append(p.trace, decision{K: "c", N: 0, W: why})
	p.pos = len(p.trace)
	p.prefix = p.trace
	return 0
}

// concretize forks over the feasible values of a symbolic integer.
func (i *interpreter) concretize(v value, why string) int64 {
	s, ok := v.(sym)
	if !ok {
		return asInt64(v)
	}
	for n := 0; n < i.cfg.maxConcretize; n++ {
		// candidate value: from the prefix if replaying, else from a model
		p := i.path
		var cand uint64
		if p.pos < len(p.prefix) {
			d := p.prefix[p.pos]
			if d.K != "b" {
				panic(engineError("re-execution diverged in concretize: " + why))
			}
			cand = uint64(d.V)
		} else {
			ok, m := i.feasible(i.tc.tt)
			if !ok {
				panic(pathAbort{"infeasible", "concretize " + why})
			}
			if m == nil {
				i.solver.push()
				r := i.solver.check()
				if r == "sat" {
					m = i.solver.model()
				}
				i.solver.pop()
				if m == nil {
					i.st.unknown++
					p.truncated = true
					panic(pathAbort{"budget", "concretize: solver gave no model"})
				}
				i.path.model = m
			}
			cand = evalTerm(s.t, m, map[int]uint64{})
		}
		eq := i.tc.Cmp("=", s.t, i.tc.Const(s.t.w, cand))
		// record candidate in the decision so that replays use the same value
		before := len(p.trace)
		taken := i.decide(eq, why)
		if len(p.trace) > before {
			p.trace[len(p.trace)-1].V = int64(cand)
			if p.pos == len(p.trace) && len(i.work) > 0 {
				// the alternative pushed by decide needs V too
				w := i.work[len(i.work)-1]
				if len(w) == len(p.trace) && w[len(w)-1].K == "b" && w[len(w)-1].W == why {
					w[len(w)-1].V = int64(cand)
				}
			}
		}
		if taken {
			if kindSigned(s.k) {
				return sext64(cand, s.t.w)
			}
			return int64(cand)
		}
	}
	i.path.truncated = true
	panic(pathAbort{"budget", "too many feasible values for " + why})
}

func (i *interpreter) pushWork(prefix []decision) {
	i.work = append(i.work, prefix)
}

// ---------------------------------------------------------------- fresh symbols

func (i *interpreter) freshName(base string) string {
	base = sanitize(base)
	n := i.path.nsym[base]
	i.path.nsym[base] = n + 1
	if n == 0 {
		return base
	}
	return fmt.Sprintf("%s!%d", base, n)
}

func sanitize(s string) string {
	var sb strings.Builder
	for _, r := range s {
		switch {
		case r >= 'a' && r <= 'z', r >= 'A' && r <= 'Z', r >= '0' && r <= '9', r == '_', r == '.':
			sb.WriteRune(r)
		default:
			sb.WriteByte('_')
		}
	}
	if sb.Len() == 0 {
		return "v"
	}
	return sb.String()
}

// freshSym declares a new input symbol.
func (i *interpreter) freshSym(base string, w int) *Term {
	name := i.freshName(base)
	i.solver.declare(name, w)
	i.path.inputs = append(i.path.inputs, inputRec{Name: name, W: w})
	return i.tc.Var(name, w)
}

// ---------------------------------------------------------------- violations

func (i *interpreter) reportViolation(kind, msg string, model map[string]uint64) {
	i.st.violations++
	if os.Getenv("VX_DEBUG") == "4" {
		fmt.Fprintf(os.Stderr, "VIOLATION %s %s\n", kind, msg)
		for _, t := range i.sch.threads {
			fmt.Fprintf(os.Stderr, "  thread %d %s state=%d what=%s\n", t.id, t.name, t.state, t.what)
		}
	}
	if model == nil {
		// need a model of the current path condition
		if i.path.model != nil {
			model = i.path.model
		} else {
			i.solver.push()
			if i.solver.check() == "sat" {
				model = i.solver.model()
			}
			i.solver.pop()
		}
	}
	v := violation{Kind: kind, Msg: msg, Model: map[string]uint64{}, Harness: i.job.harness, Args: i.job.args}
	for _, in := range i.path.inputs {
		in.Val = model[in.Name] & maskB(in.W)
		v.Inputs = append(v.Inputs, in)
		v.Model[in.Name] = in.Val
	}
	for _, d := range i.path.trace {
		if d.K == "c" {
			v.Trace = append(v.Trace, d)
		}
	}
	i.violations = append(i.violations, v)
}

func sortedKeys(m map[string]int) []string {
	var ks []string
	for k := range m {
		ks = append(ks, k)
	}
	sort.Strings(ks)
	return ks
}
