package main

// Harness binding by shape.
//
// The harness files are white-box: they name a few dozen unexported identifiers
// of the code under test (the route table's reg method, fields of Handler and
// handlerCtx, the predefined statuses, ...). A behaviour-preserving refactor
// that only renames such an identifier must not turn a check into "cannot
// decide". When the harness files fail to type-check against the current tree,
// the loader compares the tree's unexported "shape" (package-level objects,
// fields and methods with their types) with the shape recorded for the pinned
// tree (shape_baseline.json): a recorded member that is gone, with exactly one
// new member of the same kind, owner and type in its place, is taken to be a
// rename, the harness sources are rewritten accordingly (AST based) and loaded
// again. Anything that cannot be resolved uniquely is left alone and the load
// error is reported as before.

import (
	"bytes"
	"encoding/json"
	"fmt"
	"go/ast"
	"go/format"
	"go/token"
	"go/types"
	"os"
	"path/filepath"
	"regexp"
	"sort"
	"strings"

	"golang.org/x/tools/go/packages"
)

type shapeEntry struct {
	Kind  string `json:"kind"`  // func, var, const, type, field, method
	Owner string `json:"owner"` // named type for field/method, "" otherwise
	Name  string `json:"name"`
	Type  string `json:"type"`
}

type shapeFile map[string][]shapeEntry // package path -> entries

func isHarnessFile(name string) bool { return strings.HasPrefix(filepath.Base(name), "zz_vx") }

func packageShape(p *packages.Package) []shapeEntry {
	var out []shapeEntry
	if p.Types == nil {
		return nil
	}
	qual := func(o *types.Package) string {
		if o == p.Types {
			return ""
		}
		return o.Name()
	}
	ts := func(t types.Type) string { return types.TypeString(t, qual) }
	fromHarness := func(pos token.Pos) bool { return isHarnessFile(p.Fset.Position(pos).Filename) }
	scope := p.Types.Scope()
	for _, name := range scope.Names() {
		obj := scope.Lookup(name)
		if fromHarness(obj.Pos()) {
			continue
		}
		switch o := obj.(type) {
		case *types.Func:
			if !o.Exported() {
				out = append(out, shapeEntry{"func", "", name, ts(o.Type())})
			}
		case *types.Var:
			if !o.Exported() {
				out = append(out, shapeEntry{"var", "", name, ts(o.Type())})
			}
		case *types.Const:
			if !o.Exported() {
				out = append(out, shapeEntry{"const", "", name, ts(o.Type())})
			}
		case *types.TypeName:
			named, ok := o.Type().(*types.Named)
			if !ok {
				continue
			}
			var ms []string
			for k := 0; k < named.NumMethods(); k++ {
				m := named.Method(k)
				if fromHarness(m.Pos()) {
					continue
				}
				ms = append(ms, m.Name())
				if !m.Exported() {
					sig := m.Type().(*types.Signature)
					out = append(out, shapeEntry{"method", name, m.Name(), ts(types.NewSignatureType(nil, nil, nil, sig.Params(), sig.Results(), sig.Variadic()))})
				}
			}
			sort.Strings(ms)
			if !o.Exported() {
				// a type is characterised by its method names (for matching after a rename)
				out = append(out, shapeEntry{"type", "", name, strings.Join(ms, ",")})
			}
			if st, ok := named.Underlying().(*types.Struct); ok {
				for k := 0; k < st.NumFields(); k++ {
					f := st.Field(k)
					if !f.Exported() {
						out = append(out, shapeEntry{"field", name, f.Name(), ts(f.Type())})
					}
				}
			}
		}
	}
	return out
}

func collectShape(initial []*packages.Package) shapeFile {
	sf := shapeFile{}
	packages.Visit(initial, nil, func(p *packages.Package) {
		if strings.HasPrefix(p.PkgPath, repoModule) {
			sf[p.PkgPath] = packageShape(p)
		}
	})
	return sf
}

func loadBaselineShape(verifRoot string) shapeFile {
	b, err := os.ReadFile(filepath.Join(verifRoot, "engine", "shape_baseline.json"))
	if err != nil {
		return nil
	}
	var sf shapeFile
	if json.Unmarshal(b, &sf) != nil {
		return nil
	}
	return sf
}

type renameKey struct{ kind, owner, name string }

// inferRenames compares the recorded and the current shape of one package.
func inferRenames(base, cur []shapeEntry) (map[renameKey]string, []string) {
	ren := map[renameKey]string{}
	var notes []string
	has := func(list []shapeEntry, kind, owner, name string) bool {
		for _, e := range list {
			if e.Kind == kind && e.Owner == owner && e.Name == name {
				return true
			}
		}
		return false
	}
	// types first (owners and type strings of the other members depend on them)
	typeRen := map[string]string{}
	for _, b := range base {
		if b.Kind != "type" || has(cur, "type", "", b.Name) {
			continue
		}
		var cands []string
		for _, c := range cur {
			if c.Kind == "type" && c.Type == b.Type && b.Type != "" && !has(base, "type", "", c.Name) {
				cands = append(cands, c.Name)
			}
		}
		if len(cands) == 1 {
			typeRen[b.Name] = cands[0]
			ren[renameKey{"type", "", b.Name}] = cands[0]
			notes = append(notes, fmt.Sprintf("type %s -> %s", b.Name, cands[0]))
		}
	}
	mapType := func(s string) string {
		for o, n := range typeRen {
			s = regexp.MustCompile(`\b`+regexp.QuoteMeta(o)+`\b`).ReplaceAllString(s, n)
		}
		return s
	}
	mapOwner := func(o string) string {
		if n, ok := typeRen[o]; ok {
			return n
		}
		return o
	}
	for _, b := range base {
		if b.Kind == "type" {
			continue
		}
		owner := mapOwner(b.Owner)
		if has(cur, b.Kind, owner, b.Name) {
			continue
		}
		want := mapType(b.Type)
		var cands []string
		for _, c := range cur {
			if c.Kind != b.Kind || c.Owner != owner || c.Type != want {
				continue
			}
			// only members that did not exist under that name before
			if has(base, b.Kind, b.Owner, c.Name) {
				continue
			}
			cands = append(cands, c.Name)
		}
		if len(cands) == 1 {
			ren[renameKey{b.Kind, b.Owner, b.Name}] = cands[0]
			notes = append(notes, fmt.Sprintf("%s %s.%s -> %s", b.Kind, b.Owner, b.Name, cands[0]))
		}
	}
	return ren, notes
}

func namedTypeName(t types.Type) string {
	for {
		switch x := t.(type) {
		case *types.Pointer:
			t = x.Elem()
			continue
		case *types.Named:
			return x.Obj().Name()
		}
		return ""
	}
}

// healHarness rewrites the harness files of packages whose harness files do
// not type-check, following renames inferred from the shape comparison.
// It returns the number of rewritten files and a description of the renames.
func healHarness(initial []*packages.Package, ov map[string][]byte, base shapeFile) (int, []string) {
	if base == nil {
		return 0, nil
	}
	nFiles := 0
	var allNotes []string
	packages.Visit(initial, nil, func(p *packages.Package) {
		if !strings.HasPrefix(p.PkgPath, repoModule) || len(p.Errors) == 0 || p.TypesInfo == nil {
			return
		}
		ren, notes := inferRenames(base[p.PkgPath], packageShape(p))
		if len(ren) == 0 {
			return
		}
		allNotes = append(allNotes, notes...)
		// name -> new name where the old name maps uniquely regardless of owner
		uniq := map[string]string{}
		amb := map[string]bool{}
		for k, v := range ren {
			if old, ok := uniq[k.name]; ok && old != v {
				amb[k.name] = true
			}
			uniq[k.name] = v
		}
		info := p.TypesInfo
		for _, f := range p.Syntax {
			fname := p.Fset.Position(f.Pos()).Filename
			if !isHarnessFile(fname) {
				continue
			}
			changed := false
			lookupMember := func(owner, name string) (string, bool) {
				for _, kind := range []string{"field", "method"} {
					if n, ok := ren[renameKey{kind, owner, name}]; ok {
						return n, true
					}
				}
				return "", false
			}
			ast.Inspect(f, func(n ast.Node) bool {
				switch x := n.(type) {
				case *ast.SelectorExpr:
					if info.Uses[x.Sel] != nil || info.Selections[x] != nil {
						return true
					}
					owner := ""
					if tv, ok := info.Types[x.X]; ok && tv.Type != nil {
						owner = namedTypeName(tv.Type)
					}
					if owner != "" {
						if nn, ok := lookupMember(owner, x.Sel.Name); ok {
							x.Sel.Name = nn
							changed = true
						}
					} else if nn, ok := uniq[x.Sel.Name]; ok && !amb[x.Sel.Name] {
						x.Sel.Name = nn
						changed = true
					}
				case *ast.CompositeLit:
					owner := ""
					if tv, ok := info.Types[x]; ok && tv.Type != nil {
						owner = namedTypeName(tv.Type)
					}
					if owner == "" {
						if id, ok := x.Type.(*ast.Ident); ok {
							owner = id.Name
						}
					}
					for _, el := range x.Elts {
						kv, ok := el.(*ast.KeyValueExpr)
						if !ok {
							continue
						}
						if id, ok := kv.Key.(*ast.Ident); ok && info.Uses[id] == nil {
							if nn, ok := lookupMember(owner, id.Name); ok {
								id.Name = nn
								changed = true
							}
						}
					}
				case *ast.Ident:
					if info.Uses[x] != nil || info.Defs[x] != nil {
						return true
					}
					for _, kind := range []string{"func", "var", "const", "type"} {
						if nn, ok := ren[renameKey{kind, "", x.Name}]; ok {
							x.Name = nn
							changed = true
							break
						}
					}
				}
				return true
			})
			if changed {
				var buf bytes.Buffer
				if err := format.Node(&buf, p.Fset, f); err == nil {
					ov[fname] = buf.Bytes()
					nFiles++
				}
			}
		}
	})
	return nFiles, allNotes
}
