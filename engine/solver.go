package main

// Driver for an incremental SMT solver child process (z3 -in, z3-new -in,
// cvc5 --incremental). One process per worker; push/pop per path.

import (
	"bufio"
	"fmt"
	"io"
	"os/exec"
	"strconv"
	"strings"
	"time"
)

type solver struct {
	name    string
	cmd     *exec.Cmd
	in      io.WriteCloser
	out     *bufio.Reader
	printer smtPrinter
	buf     strings.Builder
	scopes  []map[int]bool // ids defined per scope
	vars    []map[string]int
	// statistics
	nSat, nUnsat, nUnknown, nErr int
	wall                         time.Duration
	timeoutMs                    int
	log                          io.Writer
	dead                         bool
}

func newSolver(kind string, timeoutMs int) (*solver, error) {
	var cmd *exec.Cmd
	switch kind {
	case "z3":
		cmd = exec.Command("z3", "-in", fmt.Sprintf("-t:%d", timeoutMs))
	case "z3-new":
		cmd = exec.Command("z3-new", "-in", fmt.Sprintf("-t:%d", timeoutMs))
	case "cvc5":
		cmd = exec.Command("cvc5", "--incremental", "--lang=smt2", "--produce-models", fmt.Sprintf("--tlimit-per=%d", timeoutMs))
	default:
		return nil, fmt.Errorf("unknown solver %q", kind)
	}
	in, err := cmd.StdinPipe()
	if err != nil {
		return nil, err
	}
	out, err := cmd.StdoutPipe()
	if err != nil {
		return nil, err
	}
	cmd.Stderr = nil
	if err := cmd.Start(); err != nil {
		return nil, err
	}
	s := &solver{name: kind, cmd: cmd, in: in, out: bufio.NewReaderSize(out, 1<<16), timeoutMs: timeoutMs}
	s.scopes = []map[int]bool{{}}
	s.vars = []map[string]int{{}}
	s.printer = smtPrinter{defined: map[int]bool{}, out: &s.buf}
	s.printer.onDef = func(id int) { s.scopes[len(s.scopes)-1][id] = true }
	if kind == "cvc5" {
		s.send("(set-logic QF_BV)\n")
	} else {
		s.send("(set-option :model.completion true)\n")
	}
	return s, nil
}

func (s *solver) close() {
	if s == nil || s.dead {
		return
	}
	s.dead = true
	s.in.Close()
	done := make(chan struct{})
	go func() { s.cmd.Wait(); close(done) }()
	select {
	case <-done:
	case <-time.After(2 * time.Second):
		s.cmd.Process.Kill()
	}
}

func (s *solver) send(txt string) {
	if s.log != nil {
		io.WriteString(s.log, txt)
	}
	if _, err := io.WriteString(s.in, txt); err != nil {
		s.dead = true
	}
}

func (s *solver) flushDefs() {
	if s.buf.Len() > 0 {
		s.send(s.buf.String())
		s.buf.Reset()
	}
}

func (s *solver) push() {
	s.flushDefs()
	s.send("(push 1)\n")
	s.scopes = append(s.scopes, map[int]bool{})
	s.vars = append(s.vars, map[string]int{})
}

func (s *solver) pop() {
	s.flushDefs()
	s.send("(pop 1)\n")
	top := s.scopes[len(s.scopes)-1]
	for id := range top {
		delete(s.printer.defined, id)
	}
	s.scopes = s.scopes[:len(s.scopes)-1]
	s.vars = s.vars[:len(s.vars)-1]
}

func (s *solver) isDeclared(name string) bool {
	for _, m := range s.vars {
		if _, ok := m[name]; ok {
			return true
		}
	}
	return false
}

func (s *solver) declare(name string, w int) {
	if s.isDeclared(name) {
		return
	}
	s.vars[len(s.vars)-1][name] = w
	fmt.Fprintf(&s.buf, "(declare-const %s %s)\n", name, sortOf(w))
}

// termRef makes sure t's definition was sent and returns its reference.
func (s *solver) termRef(t *Term) string {
	return s.printer.ref(t)
}

func (s *solver) assert(t *Term) {
	r := s.termRef(t)
	fmt.Fprintf(&s.buf, "(assert %s)\n", r)
}

// check returns "sat", "unsat" or "unknown" (timeouts and errors are unknown).
func (s *solver) check() string {
	if s.dead {
		s.nErr++
		return "unknown"
	}
	s.flushDefs()
	t0 := time.Now()
	s.send("(check-sat)\n")
	res := s.readLine()
	s.wall += time.Since(t0)
	switch res {
	case "sat":
		s.nSat++
	case "unsat":
		s.nUnsat++
	case "unknown", "timeout":
		s.nUnknown++
		res = "unknown"
	default:
		s.nErr++
		res = "unknown"
	}
	return res
}

func (s *solver) readLine() string {
	for {
		line, err := s.out.ReadString('\n')
		if err != nil {
			s.dead = true
			return "(error eof)"
		}
		line = strings.TrimSpace(line)
		if line == "" {
			continue
		}
		if s.log != nil {
			io.WriteString(s.log, "; <- "+line+"\n")
		}
		return line
	}
}

// checkAssuming checks the current assertions plus t.
func (s *solver) checkWith(t *Term) string {
	s.push()
	s.assert(t)
	r := s.check()
	var m map[string]uint64
	_ = m
	s.pop()
	return r
}

// model returns the values of all declared variables; call right after a sat.
func (s *solver) model() map[string]uint64 {
	m := map[string]uint64{}
	var names []string
	for _, sc := range s.vars {
		for n := range sc {
			names = append(names, n)
		}
	}
	if len(names) == 0 {
		return m
	}
	s.flushDefs()
	s.send("(get-value (" + strings.Join(names, " ") + "))\n")
	// read a balanced s-expression
	var sb strings.Builder
	depth := 0
	started := false
	for {
		line, err := s.out.ReadString('\n')
		if err != nil {
			s.dead = true
			return m
		}
		sb.WriteString(line)
		for _, ch := range line {
			if ch == '(' {
				depth++
				started = true
			} else if ch == ')' {
				depth--
			}
		}
		if started && depth <= 0 {
			break
		}
	}
	txt := sb.String()
	if strings.Contains(txt, "(error") {
		s.nErr++
		return m
	}
	toks := tokenize(txt)
	// pattern: ( ( name value ) ( name value ) ... ) where value is #x.., #b.., true, false, or (_ bvN w)
	for i := 0; i < len(toks); i++ {
		if toks[i] == "(" && i+2 < len(toks) && toks[i+1] != "(" {
			name := toks[i+1]
			v := toks[i+2]
			switch {
			case v == "true":
				m[name] = 1
			case v == "false":
				m[name] = 0
			case strings.HasPrefix(v, "#x"):
				u, _ := strconv.ParseUint(v[2:], 16, 64)
				m[name] = u
			case strings.HasPrefix(v, "#b"):
				u, _ := strconv.ParseUint(v[2:], 2, 64)
				m[name] = u
			case v == "(" && i+4 < len(toks) && toks[i+3] == "_" && strings.HasPrefix(toks[i+4], "bv"):
				u, _ := strconv.ParseUint(toks[i+4][2:], 10, 64)
				m[name] = u
			}
		}
	}
	return m
}

func tokenize(s string) []string {
	var toks []string
	cur := strings.Builder{}
	flush := func() {
		if cur.Len() > 0 {
			toks = append(toks, cur.String())
			cur.Reset()
		}
	}
	for _, ch := range s {
		switch ch {
		case '(', ')':
			flush()
			toks = append(toks, string(ch))
		case ' ', '\n', '\t', '\r':
			flush()
		default:
			cur.WriteRune(ch)
		}
	}
	flush()
	return toks
}
