#!/usr/bin/env python3
# Regenerates MANIFEST.json from the table below (kept valid at all times).
import json
props=[json.loads(l) for l in open('/verif/properties.jsonl')]
ENV="GOFLAGS=-mod=mod GOPROXY=off GOSUMDB=off GOTOOLCHAIN=local"
COMMON_NOTE="Trusted: the SSA symbolic interpreter (every counterexample is replayed against the natively compiled code before it is reported; a non-reproducing one is INCONCLUSIVE, never a violation), z3 5.1.0, the stubs listed in evidence.assumptions. Holds only within evidence.coverage.bounds."
def C(level,text,ref,tech="symbolic execution of go/ssa + SMT (QF_BV), bounded by shape vectors"):
    return {"level":level,"text":text,"note":COMMON_NOTE,"technique":tech,"ref":ref}
claimed={
 "C01":C("other","Bounded symbolic verification of the non-interference mechanisms on the real code: reply correlation by sequence number (two pending calls, symbolic reply), no aliasing between a delivered body and pooled receive buffers of later frames, handler input/reply construction for one frame, recycled messages. Sequential schedules only: concurrent writers / sequence allocation under contention are not yet covered.","DESIGN.md §6 C01"),
 "C02":C("other","Bounded symbolic verification: real AsyncCall/read loop/bindReply/handleReply/readDisconnected/done/cancel with two pending calls, one symbolic or truncated reply frame, then connection loss, and the Close-then-loss script; each completion obligation (Done fired once, one channel delivery, no goroutine left blocked) is an SMT query over all values of the symbolic frame fields.","DESIGN.md §6 C02"),
 "C03":C("other","Bounded symbolic verification: one received frame (symbolic type/seq/body, symbolic plugin and handler statuses) through the real read loop, binding, routing, plugin stages, handler dispatch, writeReply and session.write, for enumerated handler outcomes, vetoing stages, route kinds and transport failures; at-most-once handling and exactly-once reply are SMT-checked assertions.","DESIGN.md §6 C03"),
 "C04":C("other","Bounded symbolic verification of the three links of the status chain on real code (server-side reply status, raw wire round trip, client-side callCmd status incl. undecodable reply bodies) with symbolic status codes.","DESIGN.md §6 C04"),
 "C05":C("other","Bounded symbolic verification: the real raw-protocol Pack/Unpack (with utils.Args, status query coding, xfer pipe, message) executed symbolically; round trip, one-write-per-frame, frame sync under solver-chosen short reads and size independence are SMT queries over all values of the symbolic field bytes per shape. Other wire protocols are not yet covered.","DESIGN.md §6 C05"),
 "C06":C("other","Bounded symbolic verification: the real raw Unpack on a fully symbolic byte stream of each listed length; every buffer allocation size is a solver term checked against the configured limit; termination by instruction budget (an exceeded budget is INCONCLUSIVE).","DESIGN.md §6 C06"),
 "C08":C("other","Scripted-interleaving symbolic execution of the real Close/closeLocked/wait groups/read loop/handleCall/write: handler entered and blocked, local Close in progress, reader EOF meanwhile (3 variants); reply-before-socket-close and Close-returns-after-handler are checked on the scripted connection. Not an exploration of all interleavings.","DESIGN.md §6 C08","symbolic execution of go/ssa with harness-scripted thread interleavings + SMT"),
 "C12":C("other","Bounded symbolic verification of the real xfer.XferPipe and of pipe transport in the raw protocol and in replies (handleCall): solver-chosen filter sequences over three harness filters, symbolic payloads; unregistered ids and the 255/256 boundary.","DESIGN.md §6 C12"),
 "C07":C("other","Bounded symbolic verification: solver-chosen histories (accept / SetID with fresh or colliding id / local close / remote close / traffic) of length <= 4-5 over <= 3 sessions through the real ServeConn/SetID/SessionHub/Close/readDisconnected; after every step the index, health, close notification, fail-fast and disconnect-hook count are compared with a reference model. Quiescent points only.","DESIGN.md §6 C07"),
 "C09":C("other","Bounded symbolic verification: containers built by the real AppendLeft/AppendRight/SubRoute/reg/refresh (slice growth as runtime.growslice), one CALL to one of two sibling routes, solver-chosen vetoing (plugin, stage), symbolic veto status; the hook trace must be a subsequence of the documented order restricted to global + matched chain; client-side pre-write veto writes nothing.","DESIGN.md §6 C09"),
 "C10":C("other","Bounded symbolic verification: the real name mappers on symbolic ASCII identifiers (total, deterministic, documented table), the real reg/getCall/getPush with symbolic requested names (exact match only, CALL/PUSH namespaces, unknown-handler, 404), conflicts reach Fatalf. Reflection-based controller extraction is outside the claim.","DESIGN.md §6 C10"),
 "C15":C("other","Every predefined status is snapshotted before and compared after each failure-path harness (connection loss with/without read error, cancelled calls, 404/400/500/405 replies, write failures, proxy failures); any in-place change of a shared status fails an SMT-checked assertion.","DESIGN.md §6 C15"),
 "C16":C("other","Bounded symbolic verification: the real ServeConn/postAccept/auth checker/PreReceive/raw Unpack on a scripted connection whose first bytes are symbolic (AUTH_CALL with symbolic token, CALL, frame of symbolic type, arbitrary bytes, nothing) plus pipelined frames; handler and hook counters stay zero unless authentication succeeded; rejected connections are closed and unlisted.","DESIGN.md §6 C16"),
 "C18":C("other","Connection limit: solver-chosen accept/reject/close histories through the real ServeConn + overloader; races (two accepts for the last slot; takers vs refill tick) explored over all schedules with <= 2 pre-emptions at sync/atomic operations, schedule choices being decisions of the symbolic execution; rate-limit arithmetic sequentially. Two known findings recorded.","DESIGN.md §6 C18","symbolic execution of go/ssa + SMT; bounded-preemption schedule exploration for the race harnesses"),
 "C19":C("other","Bounded symbolic verification: real proxy.call/push and a real forwarding session; the harness plays caller and backend at wire level; forwarded frame and reply to the caller are compared with the request / the backend's reply for symbolic body, status code and metadata; backend failure => 502 on that call only.","DESIGN.md §6 C19"),
 "C20":C("other","Differential bounded symbolic verification: an object dirtied with symbolic field values, released and re-acquired from the pool is compared field by field and by packed bytes with a fresh one, before and after a solver-chosen next use (message, Args, XferPipe, ByteBuffer).","DESIGN.md §6 C20"),
}
na_reason={}
checks=[]
for pid,c in sorted(claimed.items()):
    checks.append({"property_id":pid,
      "quick_cmd":f"{ENV} /verif/bin/gosymx check {pid} --tier quick",
      "thorough_cmd":f"{ENV} /verif/bin/gosymx check {pid} --tier thorough",
      "evidence_file":f"/verif/evidence/{pid}.json",
      "replay_cmd_template":f"{ENV} /verif/bin/gosymx replay {{path}}",
      "engine":"gosymx",
      "level_claimed":{"category":c["level"],"text":c["text"],"design_ref":c["ref"]},
      "level_note":c["note"],"technique":c["technique"]})
m={"version":1,
 "setup_cmd":f"cd /verif/engine && {ENV} go build -o /verif/bin/gosymx .",
 "hooks":{"guard":"verif","enable":"overlay-only: harness files (/verif/harness/<pkg>/zz_vx_*.go), the vx shim and a QUIC stub are injected with go/packages Overlay (engine) and go test -overlay (native replay); /repo is never modified",
          "baseline_off_cmd":json.load(open('/root/.vp/BASELINE.json'))['cmd'],"source_commits":[],"add_only":True},
 "engines":[{"name":"gosymx","path":"/verif/engine","serves_properties":sorted(claimed),"kind_free_text":"symbolic interpreter for go/ssa of the real code (derived from x/tools ssa/interp) + SMT (z3 -in incremental), path exploration by re-execution with decision prefixes, native replay of counterexamples"}],
 "checks":checks,
 "notes":"Solver-based checking of the real code; see DESIGN.md. Exit codes: 0 held within bounds, 1 VIOLATION (natively reproduced), 2 INCONCLUSIVE (truncation/unknown/unsupported).",
 "not_applicable":[{"property_id":p['id'],"reason":na_reason.get(p['id'],"check not built yet (work in progress; see DESIGN.md section 6)")} for p in props if p['id'] not in claimed]}
json.dump(m,open('/verif/MANIFEST.json','w'),indent=1)
