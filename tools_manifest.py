#!/usr/bin/env python3
# Regenerates MANIFEST.json from the table below (kept valid at all times).
import json
props=[json.loads(l) for l in open('/verif/properties.jsonl')]
ENV="GOFLAGS=-mod=mod GOPROXY=off GOSUMDB=off GOTOOLCHAIN=local"
claimed={
 "C05":{"level":"other","text":"Bounded symbolic verification: the real Pack/Unpack code of the raw protocol (with utils.Args, status query coding, xfer pipe, message) is executed symbolically from go/ssa; every round-trip assertion is an SMT query over all values of the symbolic field bytes for each listed shape (lengths concrete). unsat on every query = holds for every input within the shape bounds; sat = concrete counterexample replayed natively before being reported.",
        "note":"Trusted: the SSA interpreter (validated by native replay of every counterexample), z3 5.1.0, stubs listed in evidence.assumptions; bounds: field lengths listed in evidence.coverage.bounds; longer fields, other protocols' library framing (thrift, net/http, protobuf varints) are outside the claim.",
        "technique":"symbolic execution of go/ssa + SMT (QF_BV), bounded by shape vectors","ref":"DESIGN.md §6 C05"},
}
na_reason={}
checks=[]
for pid,c in sorted(claimed.items()):
    checks.append({"property_id":pid,
      "quick_cmd":f"{ENV} /verif/bin/gosymx check {pid} --tier quick",
      "thorough_cmd":f"{ENV} /verif/bin/gosymx check {pid} --tier thorough",
      "evidence_file":f"/verif/evidence/{pid}.json",
      "replay_cmd_template":f"{ENV} /verif/bin/gosymx replay {{path}}",
      "engine":"gosymx",
      "level_claimed":{"category":c["level"],"text":c["text"],"design_ref":c["ref"]},
      "level_note":c["note"],"technique":c["technique"]})
m={"version":1,
 "setup_cmd":f"cd /verif/engine && {ENV} go build -o /verif/bin/gosymx .",
 "hooks":{"guard":"verif","enable":"overlay-only: harness files (/verif/harness/<pkg>/zz_vx_*.go), the vx shim and a QUIC stub are injected with go/packages Overlay (engine) and go test -overlay (native replay); /repo is never modified",
          "baseline_off_cmd":json.load(open('/root/.vp/BASELINE.json'))['cmd'],"source_commits":[],"add_only":True},
 "engines":[{"name":"gosymx","path":"/verif/engine","serves_properties":sorted(claimed),"kind_free_text":"symbolic interpreter for go/ssa of the real code (derived from x/tools ssa/interp) + SMT (z3 -in incremental), path exploration by re-execution with decision prefixes, native replay of counterexamples"}],
 "checks":checks,
 "notes":"Solver-based checking of the real code; see DESIGN.md. Exit codes: 0 held within bounds, 1 VIOLATION (natively reproduced), 2 INCONCLUSIVE (truncation/unknown/unsupported).",
 "not_applicable":[{"property_id":p['id'],"reason":na_reason.get(p['id'],"check not built yet (work in progress; see DESIGN.md section 6)")} for p in props if p['id'] not in claimed]}
json.dump(m,open('/verif/MANIFEST.json','w'),indent=1)
